// precis-mirdump: a rustc_private driver that exports the type-checked program of each
// workspace crate as JSON facts (MIR bodies with resolved callees, constants, ADTs, statics).
// It knows nothing about PRECIS; all repository knowledge lives in /verif/pv and /verif/spec.
//
// Used as RUSTC_WORKSPACE_WRAPPER under `cargo +nightly check`: argv[1] is the real rustc.
#![feature(rustc_private)]
#![allow(clippy::all)]

extern crate rustc_abi;
extern crate rustc_driver;
extern crate rustc_hir;
extern crate rustc_infer;
extern crate rustc_trait_selection;
extern crate rustc_interface;
extern crate rustc_middle;
extern crate rustc_session;
extern crate rustc_span;

use rustc_driver::{Callbacks, Compilation};
use rustc_hir::def::DefKind;
use rustc_hir::def_id::{DefId, LOCAL_CRATE};
use rustc_middle::mir::{
    self, AggregateKind, BinOp, Body, CastKind, ConstValue, Operand, Place, ProjectionElem, Rvalue,
    StatementKind, TerminatorKind, UnOp,
};
use rustc_middle::ty::print::{with_no_trimmed_paths, with_no_visible_paths, with_resolve_crate_name};

macro_rules! pp {
    ($e:expr) => {
        with_resolve_crate_name!(with_no_visible_paths!(with_no_trimmed_paths!($e)))
    };
}
use rustc_middle::ty::{self, GenericArgsRef, Instance, Ty, TyCtxt, TypingEnv};
use rustc_span::Span;
use rustc_infer::infer::TyCtxtInferExt;
use rustc_trait_selection::infer::InferCtxtExt;
use std::collections::BTreeMap;
use std::fmt::Write as _;

struct UnsafeFinder {
    count: u32,
}

impl<'v> rustc_hir::intravisit::Visitor<'v> for UnsafeFinder {
    fn visit_block(&mut self, b: &'v rustc_hir::Block<'v>) {
        if let rustc_hir::BlockCheckMode::UnsafeBlock(rustc_hir::UnsafeSource::UserProvided) = b.rules {
            self.count += 1;
        }
        rustc_hir::intravisit::walk_block(self, b);
    }
}

fn esc(s: &str) -> String {
    let mut o = String::with_capacity(s.len() + 2);
    o.push('"');
    for c in s.chars() {
        match c {
            '"' => o.push_str("\\\""),
            '\\' => o.push_str("\\\\"),
            '\n' => o.push_str("\\n"),
            '\r' => o.push_str("\\r"),
            '\t' => o.push_str("\\t"),
            c if (c as u32) < 0x20 => {
                let _ = write!(o, "\\u{:04x}", c as u32);
            }
            c => o.push(c),
        }
    }
    o.push('"');
    o
}

fn jlist(items: Vec<String>) -> String {
    format!("[{}]", items.join(","))
}

struct Cx<'tcx> {
    tcx: TyCtxt<'tcx>,
    externs: BTreeMap<String, String>,
    // external (std) functions whose MIR is available in crate metadata: exported too, so that the
    // rule engine can interpret std combinators instead of needing a hand-written model for each
    ext_queue: Vec<(DefId, u32)>,
    ext_seen: std::collections::HashSet<DefId>,
    cur_depth: u32,
}

impl<'tcx> Cx<'tcx> {
    fn path(&self, did: DefId) -> String {
        pp!(self.tcx.def_path_str(did))
    }

    fn path_args(&self, did: DefId, args: GenericArgsRef<'tcx>) -> String {
        pp!(self.tcx.def_path_str_with_args(did, args))
    }

    fn ty(&self, t: Ty<'tcx>) -> String {
        pp!(format!("{}", t))
    }

    fn span(&self, sp: Span) -> String {
        let sm = self.tcx.sess.source_map();
        let lo = sm.lookup_char_pos(sp.lo());
        let hi = sm.lookup_char_pos(sp.hi());
        let file = match &lo.file.name {
            rustc_span::FileName::Real(r) => match r.local_path() {
                Some(p) => p.to_string_lossy().to_string(),
                None => format!("{:?}", lo.file.name),
            },
            other => format!("{:?}", other),
        };
        format!(
            "{{\"file\":{},\"line\":{},\"col\":{},\"end_line\":{},\"exp\":{}}}",
            esc(&file),
            lo.line,
            lo.col.0 + 1,
            hi.line,
            sp.from_expansion()
        )
    }

    fn has_panics_doc(&self, did: DefId) -> bool {
        #[allow(deprecated)]
        let attrs = self.tcx.get_all_attrs(did);
        for a in attrs.iter() {
            if let Some(s) = a.doc_str() {
                if s.as_str().contains("# Panics") {
                    return true;
                }
            }
        }
        false
    }

    fn note_extern(&mut self, did: DefId) {
        if did.is_local() {
            return;
        }
        let p = self.path(did);
        if self.externs.contains_key(&p) {
            return;
        }
        let kind = self.tcx.def_kind(did);
        let is_fn = matches!(kind, DefKind::Fn | DefKind::AssocFn);
        let panics = self.has_panics_doc(did);
        let unsafe_ = if is_fn {
            self.tcx.fn_sig(did).skip_binder().safety().is_unsafe()
        } else {
            false
        };
        let krate = self.tcx.crate_name(did.krate).to_string();
        if matches!(kind, DefKind::Fn | DefKind::AssocFn | DefKind::Closure) && matches!(krate.as_str(), "core" | "alloc" | "std") && self.cur_depth < 5 && !self.ext_seen.contains(&did) && self.tcx.is_mir_available(did) {
            self.ext_seen.insert(did);
            self.ext_queue.push((did, self.cur_depth + 1));
        }
        let v = format!(
            "{{\"crate\":{},\"panics_doc\":{},\"unsafe\":{},\"kind\":{}}}",
            esc(&krate),
            panics,
            unsafe_,
            esc(&format!("{:?}", kind))
        );
        self.externs.insert(p, v);
    }

    // ---------------------------------------------------------------- callee description
    fn fn_item(&mut self, owner: DefId, did: DefId, args: GenericArgsRef<'tcx>) -> String {
        let tcx = self.tcx;
        let orig_path = self.path(did);
        let orig_full = self.path_args(did, args);
        let mut res_did = did;
        let mut res_args = args;
        let mut resolved = false;
        let mut virt = false;
        let mut ikind = String::from("none");
        let typing_env = TypingEnv::post_analysis(tcx, owner);
        if let Ok(Some(inst)) = Instance::try_resolve(tcx, typing_env, did, args) {
            ikind = match inst.def {
                ty::InstanceKind::Item(_) => "item".into(),
                ty::InstanceKind::Intrinsic(_) => "intrinsic".into(),
                ty::InstanceKind::Virtual(..) => {
                    virt = true;
                    "virtual".into()
                }
                ty::InstanceKind::ClosureOnceShim { .. } => "closure_once_shim".into(),
                ty::InstanceKind::FnPtrShim(..) => "fn_ptr_shim".into(),
                ty::InstanceKind::ReifyShim(..) => "reify_shim".into(),
                ty::InstanceKind::DropGlue(..) => "drop_glue".into(),
                ty::InstanceKind::CloneShim(..) => "clone_shim".into(),
                _ => "other".into(),
            };
            res_did = inst.def_id();
            res_args = inst.args;
            resolved = !virt;
        }
        // a trait method that stayed a trait method counts as resolved only when the trait
        // provides a default body for it (the default body is then what runs)
        let is_trait_item = tcx.trait_of_assoc(res_did).is_some();
        if is_trait_item && res_did == did && !tcx.defaultness(res_did).has_value() {
            resolved = false;
        }
        if is_trait_item && res_did == did && resolved {
            // default body with a still-generic Self: resolved only if Self is a concrete type
            if let Some(t) = args.get(0).and_then(|a| a.as_type()) {
                if matches!(t.kind(), ty::Param(_)) {
                    resolved = false;
                }
            }
        }
        self.note_extern(res_did);
        if res_did != did {
            self.note_extern(did);
        }
        let trait_did = tcx.trait_of_assoc(did).or_else(|| {
            tcx.impl_of_assoc(res_did).and_then(|imp| tcx.impl_opt_trait_id(imp))
        });
        let self_ty = if tcx.trait_of_assoc(did).is_some() && args.len() > 0 {
            match args[0].as_type() {
                Some(t) => esc(&self.ty(t)),
                None => "null".into(),
            }
        } else {
            "null".into()
        };
        let targs: Vec<String> = res_args.iter().map(|a| esc(&pp!(format!("{}", a)))).collect();
        let oargs: Vec<String> = args.iter().map(|a| esc(&pp!(format!("{}", a)))).collect();
        format!(
            "{{\"path\":{},\"full\":{},\"orig\":{},\"orig_full\":{},\"local\":{},\"crate\":{},\"resolved\":{},\"virtual\":{},\"inst\":{},\"trait\":{},\"self_ty\":{},\"args\":{},\"orig_args\":{},\"name\":{}}}",
            esc(&self.path(res_did)),
            esc(&self.path_args(res_did, res_args)),
            esc(&orig_path),
            esc(&orig_full),
            res_did.is_local(),
            esc(&tcx.crate_name(res_did.krate).to_string()),
            resolved,
            virt,
            esc(&ikind),
            match trait_did { Some(t) => esc(&self.path(t)), None => "null".into() },
            self_ty,
            jlist(targs),
            jlist(oargs),
            esc(&tcx.item_name(did).to_string()),
        )
    }

    // ---------------------------------------------------------------- constants
    fn const_value(&mut self, owner: DefId, val: ConstValue, ty: Ty<'tcx>, depth: u32) -> String {
        let tcx = self.tcx;
        let tys = esc(&self.ty(ty));
        match val {
            ConstValue::ZeroSized => {
                if let ty::FnDef(did, args) = ty.kind() {
                    return format!("{{\"k\":\"fn\",\"ty\":{},\"fn\":{}}}", tys, self.fn_item(owner, *did, args));
                }
                format!("{{\"k\":\"zst\",\"ty\":{}}}", tys)
            }
            ConstValue::Scalar(mir::interpret::Scalar::Int(i)) => {
                let size = i.size();
                let bits = i.to_bits(size);
                let v: String = match ty.kind() {
                    ty::Int(_) => {
                        let sh = 128 - size.bits();
                        let sv = ((bits << sh) as i128) >> sh;
                        format!("{}", sv)
                    }
                    _ => format!("{}", bits),
                };
                // enum with scalar layout: report the variant too
                let mut extra = String::new();
                if let ty::Adt(adt, _) = ty.kind() {
                    if adt.is_enum() {
                        for (vi, d) in adt.discriminants(tcx) {
                            if d.val == bits {
                                let _ = write!(extra, ",\"variant\":{},\"variant_name\":{}", vi.as_u32(), esc(adt.variant(vi).name.as_str()));
                            }
                        }
                    }
                }
                format!("{{\"k\":\"int\",\"ty\":{},\"v\":{},\"bits\":{}{}}}", tys, v, size.bits(), extra)
            }
            ConstValue::Scalar(mir::interpret::Scalar::Ptr(ptr, _)) => {
                let alloc_id = ptr.provenance.alloc_id();
                match tcx.global_alloc(alloc_id) {
                    mir::interpret::GlobalAlloc::Static(did) => {
                        format!("{{\"k\":\"static_ref\",\"ty\":{},\"static\":{},\"local\":{}}}", tys, esc(&self.path(did)), did.is_local())
                    }
                    mir::interpret::GlobalAlloc::Function { instance } => {
                        format!("{{\"k\":\"fn_ptr\",\"ty\":{},\"path\":{}}}", tys, esc(&self.path(instance.def_id())))
                    }
                    other => format!("{{\"k\":\"ptr\",\"ty\":{},\"repr\":{}}}", tys, esc(&format!("{:?}", other))),
                }
            }
            ConstValue::Slice { alloc_id, meta } => {
                let alloc = tcx.global_alloc(alloc_id).unwrap_memory();
                let bytes = alloc.inner().inspect_with_uninit_and_ptr_outside_interpreter(0..(meta as usize));
                match std::str::from_utf8(bytes) {
                    Ok(s) => format!("{{\"k\":\"str\",\"ty\":{},\"v\":{}}}", tys, esc(s)),
                    Err(_) => format!("{{\"k\":\"bytes\",\"ty\":{},\"v\":{}}}", tys, jlist(bytes.iter().map(|b| b.to_string()).collect())),
                }
            }
            ConstValue::Indirect { .. } => {
                let destructurable = match ty.kind() {
                    ty::Adt(adt, _) => !adt.is_union() && owner.is_local(),
                    ty::Tuple(_) => owner.is_local(),
                    _ => false,
                };
                if depth < 3 && destructurable {
                    if let Some(d) = tcx.try_destructure_mir_constant_for_user_output(val, ty) {
                        let fields: Vec<String> = d.fields.iter().map(|(v, t)| self.const_value(owner, *v, *t, depth + 1)).collect();
                        let (vi, vn) = match (d.variant, ty.kind()) {
                            (Some(v), ty::Adt(adt, _)) => (format!("{}", v.as_u32()), esc(adt.variant(v).name.as_str())),
                            _ => ("null".into(), "null".into()),
                        };
                        return format!("{{\"k\":\"adt\",\"ty\":{},\"variant\":{},\"variant_name\":{},\"fields\":{}}}", tys, vi, vn, jlist(fields));
                    }
                }
                format!("{{\"k\":\"indirect\",\"ty\":{}}}", tys)
            }
        }
    }

    fn constant(&mut self, owner: DefId, c: &mir::ConstOperand<'tcx>) -> String {
        let tcx = self.tcx;
        let ty = c.const_.ty();
        if let ty::FnDef(did, args) = ty.kind() {
            return format!("{{\"k\":\"fn\",\"ty\":{},\"fn\":{}}}", esc(&self.ty(ty)), self.fn_item(owner, *did, args));
        }
        if let mir::Const::Unevaluated(u, _) = c.const_ {
            if let Some(p) = u.promoted {
                return format!("{{\"k\":\"promoted\",\"ty\":{},\"owner\":{},\"idx\":{}}}", esc(&self.ty(ty)), esc(&self.path(u.def)), p.as_u32());
            }
        }
        let typing_env = TypingEnv::post_analysis(tcx, owner);
        let named = if let mir::Const::Unevaluated(u, _) = c.const_ { esc(&self.path(u.def)) } else { "null".into() };
        match c.const_.eval(tcx, typing_env, c.span) {
            Ok(v) => {
                let s = self.const_value(owner, v, ty, 0);
                // splice the name of the named constant in
                format!("{},\"named\":{}}}", &s[..s.len() - 1], named)
            }
            Err(_) => format!("{{\"k\":\"unevaluated\",\"ty\":{},\"repr\":{},\"named\":{}}}", esc(&self.ty(ty)), esc(&format!("{:?}", c.const_)), named),
        }
    }

    // ---------------------------------------------------------------- places / operands / rvalues
    fn place(&mut self, body: &Body<'tcx>, p: &Place<'tcx>) -> String {
        let mut projs = Vec::new();
        let tcx = self.tcx;
        let mut pty = mir::PlaceTy::from_ty(body.local_decls[p.local].ty);
        for elem in p.projection.iter() {
            let s = match elem {
                ProjectionElem::Deref => "{\"k\":\"deref\"}".to_string(),
                ProjectionElem::Field(f, t) => format!("{{\"k\":\"field\",\"i\":{},\"ty\":{}}}", f.as_u32(), esc(&self.ty(t))),
                ProjectionElem::Index(l) => format!("{{\"k\":\"index\",\"l\":{}}}", l.as_u32()),
                ProjectionElem::ConstantIndex { offset, min_length, from_end } => {
                    format!("{{\"k\":\"const_index\",\"offset\":{},\"min_length\":{},\"from_end\":{}}}", offset, min_length, from_end)
                }
                ProjectionElem::Subslice { from, to, from_end } => format!("{{\"k\":\"subslice\",\"from\":{},\"to\":{},\"from_end\":{}}}", from, to, from_end),
                ProjectionElem::Downcast(_, v) => {
                    let name = match pty.ty.kind() {
                        ty::Adt(adt, _) if adt.is_enum() => adt.variant(v).name.to_string(),
                        _ => String::new(),
                    };
                    format!("{{\"k\":\"downcast\",\"v\":{},\"name\":{}}}", v.as_u32(), esc(&name))
                }
                other => format!("{{\"k\":\"other\",\"repr\":{}}}", esc(&format!("{:?}", other))),
            };
            projs.push(s);
            pty = pty.projection_ty(tcx, elem);
        }
        format!("{{\"l\":{},\"p\":{}}}", p.local.as_u32(), jlist(projs))
    }

    fn operand(&mut self, owner: DefId, body: &Body<'tcx>, o: &Operand<'tcx>) -> String {
        match o {
            Operand::Copy(p) => format!("{{\"k\":\"copy\",\"place\":{}}}", self.place(body, p)),
            Operand::Move(p) => format!("{{\"k\":\"move\",\"place\":{}}}", self.place(body, p)),
            Operand::Constant(c) => self.constant(owner, c),
            #[allow(unreachable_patterns)]
            other => format!("{{\"k\":\"other_operand\",\"repr\":{}}}", esc(&format!("{:?}", other))),
        }
    }

    fn binop(op: BinOp) -> &'static str {
        match op {
            BinOp::Add => "Add",
            BinOp::AddUnchecked => "AddUnchecked",
            BinOp::AddWithOverflow => "AddWithOverflow",
            BinOp::Sub => "Sub",
            BinOp::SubUnchecked => "SubUnchecked",
            BinOp::SubWithOverflow => "SubWithOverflow",
            BinOp::Mul => "Mul",
            BinOp::MulUnchecked => "MulUnchecked",
            BinOp::MulWithOverflow => "MulWithOverflow",
            BinOp::Div => "Div",
            BinOp::Rem => "Rem",
            BinOp::BitXor => "BitXor",
            BinOp::BitAnd => "BitAnd",
            BinOp::BitOr => "BitOr",
            BinOp::Shl => "Shl",
            BinOp::ShlUnchecked => "ShlUnchecked",
            BinOp::Shr => "Shr",
            BinOp::ShrUnchecked => "ShrUnchecked",
            BinOp::Eq => "Eq",
            BinOp::Lt => "Lt",
            BinOp::Le => "Le",
            BinOp::Ne => "Ne",
            BinOp::Ge => "Ge",
            BinOp::Gt => "Gt",
            BinOp::Cmp => "Cmp",
            BinOp::Offset => "Offset",
        }
    }

    fn rvalue(&mut self, owner: DefId, body: &Body<'tcx>, rv: &Rvalue<'tcx>) -> String {
        let tcx = self.tcx;
        match rv {
            Rvalue::Use(o, ..) => format!("{{\"k\":\"use\",\"op\":{}}}", self.operand(owner, body, o)),
            Rvalue::Repeat(o, n) => format!("{{\"k\":\"repeat\",\"op\":{},\"n\":{}}}", self.operand(owner, body, o), esc(&format!("{:?}", n))),
            Rvalue::Ref(_, bk, p) => {
                let m = matches!(bk, mir::BorrowKind::Mut { .. });
                format!("{{\"k\":\"ref\",\"mut\":{},\"place\":{}}}", m, self.place(body, p))
            }
            Rvalue::RawPtr(k, p) => format!("{{\"k\":\"raw_ptr\",\"kind\":{},\"place\":{}}}", esc(&format!("{:?}", k)), self.place(body, p)),
            Rvalue::ThreadLocalRef(d) => format!("{{\"k\":\"thread_local_ref\",\"path\":{}}}", esc(&self.path(*d))),
            Rvalue::Cast(kind, o, t) => {
                let ks = match kind {
                    CastKind::IntToInt => "IntToInt".to_string(),
                    CastKind::Transmute => "Transmute".to_string(),
                    CastKind::PtrToPtr => "PtrToPtr".to_string(),
                    CastKind::FnPtrToPtr => "FnPtrToPtr".to_string(),
                    other => format!("{:?}", other),
                };
                let from_ty = o.ty(&body.local_decls, tcx);
                format!("{{\"k\":\"cast\",\"kind\":{},\"op\":{},\"ty\":{},\"from_ty\":{}}}", esc(&ks), self.operand(owner, body, o), esc(&self.ty(*t)), esc(&self.ty(from_ty)))
            }
            Rvalue::BinaryOp(op, ab) => {
                let (a, b) = &**ab;
                format!("{{\"k\":\"binop\",\"op\":\"{}\",\"a\":{},\"b\":{}}}", Self::binop(*op), self.operand(owner, body, a), self.operand(owner, body, b))
            }
            Rvalue::UnaryOp(op, o) => {
                let ops = match op {
                    UnOp::Not => "Not",
                    UnOp::Neg => "Neg",
                    UnOp::PtrMetadata => "PtrMetadata",
                };
                format!("{{\"k\":\"unop\",\"op\":\"{}\",\"a\":{}}}", ops, self.operand(owner, body, o))
            }
            Rvalue::Discriminant(p) => {
                let pt = p.ty(&body.local_decls, tcx).ty;
                let mut vars = Vec::new();
                if let ty::Adt(adt, _) = pt.kind() {
                    if adt.is_enum() {
                        for (vi, d) in adt.discriminants(tcx) {
                            vars.push(format!("[{},{},{}]", vi.as_u32(), d.val, esc(adt.variant(vi).name.as_str())));
                        }
                    }
                }
                format!("{{\"k\":\"discriminant\",\"place\":{},\"ty\":{},\"variants\":{}}}", self.place(body, p), esc(&self.ty(pt)), jlist(vars))
            }
            Rvalue::Aggregate(kind, ops) => {
                let opss: Vec<String> = ops.iter().map(|o| self.operand(owner, body, o)).collect();
                let head = match &**kind {
                    AggregateKind::Array(t) => format!("\"agg\":\"array\",\"ty\":{}", esc(&self.ty(*t))),
                    AggregateKind::Tuple => "\"agg\":\"tuple\"".to_string(),
                    AggregateKind::Adt(did, vi, args, _, active) => {
                        let adt = tcx.adt_def(*did);
                        let vname = adt.variant(*vi).name.to_string();
                        let discr = if adt.is_enum() { format!("{}", adt.discriminant_for_variant(tcx, *vi).val) } else { "null".into() };
                        format!(
                            "\"agg\":\"adt\",\"adt\":{},\"adt_full\":{},\"variant\":{},\"variant_name\":{},\"discr\":{},\"is_enum\":{},\"active_field\":{}",
                            esc(&self.path(*did)),
                            esc(&self.path_args(*did, args)),
                            vi.as_u32(),
                            esc(&vname),
                            discr,
                            adt.is_enum(),
                            match active { Some(f) => format!("{}", f.as_u32()), None => "null".into() }
                        )
                    }
                    AggregateKind::Closure(did, _) => {
                        if !did.is_local() && !self.ext_seen.contains(did) && self.cur_depth < 5 && tcx.is_mir_available(*did) {
                            self.ext_seen.insert(*did);
                            self.ext_queue.push((*did, self.cur_depth + 1));
                        }
                        format!("\"agg\":\"closure\",\"def\":{}", esc(&self.path(*did)))
                    }
                    AggregateKind::RawPtr(t, m) => format!("\"agg\":\"raw_ptr\",\"ty\":{},\"mut\":{}", esc(&self.ty(*t)), m.is_mut()),
                    other => format!("\"agg\":\"other\",\"repr\":{}", esc(&format!("{:?}", other))),
                };
                format!("{{\"k\":\"aggregate\",{},\"ops\":{}}}", head, jlist(opss))
            }
            Rvalue::CopyForDeref(p) => format!("{{\"k\":\"use\",\"op\":{{\"k\":\"copy\",\"place\":{}}}}}", self.place(body, p)),
            other => format!("{{\"k\":\"other_rvalue\",\"repr\":{}}}", esc(&format!("{:?}", other))),
        }
    }

    fn body(&mut self, owner: DefId, body: &Body<'tcx>, id: &str, kind: &str, promoted: Option<u32>) -> String {
        let tcx = self.tcx;
        let mut locals = Vec::new();
        let mut names: BTreeMap<u32, String> = BTreeMap::new();
        for vdi in body.var_debug_info.iter() {
            if let mir::VarDebugInfoContents::Place(p) = &vdi.value {
                if p.projection.is_empty() {
                    names.insert(p.local.as_u32(), vdi.name.to_string());
                }
            }
        }
        for (l, d) in body.local_decls.iter_enumerated() {
            locals.push(format!(
                "{{\"ty\":{},\"name\":{},\"mut\":{}}}",
                esc(&self.ty(d.ty)),
                match names.get(&l.as_u32()) { Some(n) => esc(n), None => "null".into() },
                d.mutability.is_mut()
            ));
        }
        let mut upvar_names = Vec::new();
        for vdi in body.var_debug_info.iter() {
            if let mir::VarDebugInfoContents::Place(p) = &vdi.value {
                if !p.projection.is_empty() {
                    upvar_names.push(format!("{{\"name\":{},\"place\":{}}}", esc(vdi.name.as_str()), self.place(body, p)));
                }
            }
        }
        let mut blocks = Vec::new();
        for (_bb, data) in body.basic_blocks.iter_enumerated() {
            let mut stmts = Vec::new();
            for st in data.statements.iter() {
                let sp = self.span(st.source_info.span);
                match &st.kind {
                    StatementKind::Assign(bx) => {
                        let (p, rv) = &**bx;
                        stmts.push(format!("{{\"k\":\"assign\",\"place\":{},\"rv\":{},\"span\":{}}}", self.place(body, p), self.rvalue(owner, body, rv), sp));
                    }
                    StatementKind::SetDiscriminant { place, variant_index } => {
                        stmts.push(format!("{{\"k\":\"set_discriminant\",\"place\":{},\"variant\":{},\"span\":{}}}", self.place(body, place), variant_index.as_u32(), sp));
                    }
                    StatementKind::StorageLive(l) => stmts.push(format!("{{\"k\":\"storage_live\",\"l\":{}}}", l.as_u32())),
                    StatementKind::StorageDead(l) => stmts.push(format!("{{\"k\":\"storage_dead\",\"l\":{}}}", l.as_u32())),
                    StatementKind::Intrinsic(i) => stmts.push(format!("{{\"k\":\"intrinsic\",\"repr\":{},\"span\":{}}}", esc(&format!("{:?}", i)), sp)),
                    StatementKind::Nop
                    | StatementKind::FakeRead(..)
                    | StatementKind::PlaceMention(..)
                    | StatementKind::AscribeUserType(..)
                    | StatementKind::Coverage(..)
                    | StatementKind::ConstEvalCounter
                    | StatementKind::BackwardIncompatibleDropHint { .. } => {}
                    #[allow(unreachable_patterns)]
                    other => stmts.push(format!("{{\"k\":\"other\",\"repr\":{},\"span\":{}}}", esc(&format!("{:?}", other)), sp)),
                }
            }
            let term = data.terminator();
            let tsp = self.span(term.source_info.span);
            let unwind_s = |u: &mir::UnwindAction| -> String {
                match u {
                    mir::UnwindAction::Cleanup(bb) => format!("{}", bb.as_u32()),
                    _ => "null".into(),
                }
            };
            let t = match &term.kind {
                TerminatorKind::Goto { target } => format!("{{\"k\":\"goto\",\"target\":{}}}", target.as_u32()),
                TerminatorKind::SwitchInt { discr, targets } => {
                    let dty = discr.ty(&body.local_decls, tcx);
                    let vals: Vec<String> = targets.iter().map(|(v, bb)| format!("[{},{}]", v, bb.as_u32())).collect();
                    format!(
                        "{{\"k\":\"switch\",\"discr\":{},\"ty\":{},\"targets\":{},\"otherwise\":{},\"span\":{}}}",
                        self.operand(owner, body, discr),
                        esc(&self.ty(dty)),
                        jlist(vals),
                        targets.otherwise().as_u32(),
                        tsp
                    )
                }
                TerminatorKind::Return => "{\"k\":\"return\"}".to_string(),
                TerminatorKind::Unreachable => "{\"k\":\"unreachable\"}".to_string(),
                TerminatorKind::UnwindResume => "{\"k\":\"resume\"}".to_string(),
                TerminatorKind::UnwindTerminate(_) => "{\"k\":\"terminate\"}".to_string(),
                TerminatorKind::Drop { place, target, unwind, .. } => {
                    let pt = place.ty(&body.local_decls, tcx).ty;
                    format!("{{\"k\":\"drop\",\"place\":{},\"ty\":{},\"target\":{},\"unwind\":{}}}", self.place(body, place), esc(&self.ty(pt)), target.as_u32(), unwind_s(unwind))
                }
                TerminatorKind::Call { func, args, destination, target, unwind, fn_span, .. } => {
                    let argss: Vec<String> = args.iter().map(|a| self.operand(owner, body, &a.node)).collect();
                    let fty = func.ty(&body.local_decls, tcx);
                    let callee = match fty.kind() {
                        ty::FnDef(did, ga) => self.fn_item(owner, *did, ga),
                        _ => "null".into(),
                    };
                    let func_s = if matches!(fty.kind(), ty::FnDef(..)) { "{\"k\":\"fn_item\"}".to_string() } else { self.operand(owner, body, func) };
                    format!(
                        "{{\"k\":\"call\",\"func\":{},\"callee\":{},\"fn_ty\":{},\"args\":{},\"dest\":{},\"target\":{},\"unwind\":{},\"span\":{},\"fn_span\":{}}}",
                        func_s,
                        callee,
                        esc(&self.ty(fty)),
                        jlist(argss),
                        self.place(body, destination),
                        match target { Some(t) => format!("{}", t.as_u32()), None => "null".into() },
                        unwind_s(unwind),
                        tsp,
                        self.span(*fn_span)
                    )
                }
                TerminatorKind::Assert { cond, expected, msg, target, unwind } => {
                    let (mk, mops): (String, Vec<String>) = match &**msg {
                        mir::AssertKind::BoundsCheck { len, index } => ("BoundsCheck".into(), vec![self.operand(owner, body, len), self.operand(owner, body, index)]),
                        mir::AssertKind::Overflow(op, a, b) => (format!("Overflow:{}", Self::binop(*op)), vec![self.operand(owner, body, a), self.operand(owner, body, b)]),
                        mir::AssertKind::OverflowNeg(a) => ("OverflowNeg".into(), vec![self.operand(owner, body, a)]),
                        mir::AssertKind::DivisionByZero(a) => ("DivisionByZero".into(), vec![self.operand(owner, body, a)]),
                        mir::AssertKind::RemainderByZero(a) => ("RemainderByZero".into(), vec![self.operand(owner, body, a)]),
                        other => (format!("{:?}", other).split('(').next().unwrap_or("Other").to_string(), vec![]),
                    };
                    format!(
                        "{{\"k\":\"assert\",\"cond\":{},\"expected\":{},\"msg\":{},\"msg_ops\":{},\"target\":{},\"unwind\":{},\"span\":{}}}",
                        self.operand(owner, body, cond),
                        expected,
                        esc(&mk),
                        jlist(mops),
                        target.as_u32(),
                        unwind_s(unwind),
                        tsp
                    )
                }
                TerminatorKind::FalseEdge { real_target, .. } => format!("{{\"k\":\"goto\",\"target\":{}}}", real_target.as_u32()),
                TerminatorKind::FalseUnwind { real_target, .. } => format!("{{\"k\":\"goto\",\"target\":{}}}", real_target.as_u32()),
                other => format!("{{\"k\":\"other\",\"repr\":{},\"span\":{}}}", esc(&format!("{:?}", other)), tsp),
            };
            blocks.push(format!("{{\"stmts\":{},\"term\":{},\"cleanup\":{}}}", jlist(stmts), t, data.is_cleanup));
        }
        let def_kind = tcx.def_kind(owner);
        let vis = if matches!(def_kind, DefKind::Fn | DefKind::AssocFn | DefKind::Static { .. } | DefKind::Const { .. } | DefKind::AssocConst { .. }) {
            let v = tcx.visibility(owner);
            if v.is_public() { "pub".to_string() } else { "restricted".to_string() }
        } else {
            "n/a".to_string()
        };
        let is_unsafe = if matches!(def_kind, DefKind::Fn | DefKind::AssocFn) { tcx.fn_sig(owner).skip_binder().safety().is_unsafe() } else { false };
        // trait impl information for methods
        let (impl_of_trait, impl_self) = match tcx.impl_of_assoc(owner) {
            Some(imp) => {
                let tr = tcx.impl_opt_trait_id(imp).map(|t| esc(&self.path(t))).unwrap_or("null".into());
                let st = esc(&self.ty(tcx.type_of(imp).instantiate_identity().skip_norm_wip()));
                (tr, st)
            }
            None => ("null".into(), "null".into()),
        };
        let trait_of = match tcx.trait_of_assoc(owner) {
            Some(t) => esc(&self.path(t)),
            None => "null".into(),
        };
        let parent = tcx.opt_parent(owner).map(|p| esc(&self.path(p))).unwrap_or("null".into());
        let in_test = self.in_cfg_test(owner);
        let unsafe_blocks = match owner.as_local() {
            Some(l) if promoted.is_none() => match tcx.hir_maybe_body_owned_by(l) {
                Some(hb) => {
                    let mut f = UnsafeFinder { count: 0 };
                    rustc_hir::intravisit::Visitor::visit_expr(&mut f, hb.value);
                    f.count
                }
                None => 0,
            },
            _ => 0,
        };
        let exported = match owner.as_local() {
            Some(l) if matches!(def_kind, DefKind::Fn | DefKind::AssocFn) => tcx.effective_visibilities(()).is_reachable(l),
            _ => false,
        };
        format!(
            "{{\"id\":{},\"ext\":{},\"kind\":{},\"promoted\":{},\"def_kind\":{},\"span\":{},\"vis\":{},\"exported\":{},\"unsafe\":{},\"unsafe_blocks\":{},\"arg_count\":{},\"impl_trait\":{},\"impl_self\":{},\"trait_of\":{},\"parent\":{},\"in_test\":{},\"locals\":{},\"upvars\":{},\"blocks\":{}}}",
            esc(id),
            !owner.is_local(),
            esc(kind),
            match promoted { Some(p) => format!("{}", p), None => "null".into() },
            esc(&format!("{:?}", def_kind)),
            self.span(body.span),
            esc(&vis),
            exported,
            is_unsafe,
            unsafe_blocks,
            body.arg_count,
            impl_of_trait,
            impl_self,
            trait_of,
            parent,
            in_test,
            jlist(locals),
            jlist(upvar_names),
            jlist(blocks)
        )
    }

    fn in_cfg_test(&self, did: DefId) -> bool {
        // A body is "test code" if it or an enclosing module carries #[cfg(test)] / #[test].
        // After expansion cfg(test) items are simply absent in non-test builds, so in a test build
        // we approximate by the module name convention: report the enclosing module path and let
        // the rule engine decide. Here: true iff some ancestor module has the rustc_test_marker or
        // the item itself is a test harness function.
        let tcx = self.tcx;
        let mut cur = Some(did);
        while let Some(d) = cur {
            #[allow(deprecated)]
            for a in tcx.get_all_attrs(d).iter() {
                if a.has_name(rustc_span::sym::rustc_test_marker) {
                    return true;
                }
            }
            cur = tcx.opt_parent(d);
        }
        false
    }
}

struct Cb;

impl Callbacks for Cb {
    fn after_analysis<'tcx>(&mut self, _c: &rustc_interface::interface::Compiler, tcx: TyCtxt<'tcx>) -> Compilation {
        let out_dir = match std::env::var("PRECIS_FACTS_DIR") {
            Ok(d) => d,
            Err(_) => return Compilation::Continue,
        };
        let crate_name = tcx.crate_name(LOCAL_CRATE).to_string();
        let mut cx = Cx { tcx, externs: BTreeMap::new(), ext_queue: Vec::new(), ext_seen: std::collections::HashSet::new(), cur_depth: 0 };
        let mut bodies = Vec::new();
        let mut errors: Vec<String> = Vec::new();
        for ldid in tcx.hir_body_owners() {
            let did = ldid.to_def_id();
            let kind = tcx.def_kind(did);
            let id = cx.path(did);
            match kind {
                DefKind::Fn | DefKind::AssocFn | DefKind::Closure => {
                    // skip coroutine closures etc. that have no optimized MIR in check mode
                    let body = tcx.optimized_mir(did);
                    let k = if matches!(kind, DefKind::Closure) { "closure" } else { "fn" };
                    bodies.push(cx.body(did, body, &id, k, None));
                    for (pi, pb) in tcx.promoted_mir(did).iter_enumerated() {
                        bodies.push(cx.body(did, pb, &id, "promoted", Some(pi.as_u32())));
                    }
                }
                DefKind::Static { .. } | DefKind::Const { .. } | DefKind::AssocConst { .. } | DefKind::AnonConst | DefKind::InlineConst => {
                    let body = tcx.mir_for_ctfe(did);
                    let k = match kind {
                        DefKind::Static { .. } => "static",
                        _ => "const",
                    };
                    bodies.push(cx.body(did, body, &id, k, None));
                    for (pi, pb) in tcx.promoted_mir(did).iter_enumerated() {
                        bodies.push(cx.body(did, pb, &id, "promoted", Some(pi.as_u32())));
                    }
                }
                other => errors.push(format!("unhandled body owner kind {:?} for {}", other, id)),
            }
        }
        // external std bodies reachable from local code (bounded depth / size)
        let want_ext = std::env::var("PRECIS_EXPORT_STD").map(|v| v != "0").unwrap_or(true);
        let mut n_ext = 0;
        if want_ext {
            // the provided methods of Iterator are always exported: the interpreter runs them (loops around
            // `next`) on its abstract iterators instead of the adaptors' specialised overrides
            if let Some(it) = tcx.get_diagnostic_item(rustc_span::sym::Iterator) {
                for m in tcx.provided_trait_methods(it) {
                    let did = m.def_id;
                    if !cx.ext_seen.contains(&did) && tcx.is_mir_available(did) {
                        cx.ext_seen.insert(did);
                        cx.ext_queue.push((did, 1));
                    }
                }
            }
        }
        while want_ext {
            let Some((did, depth)) = cx.ext_queue.pop() else { break };
            if n_ext >= 1500 {
                break;
            }
            let kind = tcx.def_kind(did);
            let body = tcx.optimized_mir(did);
            if body.basic_blocks.len() > 250 {
                continue;
            }
            cx.cur_depth = depth;
            let id = cx.path(did);
            let k = if matches!(kind, DefKind::Closure) { "closure" } else { "fn" };
            bodies.push(cx.body(did, body, &id, k, None));
            for (pi, pb) in tcx.promoted_mir(did).iter_enumerated() {
                bodies.push(cx.body(did, pb, &id, "promoted", Some(pi.as_u32())));
            }
            n_ext += 1;
        }
        cx.cur_depth = 0;
        // ADTs, statics, traits impls
        let mut adts = Vec::new();
        let mut statics = Vec::new();
        let mut impls = Vec::new();
        let mut fns = Vec::new();
        for ldid in tcx.hir_crate_items(()).definitions() {
            let did = ldid.to_def_id();
            match tcx.def_kind(did) {
                DefKind::Struct | DefKind::Enum | DefKind::Union => {
                    let adt = tcx.adt_def(did);
                    let ty = tcx.type_of(did).instantiate_identity().skip_norm_wip();
                    let typing_env = TypingEnv::post_analysis(tcx, did);
                    let generic = tcx.generics_of(did).count() > 0;
                    let (size, freeze, copy) = if !generic {
                        let size = tcx.layout_of(typing_env.as_query_input(ty)).ok().map(|l| l.size.bytes());
                        (size, Some(ty.is_freeze(tcx, typing_env)), Some(tcx.type_is_copy_modulo_regions(typing_env, ty)))
                    } else {
                        (None, None, None)
                    };
                    let mut variants = Vec::new();
                    for (vi, v) in adt.variants().iter_enumerated() {
                        let fields: Vec<String> = v
                            .fields
                            .iter()
                            .map(|f| {
                                let fty = tcx.type_of(f.did).instantiate_identity().skip_norm_wip();
                                format!("{{\"name\":{},\"ty\":{}}}", esc(f.name.as_str()), esc(&cx.ty(fty)))
                            })
                            .collect();
                        let discr = if adt.is_enum() { format!("{}", adt.discriminant_for_variant(tcx, vi).val) } else { "null".into() };
                        variants.push(format!("{{\"name\":{},\"idx\":{},\"discr\":{},\"fields\":{}}}", esc(v.name.as_str()), vi.as_u32(), discr, jlist(fields)));
                    }
                    let (send, sync) = if !generic {
                        let infcx = tcx.infer_ctxt().build(ty::TypingMode::PostAnalysis);
                        let pe = typing_env.param_env;
                        let send = tcx.get_diagnostic_item(rustc_span::sym::Send).map(|d| infcx.type_implements_trait(d, [ty], pe).must_apply_modulo_regions());
                        let sync = tcx.lang_items().sync_trait().map(|d| infcx.type_implements_trait(d, [ty], pe).must_apply_modulo_regions());
                        (send, sync)
                    } else {
                        (None, None)
                    };
                    let o = |x: Option<bool>| match x { Some(b) => format!("{}", b), None => "null".into() };
                    adts.push(format!(
                        "{{\"path\":{},\"kind\":{},\"vis\":{},\"generic\":{},\"size\":{},\"freeze\":{},\"copy\":{},\"send\":{},\"sync\":{},\"span\":{},\"variants\":{}}}",
                        esc(&cx.path(did)),
                        esc(&format!("{:?}", tcx.def_kind(did))),
                        esc(if tcx.visibility(did).is_public() { "pub" } else { "restricted" }),
                        generic,
                        match size { Some(s) => format!("{}", s), None => "null".into() },
                        o(freeze),
                        o(copy),
                        o(send),
                        o(sync),
                        cx.span(tcx.def_span(did)),
                        jlist(variants)
                    ));
                }
                DefKind::Static { mutability, nested, .. } => {
                    let ty = tcx.type_of(did).instantiate_identity().skip_norm_wip();
                    let typing_env = TypingEnv::post_analysis(tcx, did);
                    statics.push(format!(
                        "{{\"path\":{},\"mutable\":{},\"nested\":{},\"ty\":{},\"freeze\":{},\"span\":{}}}",
                        esc(&cx.path(did)),
                        mutability.is_mut(),
                        nested,
                        esc(&cx.ty(ty)),
                        ty.is_freeze(tcx, typing_env),
                        cx.span(tcx.def_span(did))
                    ));
                }
                DefKind::Impl { of_trait } => {
                    let self_ty = tcx.type_of(did).instantiate_identity().skip_norm_wip();
                    let tr = if of_trait { tcx.impl_opt_trait_id(did).map(|t| esc(&cx.path(t))).unwrap_or("null".into()) } else { "null".into() };
                    let items: Vec<String> = tcx.associated_item_def_ids(did).iter().map(|d| esc(&cx.path(*d))).collect();
                    let item_names: Vec<String> = tcx.associated_item_def_ids(did).iter().map(|d| esc(tcx.item_name(*d).as_str())).collect();
                    let safety = if of_trait { format!("{:?}", tcx.impl_trait_header(did).safety) } else { "Safe".into() };
                    impls.push(format!(
                        "{{\"path\":{},\"self_ty\":{},\"trait\":{},\"items\":{},\"item_names\":{},\"safety\":{},\"span\":{}}}",
                        esc(&cx.path(did)),
                        esc(&cx.ty(self_ty)),
                        tr,
                        jlist(items),
                        jlist(item_names),
                        esc(&safety),
                        cx.span(tcx.def_span(did))
                    ));
                }
                DefKind::Fn | DefKind::AssocFn => {
                    let sig = tcx.fn_sig(did).skip_binder();
                    let inputs: Vec<String> = sig.inputs().skip_binder().iter().map(|t| esc(&cx.ty(*t))).collect();
                    let output = esc(&cx.ty(sig.output().skip_binder()));
                    let has_body = tcx.hir_maybe_body_owned_by(ldid).is_some();
                    fns.push(format!(
                        "{{\"path\":{},\"vis\":{},\"inputs\":{},\"output\":{},\"has_body\":{},\"trait_of\":{},\"span\":{}}}",
                        esc(&cx.path(did)),
                        esc(if tcx.visibility(did).is_public() { "pub" } else { "restricted" }),
                        jlist(inputs),
                        output,
                        has_body,
                        match tcx.trait_of_assoc(did) { Some(t) => esc(&cx.path(t)), None => "null".into() },
                        cx.span(tcx.def_span(did))
                    ));
                }
                _ => {}
            }
        }
        let externs: Vec<String> = cx.externs.iter().map(|(k, v)| format!("{}:{}", esc(k), v)).collect();
        let crate_types: Vec<String> = tcx.crate_types().iter().map(|t| esc(&format!("{:?}", t))).collect();
        let is_test = tcx.sess.is_test_crate();
        let src = tcx.sess.local_crate_source_file().map(|p| format!("{:?}", p)).unwrap_or_default();
        let out = format!(
            "{{\"crate\":{},\"pid\":{},\"crate_types\":{},\"is_test\":{},\"src\":{},\"overflow_checks\":{},\"errors\":{},\"bodies\":{},\"adts\":{},\"statics\":{},\"impls\":{},\"fns\":{},\"externs\":{{{}}}}}",
            esc(&crate_name),
            std::process::id(),
            jlist(crate_types),
            is_test,
            esc(&src),
            tcx.sess.overflow_checks(),
            jlist(errors.iter().map(|e| esc(e)).collect()),
            jlist(bodies),
            jlist(adts),
            jlist(statics),
            jlist(impls),
            jlist(fns),
            externs.join(",")
        );
        let fname = format!("{}/{}-{}.json", out_dir, crate_name, std::process::id());
        std::fs::write(&fname, out).expect("write facts");
        Compilation::Continue
    }
}

fn main() {
    let mut args: Vec<String> = std::env::args().collect();
    // RUSTC_WORKSPACE_WRAPPER: argv[1] is the path of the real rustc
    if args.len() > 1 && (args[1].ends_with("rustc") || args[1].contains("/rustc")) {
        args.remove(1);
    }
    rustc_driver::run_compiler(&args, &mut Cb);
}
