//! Positive controls for the zero-count rules (C16 effects/state, C01 panic sites). This file is NOT
//! part of precis; it is compiled by the same exporter on every run and each rule that is expected
//! to match nothing in the library must match its instance here (a rule matching zero sites would
//! otherwise pass vacuously forever).
#![allow(dead_code, static_mut_refs)]
use std::cell::Cell;
use std::sync::atomic::{AtomicUsize, Ordering};
use std::sync::Mutex;

pub static mut COUNTER: u32 = 0;
pub static CALLS: AtomicUsize = AtomicUsize::new(0);

thread_local! {
    static LAST: Cell<u32> = const { Cell::new(0) };
}

pub struct Caching {
    pub hits: Cell<u32>,
    pub memo: Mutex<Vec<String>>,
}

pub struct RawHolder(pub *mut u8);
unsafe impl Sync for RawHolder {}
unsafe impl Send for RawHolder {}

pub fn reads_clock() -> u64 {
    std::time::Instant::now().elapsed().as_secs()
}

pub fn reads_env() -> Option<String> {
    std::env::var("PRECIS_MODE").ok()
}

pub fn counts() -> usize {
    CALLS.fetch_add(1, Ordering::SeqCst)
}

pub fn bumps() -> u32 {
    unsafe {
        COUNTER += 1;
        COUNTER
    }
}

pub fn remembers(x: u32) -> u32 {
    LAST.with(|c| c.replace(x))
}

pub fn unwraps(x: Option<u32>) -> u32 {
    x.unwrap()
}

pub fn slices(s: &str, n: usize) -> &str {
    &s[..n]
}

pub fn indexes(v: &[u32], i: usize) -> u32 {
    v[i]
}

pub fn subtracts(a: usize, b: usize) -> usize {
    a - b
}

pub fn recurses(n: u32) -> u32 {
    if n == 0 {
        0
    } else {
        recurses(n - 1)
    }
}

pub fn spins(mut n: u32) -> u32 {
    loop {
        if n == 7 {
            return n;
        }
        n = n.wrapping_mul(3);
    }
}

pub fn aborts() -> ! {
    std::process::abort()
}

pub fn explicit_panic(x: u32) -> u32 {
    if x > 3 {
        panic!("too big");
    }
    x
}

pub fn slices_by_char_index(s: &str) -> &str {
    let mut pos = 0;
    for (i, c) in s.chars().enumerate() {
        if c == ' ' {
            pos = i;
            break;
        }
    }
    &s[pos..]
}

/// C16 positive control: the result depends on whether the argument is borrowed or owned.
pub fn by_representation(s: std::borrow::Cow<'_, str>) -> usize {
    match s {
        std::borrow::Cow::Borrowed(b) => b.len(),
        std::borrow::Cow::Owned(o) => o.len() + 1,
    }
}
