"""Break / keep corpus. Every break edit compiles and passes the repository's 51 tests (verified with
`selftest/run.py --verify-tests` when added, unless noted)."""

CASES = []


def case(id, kind, props, edits, note="", expect_key=()):
    CASES.append({"id": id, "kind": kind, "props": props, "edits": edits, "note": note, "expect_key": list(expect_key)})


TPL = "precis-tools/src/generators/codepoints.template"
CORE = "precis-core/src/"
PROF = "precis-profiles/src/"
TOOLS = "precis-tools/src/"

# ------------------------------------------------------------------ C18
case("c18-lt-start", "break", ["C18"], [(TPL, "Codepoints::Range(ref r) => r.end() < other,", "Codepoints::Range(ref r) => r.start() < other,")], "lt uses start")
case("c18-mirror-gt", "break", ["C18"], [(TPL, "Codepoints::Range(ref r) => self > r.end(),", "Codepoints::Range(ref r) => self > r.start(),")], "mirrored gt uses start")
case("c18-le-strict", "break", ["C18"], [(TPL, "Codepoints::Single(ref c) => c <= other,", "Codepoints::Single(ref c) => c < other,")])
case("c18-keep-match-order", "keep", ["C18"], [(TPL, """        if self.lt(other) {
            Some(Ordering::Less)
        } else if self.gt(other) {
            Some(Ordering::Greater)
        } else {
            Some(Ordering::Equal)
        }""", """        if self.gt(other) {
            return Some(Ordering::Greater);
        }
        Some(if self.lt(other) { Ordering::Less } else { Ordering::Equal })""")], "reordered tests, same function")

# ------------------------------------------------------------------ C13
case("c13-two-rounds", "break", ["C13"], [(CORE + "profile.rs", "for _i in 0..=3 {", "for _i in 0..=2 {")], "reverts the D5 repair", expect_key=["early-stop"])
case("c13-five-rounds", "break", ["C13"], [(CORE + "profile.rs", "for _i in 0..=3 {", "for _i in 0..=4 {")])
case("c13-return-tmp-unconfirmed", "break", ["C13"], [(CORE + "profile.rs", "        c = Cow::from(tmp.into_owned());\n    }\n\n", "        c = Cow::from(tmp.into_owned());\n        if _i == 3 {\n            return Ok(c);\n        }\n    }\n\n")], "returns the 4th result without confirming it is stable")
case("c13-swallow-error", "break", ["C13"], [(CORE + "profile.rs", "let tmp = f(&c)?;", "let tmp = f(&c).map_err(|_| Error::Invalid)?;")])
case("c13-keep-while", "keep", ["C13"], [(CORE + "profile.rs", "    for _i in 0..=3 {\n        let tmp = f(&c)?;", "    let mut _n = 0;\n    while _n < 4 {\n        _n += 1;\n        let tmp = f(&c)?;")], "for → while with a counter")

# ------------------------------------------------------------------ C15
case("c15-no-flush", "break", ["C15"], [(TOOLS + "generators/bidi_class.rs", "        if let (Some(r), Some(v)) = (range.as_ref(), val.as_ref()) {\n            add_range(r, v, &mut out);\n        }\n", "")], "reverts the D6 repair", expect_key=["flush-on-exit"])
case("c15-no-final-gap", "break", ["C15"], [(TOOLS + "generators/ucd_generator.rs", "        if self.range.start.value() <= last.value() {", "        if self.range.start.value() > last.value() {")], "trailing gap suppressed (data level)")
case("c15-no-sort", "break", ["C15"], [(TOOLS + "common.rs", "    vec.sort();\n", "")], "merge of an unsorted HashSet iteration")
case("c15-virama-7", "break", ["C15", "C03"], [(TOOLS + "generators/ucd_generator.rs", "const CANONICAL_COMBINING_CLASS_VIRAMA: u8 = 9;", "const CANONICAL_COMBINING_CLASS_VIRAMA: u8 = 7;")])
case("c15-greek-coptic", "break", ["C15", "C03"], [("precis-core/build.rs", 'UcdTableGen::new("Greek", "Greek")', 'UcdTableGen::new("Coptic", "Greek")')])
case("c15-merge-off-by-one", "break", ["C15"], [(TOOLS + "common.rs", "if **cp - r.end.value() == 1 {", "if **cp - r.end.value() <= 2 {")], "merges across a one-code-point gap")

# ------------------------------------------------------------------ C14
case("c14-swap-tests", "break", ["C14"], [(CORE + "stringclasses.rs", """                } else if common::is_join_control(cp) {
                    DerivedPropertyValue::ContextJ
                } else if common::is_old_hangul_jamo(cp) {
                    DerivedPropertyValue::Disallowed""", """                } else if common::is_old_hangul_jamo(cp) {
                    DerivedPropertyValue::Disallowed
                } else if common::is_join_control(cp) {
                    DerivedPropertyValue::ContextJ""")], "two tests swapped: no test result changes for 6.3.0 data", expect_key=["decision-list"])
case("c14-symbol-without-so", "break", ["C14"], [(CORE + "common.rs", "        || is_in_table(cp, &MODIFIER_SYMBOL)\n        || is_in_table(cp, &OTHER_SYMBOL)", "        || is_in_table(cp, &MODIFIER_SYMBOL)")], expect_key=["L4"])
case("c14-freeform-spaces-pvalid", "break", ["C14"], [(CORE + "stringclasses.rs", """    fn on_spaces(&self) -> DerivedPropertyValue {
        DerivedPropertyValue::SpecClassPval""", """    fn on_spaces(&self) -> DerivedPropertyValue {
        DerivedPropertyValue::PValid""")])
case("c14-char-entry-masks", "break", ["C14"], [(CORE + "stringclasses.rs", "        get_derived_property_value(c as u32, self)\n    }\n\n    fn get_value_from_codepoint(&self, cp: u32) -> DerivedPropertyValue {\n        get_derived_property_value(cp, self)\n    }\n}\n\n/// Concrete class representing PRECIS `FreeformClass`", "        get_derived_property_value(c as u32 & 0xffff, self)\n    }\n\n    fn get_value_from_codepoint(&self, cp: u32) -> DerivedPropertyValue {\n        get_derived_property_value(cp, self)\n    }\n}\n\n/// Concrete class representing PRECIS `FreeformClass`")], "IdentifierClass::get_value_from_char masks the code point")
case("c14-nfkd", "break", ["C14"], [(CORE + "common.rs", "cs != cs.nfkc().collect::<String>()", "cs != cs.nfkd().collect::<String>()")])
case("c14-unassigned-drops-nonchar", "break", ["C14"], [(CORE + "common.rs", "!is_in_table(cp, &NONCHARACTER_CODE_POINT) && is_in_table(cp, &UNASSIGNED)", "is_in_table(cp, &UNASSIGNED)")])
case("c14-keep-early-return", "keep", ["C14"], [(CORE + "common.rs", """pub fn is_old_hangul_jamo(cp: u32) -> bool {
    is_in_table(cp, &LEADING_JAMO)
        || is_in_table(cp, &VOWEL_JAMO)
        || is_in_table(cp, &TRAILING_JAMO)
}""", """pub fn is_old_hangul_jamo(cp: u32) -> bool {
    if is_in_table(cp, &LEADING_JAMO) {
        return true;
    }
    if is_in_table(cp, &TRAILING_JAMO) {
        return true;
    }
    is_in_table(cp, &VOWEL_JAMO)
}""")], "same disjunction, different shape and order")
