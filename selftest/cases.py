"""Break / keep corpus. Every break edit compiles and passes the repository's 51 tests (verified with
`selftest/run.py --verify-tests` when added, unless noted)."""

CASES = []


def case(id, kind, props, edits, note="", expect_key=()):
    CASES.append({"id": id, "kind": kind, "props": props, "edits": edits, "note": note, "expect_key": list(expect_key)})


TPL = "precis-tools/src/generators/codepoints.template"
CORE = "precis-core/src/"
PROF = "precis-profiles/src/"
TOOLS = "precis-tools/src/"

# ------------------------------------------------------------------ C18
case("c18-lt-start", "break", ["C18"], [(TPL, "Codepoints::Range(ref r) => r.end() < other,", "Codepoints::Range(ref r) => r.start() < other,")], "lt uses start")
case("c18-mirror-gt", "break", ["C18"], [(TPL, "Codepoints::Range(ref r) => self > r.end(),", "Codepoints::Range(ref r) => self > r.start(),")], "mirrored gt uses start")
case("c18-le-strict", "break", ["C18"], [(TPL, "Codepoints::Single(ref c) => c <= other,", "Codepoints::Single(ref c) => c < other,")])
case("c18-keep-match-order", "keep", ["C18"], [(TPL, """        if self.lt(other) {
            Some(Ordering::Less)
        } else if self.gt(other) {
            Some(Ordering::Greater)
        } else {
            Some(Ordering::Equal)
        }""", """        if self.gt(other) {
            return Some(Ordering::Greater);
        }
        Some(if self.lt(other) { Ordering::Less } else { Ordering::Equal })""")], "reordered tests, same function")

# ------------------------------------------------------------------ C13
case("c13-two-rounds", "break", ["C13"], [(CORE + "profile.rs", "for _i in 0..=3 {", "for _i in 0..=2 {")], "reverts the D5 repair", expect_key=["early-stop"])
case("c13-five-rounds", "break", ["C13"], [(CORE + "profile.rs", "for _i in 0..=3 {", "for _i in 0..=4 {")])
case("c13-return-tmp-unconfirmed", "break", ["C13"], [(CORE + "profile.rs", "        c = Cow::from(tmp.into_owned());\n    }\n\n", "        c = Cow::from(tmp.into_owned());\n        if _i == 3 {\n            return Ok(c);\n        }\n    }\n\n")], "returns the 4th result without confirming it is stable")
case("c13-swallow-error", "break", ["C13"], [(CORE + "profile.rs", "let tmp = f(&c)?;", "let tmp = f(&c).map_err(|_| Error::Invalid)?;")])
case("c13-keep-while", "keep", ["C13"], [(CORE + "profile.rs", "    for _i in 0..=3 {\n        let tmp = f(&c)?;", "    let mut _n = 0;\n    while _n < 4 {\n        _n += 1;\n        let tmp = f(&c)?;")], "for → while with a counter")

# ------------------------------------------------------------------ C15
case("c15-no-flush", "break", ["C15"], [(TOOLS + "generators/bidi_class.rs", "        if let (Some(r), Some(v)) = (range.as_ref(), val.as_ref()) {\n            add_range(r, v, &mut out);\n        }\n", "")], "reverts the D6 repair", expect_key=["bidi-run-semantics|finish"])
case("c15-no-final-gap", "break", ["C15"], [(TOOLS + "generators/ucd_generator.rs", "        if self.range.start.value() <= last.value() {", "        if self.range.start.value() > last.value() {")], "trailing gap suppressed (data level)")
case("c15-no-sort", "break", ["C15"], [(TOOLS + "common.rs", "    vec.sort();\n", "")], "merge of an unsorted HashSet iteration")
case("c15-virama-7", "break", ["C15", "C03"], [(TOOLS + "generators/ucd_generator.rs", "const CANONICAL_COMBINING_CLASS_VIRAMA: u8 = 9;", "const CANONICAL_COMBINING_CLASS_VIRAMA: u8 = 7;")])
case("c15-greek-coptic", "break", ["C15", "C03"], [("precis-core/build.rs", 'UcdTableGen::new("Greek", "Greek")', 'UcdTableGen::new("Coptic", "Greek")')])
case("c15-merge-off-by-one", "break", ["C15"], [(TOOLS + "common.rs", "if **cp - r.end.value() == 1 {", "if **cp - r.end.value() <= 2 {")], "merges across a one-code-point gap")

# ------------------------------------------------------------------ C14
case("c14-swap-tests", "break", ["C14"], [(CORE + "stringclasses.rs", """                } else if common::is_join_control(cp) {
                    DerivedPropertyValue::ContextJ
                } else if common::is_old_hangul_jamo(cp) {
                    DerivedPropertyValue::Disallowed""", """                } else if common::is_old_hangul_jamo(cp) {
                    DerivedPropertyValue::Disallowed
                } else if common::is_join_control(cp) {
                    DerivedPropertyValue::ContextJ""")], "two tests swapped: no test result changes for 6.3.0 data", expect_key=["decision-list"])
case("c14-symbol-without-so", "break", ["C14"], [(CORE + "common.rs", "        || is_in_table(cp, &MODIFIER_SYMBOL)\n        || is_in_table(cp, &OTHER_SYMBOL)", "        || is_in_table(cp, &MODIFIER_SYMBOL)")], expect_key=["L4"])
case("c14-freeform-spaces-pvalid", "break", ["C14"], [(CORE + "stringclasses.rs", """    fn on_spaces(&self) -> DerivedPropertyValue {
        DerivedPropertyValue::SpecClassPval""", """    fn on_spaces(&self) -> DerivedPropertyValue {
        DerivedPropertyValue::PValid""")])
case("c14-char-entry-masks", "break", ["C14"], [(CORE + "stringclasses.rs", "        get_derived_property_value(c as u32, self)\n    }\n\n    fn get_value_from_codepoint(&self, cp: u32) -> DerivedPropertyValue {\n        get_derived_property_value(cp, self)\n    }\n}\n\n/// Concrete class representing PRECIS `FreeformClass`", "        get_derived_property_value(c as u32 & 0xffff, self)\n    }\n\n    fn get_value_from_codepoint(&self, cp: u32) -> DerivedPropertyValue {\n        get_derived_property_value(cp, self)\n    }\n}\n\n/// Concrete class representing PRECIS `FreeformClass`")], "IdentifierClass::get_value_from_char masks the code point")
case("c14-nfkd", "break", ["C14"], [(CORE + "common.rs", "cs != cs.nfkc().collect::<String>()", "cs != cs.nfkd().collect::<String>()")])
case("c14-unassigned-drops-nonchar", "break", ["C14"], [(CORE + "common.rs", "!is_in_table(cp, &NONCHARACTER_CODE_POINT) && is_in_table(cp, &UNASSIGNED)", "is_in_table(cp, &UNASSIGNED)")])
case("c14-shortcut-above-max", "break", ["C14"], [(CORE + "stringclasses.rs", "        get_derived_property_value(cp, self)\n    }\n}\n\n/// Concrete class representing PRECIS `FreeformClass`", "        if cp > 0x10ffff {\n            return DerivedPropertyValue::Unassigned;\n        }\n        get_derived_property_value(cp, self)\n    }\n}\n\n/// Concrete class representing PRECIS `FreeformClass`")], "values above U+10FFFF answered Unassigned by a shortcut (the list gives Disallowed)", expect_key=["entry-point|shortcut"])
case("c14-shortcut-ascii-letters-digits", "keep", ["C14"], [(CORE + "stringclasses.rs", "        get_derived_property_value(cp, self)\n    }\n}\n\n/// Concrete class representing PRECIS `FreeformClass`", "        if (0x21..=0x7e).contains(&cp) {\n            return DerivedPropertyValue::PValid;\n        }\n        get_derived_property_value(cp, self)\n    }\n}\n\n/// Concrete class representing PRECIS `FreeformClass`")], "printable ASCII shortcut that agrees with the decision list")
case("c14-shortcut-ascii-space-pvalid", "break", ["C14"], [(CORE + "stringclasses.rs", "        get_derived_property_value(cp, self)\n    }\n}\n\n/// Concrete class representing PRECIS `FreeformClass`", "        if (0x20..=0x7e).contains(&cp) {\n            return DerivedPropertyValue::PValid;\n        }\n        get_derived_property_value(cp, self)\n    }\n}\n\n/// Concrete class representing PRECIS `FreeformClass`")], "the shortcut's range includes U+0020, which IdentifierClass disallows", expect_key=["entry-point|shortcut"])
case("c14-keep-early-return", "keep", ["C14"], [(CORE + "common.rs", """pub fn is_old_hangul_jamo(cp: u32) -> bool {
    is_in_table(cp, &LEADING_JAMO)
        || is_in_table(cp, &VOWEL_JAMO)
        || is_in_table(cp, &TRAILING_JAMO)
}""", """pub fn is_old_hangul_jamo(cp: u32) -> bool {
    if is_in_table(cp, &LEADING_JAMO) {
        return true;
    }
    if is_in_table(cp, &TRAILING_JAMO) {
        return true;
    }
    is_in_table(cp, &VOWEL_JAMO)
}""")], "same disjunction, different shape and order")

# ------------------------------------------------------------------ C04-C08 (profiles)
U = PROF + "usernames.rs"
MAPPED_ENFORCE = """        let s = self.prepare(s)?;
        let s = self.case_mapping_rule(s)?;
        let s = self.normalization_rule(s)?;
        let s = (!s.is_empty()).then_some(s).ok_or(Error::Invalid)?;
        self.directionality_rule(s)"""
PRESERVED_ENFORCE = """        let s = self.prepare(s)?;
        let s = self.normalization_rule(s)?;
        let s = (!s.is_empty()).then_some(s).ok_or(Error::Invalid)?;
        self.directionality_rule(s)"""
case("c04-nfc-before-case", "break", ["C04", "C08"], [(U, MAPPED_ENFORCE, MAPPED_ENFORCE.replace("        let s = self.case_mapping_rule(s)?;\n        let s = self.normalization_rule(s)?;", "        let s = self.normalization_rule(s)?;\n        let s = self.case_mapping_rule(s)?;"))])
case("c04-drop-second-empty", "break", ["C04"], [(U, MAPPED_ENFORCE, MAPPED_ENFORCE.replace("        let s = (!s.is_empty()).then_some(s).ok_or(Error::Invalid)?;\n", ""))])
case("c04-drop-dir", "break", ["C04"], [(U, MAPPED_ENFORCE, MAPPED_ENFORCE.replace("self.directionality_rule(s)", "Ok(s)"))])
case("c04-validate-after-case", "break", ["C04"], [(U, MAPPED_ENFORCE, """        let s = self.width_mapping_rule(s)?;
        let s = self.case_mapping_rule(s)?;
        let s = (!s.is_empty()).then_some(s).ok_or(Error::Invalid)?;
        self.0.allows(&s)?;
        let s = self.normalization_rule(s)?;
        let s = (!s.is_empty()).then_some(s).ok_or(Error::Invalid)?;
        self.directionality_rule(s)""")], "case mapping moved before validation")
case("c04-nfkc-for-nfc", "break", ["C04"], [(U, """        common::normalization_form_nfc(s)
    }

    fn directionality_rule<'a, T>(&self, s: T) -> Result<Cow<'a, str>, Error>
    where
        T: Into<Cow<'a, str>>,
    {
        directionality_rule(s)
    }
}

fn get_username_case_mapped_profile""", """        common::normalization_form_nfkc(s)
    }

    fn directionality_rule<'a, T>(&self, s: T) -> Result<Cow<'a, str>, Error>
    where
        T: Into<Cow<'a, str>>,
    {
        directionality_rule(s)
    }
}

fn get_username_case_mapped_profile""")])
case("c04-is-nfkc-guards-nfc", "break", ["C04", "C05"], [(PROF + "common.rs", "if unicode_normalization::is_nfc(&s) {", "if unicode_normalization::is_nfkc(&s) {")], "quick check of a different form guards the NFC normaliser (is_nfkc ⇒ is_nfc, so only slower — still flagged as non-sibling)")
case("c04-preserved-maps-case", "break", ["C04"], [(U, PRESERVED_ENFORCE, PRESERVED_ENFORCE.replace("        let s = self.normalization_rule(s)?;", "        let s = common::case_mapping_rule(s)?;\n        let s = self.normalization_rule(s)?;"))])
case("c04-width-after-validate", "break", ["C04", "C08"], [(U, MAPPED_ENFORCE, MAPPED_ENFORCE.replace("        let s = self.case_mapping_rule(s)?;", "        let s = self.width_mapping_rule(s)?;\n        let s = self.case_mapping_rule(s)?;"))], "a second width mapping after validation")
case("c04-keep-helper", "keep", ["C04", "C07", "C08"], [(U, "fn directionality_rule<'a, T>(s: T) -> Result<Cow<'a, str>, Error>\nwhere", "fn non_empty<'a>(s: Cow<'a, str>) -> Result<Cow<'a, str>, Error> {\n    if s.is_empty() {\n        return Err(Error::Invalid);\n    }\n    Ok(s)\n}\n\nfn directionality_rule<'a, T>(s: T) -> Result<Cow<'a, str>, Error>\nwhere"), (U, MAPPED_ENFORCE, MAPPED_ENFORCE.replace("        let s = (!s.is_empty()).then_some(s).ok_or(Error::Invalid)?;", "        let s = non_empty(s)?;"))], "non-empty check extracted into a helper with if/return")
case("c04-keep-match", "keep", ["C04", "C08"], [(U, PRESERVED_ENFORCE, """        let s = match self.prepare(s) {
            Ok(s) => s,
            Err(e) => return Err(e),
        };
        let s = self.normalization_rule(s)?;
        if s.is_empty() {
            return Err(Error::Invalid);
        }
        self.directionality_rule(s)""")], "? replaced by match / if")

PW = PROF + "passwords.rs"
OPAQUE_ENFORCE = """        let s = self.prepare(s)?;
        let s = self.additional_mapping_rule(s)?;
        let s = self.normalization_rule(s)?;
        (!s.is_empty()).then_some(s).ok_or(Error::Invalid)"""
case("c05-case-mapped", "break", ["C05"], [(PW, OPAQUE_ENFORCE, OPAQUE_ENFORCE.replace("        let s = self.normalization_rule(s)?;", "        let s = common::case_mapping_rule(s)?;\n        let s = self.normalization_rule(s)?;"))])
case("c05-map-before-validate", "break", ["C05"], [(PW, OPAQUE_ENFORCE, """        let s = self.additional_mapping_rule(s)?;
        let s = self.prepare(s)?;
        let s = self.normalization_rule(s)?;
        (!s.is_empty()).then_some(s).ok_or(Error::Invalid)""")])
case("c05-nfkc", "break", ["C05"], [(PW, "common::normalization_form_nfc(s)", "common::normalization_form_nfkc(s)")])
case("c05-no-final-empty", "break", ["C05"], [(PW, OPAQUE_ENFORCE, OPAQUE_ENFORCE.replace("        (!s.is_empty()).then_some(s).ok_or(Error::Invalid)", "        Ok(s)"))])
case("c05-prepare-skips-empty", "break", ["C05"], [(PW, """        let s = s.into();
        let s = (!s.is_empty()).then_some(s).ok_or(Error::Invalid)?;
        self.0.allows(&s)?;
        Ok(s)
    }

    fn enforce""", """        let s = s.into();
        self.0.allows(&s)?;
        Ok(s)
    }

    fn enforce""")])
case("c08-no-validation", "break", ["C08", "C05"], [(PW, OPAQUE_ENFORCE, """        let s = s.into();
        let s = (!s.is_empty()).then_some(s).ok_or(Error::Invalid)?;
        let s = self.additional_mapping_rule(s)?;
        let s = self.normalization_rule(s)?;
        (!s.is_empty()).then_some(s).ok_or(Error::Invalid)""")], "enforce no longer validates")

NK = PROF + "nicknames.rs"
case("c06-no-stabilize", "break", ["C06", "C08"], [(NK, "        stabilize(s, |s| self.apply_enforce_rules(s))", "        self.apply_enforce_rules(s)")])
case("c06-stabilize-only-mapping", "break", ["C06", "C08"], [(NK, "        stabilize(s, |s| self.apply_enforce_rules(s))", "        let s = self.apply_prepare_rules(s)?;\n        stabilize(s, |s| {\n            let s = self.additional_mapping_rule(s)?;\n            self.normalization_rule(s)\n        })")], "validation not repeated inside the loop")
case("c06-case-in-enforce", "break", ["C06"], [(NK, """        let s = self.additional_mapping_rule(s)?;
        let s = self.normalization_rule(s)?;
        (!s.is_empty()).then_some(s).ok_or(Error::Invalid)""", """        let s = self.additional_mapping_rule(s)?;
        let s = self.case_mapping_rule(s)?;
        let s = self.normalization_rule(s)?;
        (!s.is_empty()).then_some(s).ok_or(Error::Invalid)""")])
case("c06-nfc", "break", ["C06"], [(NK, "common::normalization_form_nfkc(s)", "common::normalization_form_nfc(s)")])
case("c06-keep-closure-fn", "keep", ["C06", "C07", "C08"], [(NK, "        stabilize(s, |s| self.apply_enforce_rules(s))", "        stabilize(s, move |x| {\n            let r = self.apply_enforce_rules(x);\n            r\n        })")], "move closure with a block body")

case("c07-eq-ignore-case", "break", ["C07"], [(PW, "Ok(self.enforce(s1.as_ref())? == self.enforce(s2.as_ref())?)", "Ok(self.enforce(s1.as_ref())?.eq_ignore_ascii_case(&self.enforce(s2.as_ref())?))")])
case("c07-compare-prepare", "break", ["C07"], [(PW, "Ok(self.enforce(s1.as_ref())? == self.enforce(s2.as_ref())?)", "Ok(self.prepare(s1.as_ref())? == self.prepare(s2.as_ref())?)")])
case("c07-second-first", "break", ["C07"], [(PW, "Ok(self.enforce(s1.as_ref())? == self.enforce(s2.as_ref())?)", "let b = self.enforce(s2.as_ref())?;\n        let a = self.enforce(s1.as_ref())?;\n        Ok(a == b)")], "second string evaluated first: its error wins")
case("c07-error-to-false", "break", ["C07"], [(PW, "Ok(self.enforce(s1.as_ref())? == self.enforce(s2.as_ref())?)", "let a = self.enforce(s1.as_ref())?;\n        let b = match self.enforce(s2.as_ref()) {\n            Ok(b) => b,\n            Err(_) => return Ok(false),\n        };\n        Ok(a == b)")])
case("c07-compare-inputs", "break", ["C07"], [(PW, "Ok(self.enforce(s1.as_ref())? == self.enforce(s2.as_ref())?)", "let _a = self.enforce(s1.as_ref())?;\n        let _b = self.enforce(s2.as_ref())?;\n        Ok(s1.as_ref() == s2.as_ref())")])
case("c07-fast-swap", "break", ["C07"], [(NK, "get_nickname_profile().compare(s1, s2)", "get_nickname_profile().compare(s2, s1)")], "only the error precedence changes")
case("c07-nick-no-case", "break", ["C07"], [(NK, """        let s = self.additional_mapping_rule(s)?;
        let s = self.case_mapping_rule(s)?;
        self.normalization_rule(s)""", """        let s = self.additional_mapping_rule(s)?;
        self.normalization_rule(s)""")])
case("c07-nick-second-uses-enforce-rules", "break", ["C07"], [(NK, "== stabilize(s2.as_ref(), |s| self.apply_compare_rules(s))?)", "== stabilize(s2.as_ref(), |s| self.apply_enforce_rules(s))?)")], "operands go through different rule sets")
case("c07-keep-let", "keep", ["C07"], [(PW, "Ok(self.enforce(s1.as_ref())? == self.enforce(s2.as_ref())?)", "let a = self.enforce(s1.as_ref())?;\n        let b = self.enforce(s2.as_ref())?;\n        Ok(a == b)")])

# ------------------------------------------------------------------ C16
case("c16-atomic-counter", "break", ["C16"], [(NK, "use std::borrow::Cow;", "use std::borrow::Cow;\nuse std::sync::atomic::{AtomicUsize, Ordering};\n\nstatic ROUNDS: AtomicUsize = AtomicUsize::new(0);"), (NK, "        stabilize(s, |s| self.apply_enforce_rules(s))", "        if ROUNDS.fetch_add(1, Ordering::Relaxed) > 1_000_000 {\n            return self.apply_enforce_rules(s);\n        }\n        stabilize(s, |s| self.apply_enforce_rules(s))")], "after a million calls enforcement stops iterating: history-dependent", expect_key=["effects", "no-hidden-state"])
case("c16-field-new-vs-default", "break", ["C16"], [(NK, "pub struct Nickname(FreeformClass);", "pub struct Nickname(FreeformClass, u8);"), (NK, "        Self(FreeformClass::default())", "        Self(FreeformClass::default(), 1)")], "new() and default() (the static form) build different values", expect_key=["single-valued"])
case("c16-fast-prepare-enforces", "break", ["C16"], [(NK, "        get_nickname_profile().prepare(s)", "        get_nickname_profile().enforce(s)")], "static form of prepare calls enforce (repository tests may notice)", expect_key=["fast-invocation"])
case("c16-thread-local-memo", "break", ["C16"], [(PROF + "common.rs", "pub const SPACE: char = '\\u{0020}';", "pub const SPACE: char = '\\u{0020}';\n\nthread_local! {\n    static LAST_WAS_UPPER: std::cell::Cell<bool> = const { std::cell::Cell::new(false) };\n}"), (PROF + "common.rs", "    match s.find(|c: char| c.to_lowercase().ne(std::iter::once(c))) {\n        None => Ok(s),", "    match s.find(|c: char| c.to_lowercase().ne(std::iter::once(c))) {\n        None if !LAST_WAS_UPPER.with(|c| c.replace(false)) => Ok(s),\n        None => Ok(s.to_lowercase().into()),")], "per-thread memo changes behaviour of the next call")
case("c16-clock", "break", ["C16"], [(PW, "        let s = self.prepare(s)?;\n        let s = self.additional_mapping_rule(s)?;", "        let s = self.prepare(s)?;\n        if std::time::SystemTime::now().duration_since(std::time::UNIX_EPOCH).map(|d| d.as_secs() % 86400 == 0).unwrap_or(false) {\n            return Ok(s);\n        }\n        let s = self.additional_mapping_rule(s)?;")], "clock-dependent result")
case("c16-refcell-profile", "break", ["C16"], [(PW, "pub struct OpaqueString(FreeformClass);", "pub struct OpaqueString(FreeformClass, std::marker::PhantomData<std::cell::Cell<u8>>);"), (PW, "        Self(FreeformClass::default())", "        Self(FreeformClass::default(), std::marker::PhantomData)")], "profile no longer Sync: the lazy static form would not even build — and the type rule names it")
_ONCELOCK_NK = [(NK, "    lazy_static! {\n        static ref NICKNAME: Nickname = Nickname::default();\n    }\n    &NICKNAME\n", "    static NICKNAME: std::sync::OnceLock<Nickname> = std::sync::OnceLock::new();\n    NICKNAME.get_or_init(Nickname::default)\n"), (NK, "use lazy_static::lazy_static;\n", "")]
case("c16-keep-oncelock-singleton", "keep", ["C16", "C06", "C07", "C01"], _ONCELOCK_NK, "the lazy_static singleton written with std's OnceLock: same value, same once-only initialisation")
case("c16-keep-lazylock-singleton", "keep", ["C16", "C06", "C07", "C01"], [(NK, "    lazy_static! {\n        static ref NICKNAME: Nickname = Nickname::default();\n    }\n    &NICKNAME\n", "    static NICKNAME: std::sync::LazyLock<Nickname> = std::sync::LazyLock::new(Nickname::default);\n    &NICKNAME\n"), (NK, "use lazy_static::lazy_static;\n", "")], "the same with std's LazyLock")
case("c16-oncelock-remembers-first-call", "break", ["C16"], [(NK, "    let s = s.into();\n    match find_disallowed_space(&s) {", "    let s = s.into();\n    static FIRST_LEN: std::sync::OnceLock<usize> = std::sync::OnceLock::new();\n    if *FIRST_LEN.get_or_init(|| s.len()) > 64 {\n        return Ok(s);\n    }\n    match find_disallowed_space(&s) {")], "a OnceLock that is not a profile singleton: the first call's input length decides whether later calls trim")
case("c16-keep-const-table", "keep", ["C16"], [(PROF + "common.rs", "pub const SPACE: char = '\\u{0020}';", "pub const SPACE: char = '\\u{0020}';\n\n#[allow(dead_code)]\nstatic ASCII_SPACES: [char; 2] = [' ', '\\t'];")], "an immutable Freeze static is not hidden state")

# ------------------------------------------------------------------ C01
CTX = CORE + "context.rs"
case("c01-revert-d1", "break", ["C01"], [(NK, "for (index, c) in label.char_indices() {", "for (index, c) in label.chars().enumerate() {")], "reverts the D1 repair", expect_key=["slice-bound"])
case("c01-unwrap-from-u32", "break", ["C01"], [(U, "char::from_u32(d).ok_or(Error::Unexpected(UnexpectedError::Undefined))?", "char::from_u32(d).unwrap()")], expect_key=["panic"])
case("c01-before-unguarded", "break", ["C01"], [(CTX, "    if offset == 0 {\n        None\n    } else {\n        s.chars().nth(offset - 1)\n    }", "    s.chars().nth(offset - 1)")], "before(s, 0) underflows (debug) — tests call before(\"\", 0): may fail the suite", expect_key=["unproved-assert"])
case("c01-after-before-check", "break", ["C01"], [(CTX, """    if 0x0375 != s.chars().nth(offset).ok_or(ContextRuleError::Undefined)? as u32 {
        return Err(ContextRuleError::NotApplicable);
    }
    let after = after(s, offset).ok_or(ContextRuleError::Undefined)?;""", """    let after = after(s, offset).ok_or(ContextRuleError::Undefined)?;
    if 0x0375 != s.chars().nth(offset).ok_or(ContextRuleError::Undefined)? as u32 {
        return Err(ContextRuleError::NotApplicable);
    }""")], "offset + 1 evaluated before offset is known to be inside the label: rule(s, usize::MAX) overflows", expect_key=["unproved-assert"])
case("c01-slice-plus-one", "break", ["C01"], [(PROF + "common.rs", "            let mut res = String::from(&s[..pos]);\n            res.reserve(s.len() - res.len());\n            for c in s[pos..].chars() {\n                if c.is_lowercase() {", "            let mut res = String::from(&s[..pos + 1]);\n            res.reserve(s.len() - res.len());\n            for c in s[pos + 1..].chars() {\n                if c.is_lowercase() {")], "prefix cut one byte after the first uppercase char: inside it when it is multi-byte", expect_key=["slice-bound"])
case("c01-partial-cmp-none", "break", ["C01", "C18"], [(TPL, """    fn partial_cmp(&self, other: &u32) -> Option<Ordering> {
        if self.lt(other) {""", """    fn partial_cmp(&self, other: &u32) -> Option<Ordering> {
        if let Codepoints::Range(r) = self {
            if r.start() == r.end() && r.start() == other {
                return None;
            }
        }
        if self.lt(other) {""")], "None for a one-element range hit exactly: every lookup unwraps it (needs a table row Range(x, x) to manifest)", expect_key=["panic"])
case("c01-loop-no-step", "break", ["C01"], [(CTX, "        prev = before(s, i).ok_or(ContextRuleError::Undefined)?;\n        cp = prev as u32;\n        i -= 1;", "        prev = before(s, i).ok_or(ContextRuleError::Undefined)?;\n        cp = prev as u32;")], "backward scan never advances: loops forever on a transparent character", expect_key=["termination"])
case("c01-index-bytes", "break", ["C01"], [(PROF + "bidi.rs", "pub fn has_rtl(label: &str) -> bool {\n    label", "pub fn has_rtl(label: &str) -> bool {\n    if label.as_bytes()[0] == b'-' {\n        return false;\n    }\n    label")], "indexing byte 0 of a possibly empty label (enforce rejects empty strings first, the rule itself does not)")
case("c01-keep-match-before", "keep", ["C01"], [(CTX, "    if offset == 0 {\n        None\n    } else {\n        s.chars().nth(offset - 1)\n    }", "    match offset {\n        0 => None,\n        n => s.chars().nth(n - 1),\n    }")])
case("c01-keep-checked-sub", "keep", ["C01"], [(CTX, "    if offset == 0 {\n        None\n    } else {\n        s.chars().nth(offset - 1)\n    }", "    let i = offset.checked_sub(1)?;\n    s.chars().nth(i)")])
case("c01-keep-skip-nth", "keep", ["C01"], [(CTX, "fn after(s: &str, offset: usize) -> Option<char> {\n    s.chars().nth(offset + 1)", "fn after(s: &str, offset: usize) -> Option<char> {\n    s.chars().skip(offset).nth(1)")], "no arithmetic at all")

# ------------------------------------------------------------------ C09
BD = PROF + "bidi.rs"
case("c09-ws-in-rtl", "break", ["C09"], [(BD, "            | BidiClass::ON\n            | BidiClass::BN => {}\n            BidiClass::AN => {", "            | BidiClass::ON\n            | BidiClass::WS\n            | BidiClass::BN => {}\n            BidiClass::AN => {")], "white space accepted inside RTL labels", expect_key=["outside-K"])
case("c09-no-en-an-mix-check", "break", ["C09"], [(BD, "                if en {\n                    // rule 4.\n                    // if an `EN` is present, no `AN` may be present\n                    return false;\n                }\n", "")], "AN after EN accepted (EN after AN still rejected)", expect_key=["outside-K"])
case("c09-has-rtl-without-an", "break", ["C09"], [(BD, "matches!(bidi_class(c), BidiClass::R | BidiClass::AL | BidiClass::AN)", "matches!(bidi_class(c), BidiClass::R | BidiClass::AL)")], "an LTR label containing only AN digits skips the rule", expect_key=["has-rtl"])
case("c09-es-ends-rtl", "break", ["C09"], [(BD, "    nsm || matches!(\n        prev,\n        BidiClass::R | BidiClass::AL | BidiClass::EN | BidiClass::AN\n    )", "    nsm || matches!(\n        prev,\n        BidiClass::R | BidiClass::AL | BidiClass::EN | BidiClass::AN | BidiClass::ES\n    )")], expect_key=["outside-K"])
case("c09-default-r", "break", ["C09"], [(BD, "        Err(_) => BidiClass::L,", "        Err(_) => BidiClass::R,")], "unlisted code points treated as R", expect_key=["lookup"])
case("c09-first-an", "break", ["C09"], [(BD, "        if matches!(first, BidiClass::R | BidiClass::AL) {", "        if matches!(first, BidiClass::R | BidiClass::AL | BidiClass::AN) {")], "a label may start with an Arabic-Indic digit", expect_key=["outside-K"])
case("c09-wrapper-modifies", "break", ["C09"], [(U, "        bidi::satisfy_bidi_rule(&s)\n            .then_some(s)\n            .ok_or(Error::Invalid)", "        bidi::satisfy_bidi_rule(&s)\n            .then_some(s)\n            .ok_or(Error::Unexpected(UnexpectedError::Undefined))")], "wrong error for a bidi violation", expect_key=["wrapper"])
case("c09-keep-if-chain", "keep", ["C09"], [(BD, """        if matches!(first, BidiClass::R | BidiClass::AL) {
            // this is a `RTL` label
            is_valid_rtl_label(it, first)
        } else if first == BidiClass::L {
            // this is a `LTR` label
            is_valid_ltr_label(it, first)
        } else {
            // char no in [`L`, `R` or `AL`]
            false
        }""", """        match first {
            BidiClass::L => is_valid_ltr_label(it, first),
            BidiClass::R | BidiClass::AL => is_valid_rtl_label(it, first),
            _ => false,
        }""")], "dispatch written as a match")
case("c09-keep-ltr-flag-order", "keep", ["C09"], [(BD, """                if !matches!(prev, BidiClass::L | BidiClass::EN) {
                    // char not in L or EN
                    return false;
                }
                nsm = true;""", """                nsm = true;
                if prev != BidiClass::L && prev != BidiClass::EN {
                    return false;
                }""")], "flag set before the test; same language")

# ------------------------------------------------------------------ C12
case("c12-revert-d2", "break", ["C12"], [(NK, "            let mut begin = res.is_empty();\n            let mut prev_space = res.ends_with(common::SPACE);", "            let mut begin = true;\n            let mut prev_space = false;")], "reverts the D2 repair", expect_key=["nickname-rule|word"])
case("c12-emit-z", "break", ["C12"], [(NK, "                if !prev_space {\n                    res.push(common::SPACE);\n                }", "                if !prev_space {\n                    res.push(c);\n                }")], "interior non-ASCII space copied instead of mapped to U+0020", expect_key=["nickname-rule|word"])
case("c12-reset-prev-on-s", "break", ["C12"], [(NK, "                if !prev_space {\n                    res.push(common::SPACE);\n                }\n\n                prev_space = true;", "                if !prev_space {\n                    res.push(common::SPACE);\n                }\n\n                prev_space = c != common::SPACE;")], "a run S S is not collapsed after the first problem", expect_key=["nickname-rule|word"])
case("c12-scan-misses-double", "break", ["C12"], [(NK, "        if prev_space {\n            // More than one separator\n            return Some(index);\n        }\n", "")], "scan no longer reports two ASCII spaces in a row", expect_key=["nickname-rule|word"])
case("c12-password-maps-all-zs", "break", ["C12"], [(PW, "        match s.find(common::is_non_ascii_space) {", "        match s.find(|c: char| c == '\\u{a0}' || c == '\\u{3000}') {")], "fast path looks only for two of the non-ASCII spaces: a string whose only one is U+2003 is returned unchanged", expect_key=["password-rule|trigger"])
case("c12-password-drops", "break", ["C12"], [(PW, "                    if common::is_non_ascii_space(c) {\n                        res.push(common::SPACE);\n                    } else {", "                    if common::is_non_ascii_space(c) {\n                        continue;\n                    } else {")], "non-ASCII spaces deleted instead of mapped", expect_key=["password-rule|map"])
case("c12-ideographic-not-space", "break", ["C12", "C15"], [("precis-profiles/build.rs", 'UcdTableGen::new("Zs", "space_separator")', 'UcdTableGen::new("Zl", "space_separator")')], "table no longer Zs", expect_key=["L5"])
case("c12-keep-while-let", "keep", ["C12", "C01"], [(NK, "            for c in s[pos..].chars() {\n                if !common::is_space_separator(c) {\n                    res.push(c);", "            let mut it = s[pos..].chars();\n            while let Some(c) = it.next() {\n                if !common::is_space_separator(c) {\n                    res.push(c);")], "for → while let")
case("c12-keep-pop-ends-with", "keep", ["C12"], [(NK, "            if let Some(c) = res.pop() {\n                if c != common::SPACE {\n                    res.push(c);\n                }\n            }", "            if res.ends_with(common::SPACE) {\n                res.pop();\n            }")], "trailing space removed with ends_with + pop")

# ------------------------------------------------------------------ C10
CM = PROF + "common.rs"
case("c10-revert-d4", "break", ["C10"], [(CM, "    match s.find(|c: char| c.to_lowercase().ne(std::iter::once(c))) {", "    match s.find(char::is_uppercase) {")], "reverts the D4 repair", expect_key=["trigger-misses"])
case("c10-ascii-trigger", "break", ["C10"], [(CM, "    match s.find(|c: char| c.to_lowercase().ne(std::iter::once(c))) {", "    match s.find(|c: char| c.is_ascii_uppercase()) {")], "non-ASCII capitals before the first ASCII capital are kept")
case("c10-first-char-only", "break", ["C10"], [(CM, "                    c.to_lowercase().for_each(|x| res.push(x));", "                    if let Some(x) = c.to_lowercase().next() {\n                        res.push(x);\n                    }")], "only the first character of a multi-character lowercase mapping is kept (U+0130)", expect_key=["discipline|map"])
case("c10-until-next-lower", "break", ["C10"], [(CM, "                if c.is_lowercase() {\n                    res.push(c);\n                } else {", "                if c.is_lowercase() {\n                    res.push(c);\n                    done = true;\n                } else if done {\n                    res.push(c);\n                } else {"), (CM, "            for c in s[pos..].chars() {\n                if c.is_lowercase() {", "            let mut done = false;\n            for c in s[pos..].chars() {\n                if c.is_lowercase() {")], "mapping stops at the first lowercase character", expect_key=["stateless"])
# private helpers are located by role (pv/roles.py): a rename alone is silent, a rename together with a slip is
# reported, and a role that two functions could fill is not guessed
_RENAME_CM = [(CM, "pub fn case_mapping_rule<'a, T>(s: T)", "pub fn lowercase_rule<'a, T>(s: T)")] + [(CM, "let res = case_mapping_rule(", "let res = lowercase_rule(")] * 5 + [(PROF + "nicknames.rs", "        common::case_mapping_rule(s)", "        common::lowercase_rule(s)"), (PROF + "usernames.rs", "        common::case_mapping_rule(s)", "        common::lowercase_rule(s)")]
case("c10-keep-renamed-helper", "keep", ["C10", "C04", "C07", "C08"], _RENAME_CM, "common::case_mapping_rule renamed; same function")
case("c10-renamed-helper-ascii-trigger", "break", ["C10", "C07"], _RENAME_CM + [(CM, "    match s.find(|c: char| c.to_lowercase().ne(std::iter::once(c))) {", "    match s.find(|c: char| c.is_ascii_uppercase()) {")], "the helper is renamed and its trigger only sees ASCII capitals")
case("c10-renamed-helper-nickname-unbound", "break", ["C10"], _RENAME_CM[:-2] + [(PROF + "usernames.rs", "        common::case_mapping_rule(s)", "        common::lowercase_rule(s)"), (PROF + "nicknames.rs", "        common::case_mapping_rule(s)", "        Ok(s.into())")], "the helper is renamed and Nickname no longer applies it")
case("c10-keep-flat-map", "keep", ["C10"], [(CM, "                if c.is_lowercase() {\n                    res.push(c);\n                } else {\n                    c.to_lowercase().for_each(|x| res.push(x));\n                }", "                c.to_lowercase().for_each(|x| res.push(x));")], "no is_lowercase shortcut: same function")

# ------------------------------------------------------------------ C11
case("c11-compat-too", "break", ["C11", "C15"], [(TOOLS + "generators/ucd_generator.rs", "                || *tag == UnicodeDataDecompositionTag::Narrow", "                || *tag == UnicodeDataDecompositionTag::Narrow\n                || *tag == UnicodeDataDecompositionTag::Super")], "superscripts mapped as well", expect_key=["L5"])
case("c11-trigger-range", "break", ["C11"], [(U, "    match s.find(has_width_mapping) {", "    match s.find(|c: char| c >= '\\u{ff00}') {")], "halfwidth/fullwidth forms below U+FF00 (U+3000) never trigger")
case("c11-map-first-only", "break", ["C11"], [(U, "            for c in s[pos..].chars() {\n                res.push(match get_decomposition_mapping(c as u32) {", "            let mut first = true;\n            for c in s[pos..].chars() {\n                if !first {\n                    res.push(c);\n                    continue;\n                }\n                first = false;\n                res.push(match get_decomposition_mapping(c as u32) {")], "only the first wide character is mapped", expect_key=["stateless"])
case("c11-prefix-off-by-one", "break", ["C11", "C01"], [(U, "            let mut res = String::from(&s[..pos]);\n            res.reserve(s.len() - res.len());\n            for c in s[pos..].chars() {\n                res.push(match get_decomposition_mapping", "            let mut res = String::from(&s[..pos]);\n            res.reserve(s.len() - res.len());\n            for c in s[pos + 1..].chars() {\n                res.push(match get_decomposition_mapping")], "the first wide character is skipped (and the slice can split a character)")
case("c11-wrong-row", "break", ["C11"], [(U, "        .map(|x| WIDE_NARROW_MAPPING[x].1)", "        .map(|x| WIDE_NARROW_MAPPING[x].1 + 0)\n        .map(|m| if m == 0x20 { 0x3000 } else { m })")], "U+3000 no longer mapped to U+0020")
case("c11-keep-match-lookup", "keep", ["C11", "C01"], [(U, "    WIDE_NARROW_MAPPING\n        .binary_search_by(|cps| cps.0.partial_cmp(&cp).unwrap())\n        .map(|x| WIDE_NARROW_MAPPING[x].1)\n        .ok()", "    match WIDE_NARROW_MAPPING.binary_search_by(|cps| cps.0.partial_cmp(&cp).unwrap()) {\n        Ok(x) => Some(WIDE_NARROW_MAPPING[x].1),\n        Err(_) => None,\n    }")], "map/ok → match")

# ------------------------------------------------------------------ C02
SCF = CORE + "stringclasses.rs"
case("c02-byte-positions", "break", ["C02"], [(SCF, "for (offset, c) in label.as_ref().chars().enumerate() {", "for (offset, c) in label.as_ref().char_indices() {")], "positions reported (and handed to the rules) in bytes", expect_key=["allows-table"])
case("c02-position-plus-one", "break", ["C02"], [(SCF, "                | DerivedPropertyValue::Unassigned => Err(Error::BadCodepoint(CodepointInfo::new(\n                    c as u32, offset, val,\n                ))),", "                | DerivedPropertyValue::Unassigned => Err(Error::BadCodepoint(CodepointInfo::new(\n                    c as u32,\n                    offset + 1,\n                    val,\n                ))),")], "one-based position", expect_key=["allows-table"])
case("c02-specclassdis-valid", "break", ["C02"], [(SCF, "                DerivedPropertyValue::PValid | DerivedPropertyValue::SpecClassPval => Ok(()),\n                DerivedPropertyValue::SpecClassDis\n                | DerivedPropertyValue::Disallowed", "                DerivedPropertyValue::PValid\n                | DerivedPropertyValue::SpecClassPval\n                | DerivedPropertyValue::SpecClassDis => Ok(()),\n                DerivedPropertyValue::Disallowed")], expect_key=["allows-table|SpecClassDis"])
case("c02-undefined-as-bad", "break", ["C02"], [(SCF, "                context::ContextRuleError::Undefined => {\n                    Err(Error::Unexpected(UnexpectedError::Undefined))\n                }", "                context::ContextRuleError::Undefined => {\n                    Err(Error::BadCodepoint(CodepointInfo::new(cp, offset, val)))\n                }")], expect_key=["Undefined"])
case("c02-rule-gets-prev-index", "break", ["C02"], [(SCF, "        Some(rule) => match rule(label, offset) {", "        Some(rule) => match rule(label, offset.saturating_sub(1)) {")], "rule evaluated at the previous position", expect_key=["allows-table"])
case("c02-last-error-wins", "break", ["C02"], [(SCF, """                DerivedPropertyValue::ContextJ | DerivedPropertyValue::ContextO => {
                    allowed_by_context_rule(label.as_ref(), val, c as u32, offset)
                }
            }?
        }

        Ok(())""", """                DerivedPropertyValue::ContextJ | DerivedPropertyValue::ContextO => {
                    allowed_by_context_rule(label.as_ref(), val, c as u32, offset)
                }
            } {
                last = Err(e);
            }
        }

        last"""), (SCF, "        for (offset, c) in label.as_ref().chars().enumerate() {\n            let val = self.get_value_from_char(c);\n\n            match val {", "        let mut last = Ok(());\n        for (offset, c) in label.as_ref().chars().enumerate() {\n            let val = self.get_value_from_char(c);\n\n            if let Err(e) = match val {")], "all characters are checked and the last offender is reported", expect_key=["allows-table"])
case("c02-registry-arm-deleted", "break", ["C02", "C03"], [(CTX, "        0x0375 => Some(rule_greek_lower_numeral_sign_keraia),\n", "")], expect_key=["registry|missing"])
case("c02-registry-typo", "break", ["C02", "C03"], [(CTX, "        0x05f3 | 0x5f4 => Some(rule_hebrew_punctuation),", "        0x05f3 | 0x5f5 => Some(rule_hebrew_punctuation),")], expect_key=["registry"])
case("c02-registry-wrong-rule", "break", ["C02", "C03"], [(CTX, "        0x200c => Some(rule_zero_width_nonjoiner),\n        0x200d => Some(rule_zero_width_joiner),", "        0x200c => Some(rule_zero_width_joiner),\n        0x200d => Some(rule_zero_width_nonjoiner),")], "each joiner is sent to the other's rule, which answers NotApplicable", expect_key=["registry|not-applicable"])
case("c02-keep-match-bool", "keep", ["C02"], [(SCF, """            Ok(allowed) => {
                if allowed {
                    Ok(())
                } else {
                    Err(Error::BadCodepoint(CodepointInfo::new(cp, offset, val)))
                }
            }""", """            Ok(true) => Ok(()),
            Ok(false) => Err(Error::BadCodepoint(CodepointInfo::new(cp, offset, val))),""")], "bool matched by pattern")

# ------------------------------------------------------------------ C03
case("c03-left-right-swapped", "break", ["C03"], [(CTX, "    if !(common::is_left_joining(cp) || common::is_dual_joining(cp)) {", "    if !(common::is_right_joining(cp) || common::is_dual_joining(cp)) {")], "left context tested for right-joining", expect_key=["rule-logic"])
case("c03-no-dual-after", "break", ["C03"], [(CTX, "    Ok(common::is_right_joining(cp) || common::is_dual_joining(cp))", "    Ok(common::is_right_joining(cp))")], "a dual-joining character after ZWNJ is refused", expect_key=["rule-logic"])
case("c03-zwj-constant", "break", ["C03", "C02"], [(CTX, "    if 0x200d != s.chars().nth(offset).ok_or(ContextRuleError::Undefined)? as u32 {", "    if 0x200c != s.chars().nth(offset).ok_or(ContextRuleError::Undefined)? as u32 {")], expect_key=["own-set"])
case("c03-hebrew-after", "break", ["C03"], [(CTX, "    let prev = before(s, offset).ok_or(ContextRuleError::Undefined)?;\n    Ok(common::is_hebrew(prev as u32))", "    let prev = after(s, offset).ok_or(ContextRuleError::Undefined)?;\n    Ok(common::is_hebrew(prev as u32))")], "script of the following character tested", expect_key=["rule-logic"])
case("c03-digit-range-short", "break", ["C03"], [(CTX, "    let range = 0x06f0..=0x06f9;", "    let range = 0x06f0..=0x06f8;")], "U+06F9 does not count as an extended digit", expect_key=["rule-logic"])
case("c03-scan-skips-two", "break", ["C03", "C01"], [(CTX, "        next = after(s, i).ok_or(ContextRuleError::Undefined)?;\n        cp = next as u32;\n        i += 1;", "        next = after(s, i).ok_or(ContextRuleError::Undefined)?;\n        cp = next as u32;\n        i += 2;")], "forward scan looks at every other character")
case("c03-virama-after-scan", "break", ["C03"], [(CTX, "    if common::is_virama(cp) {\n        return Ok(true);\n    }\n\n    // `RegExpMatch`", "    if common::is_virama(cp) && !common::is_transparent(cp) {\n        return Ok(true);\n    }\n\n    // `RegExpMatch`")], "a virama that is also transparent (most are Mn = T) no longer permits ZWNJ directly", expect_key=["rule-logic"])
case("c03-middle-dot-or", "break", ["C03"], [(CTX, "    Ok(prev as u32 == 0x006c && next as u32 == 0x006c)", "    Ok(prev as u32 == 0x006c || next as u32 == 0x006c)")], expect_key=["rule-logic"])
case("c03-katakana-first-only", "break", ["C03"], [(CTX, "    for c in s.chars() {\n        let cp = c as u32;\n        if common::is_hiragana(cp) || common::is_katakana(cp) || common::is_han(cp) {\n            return Ok(true);\n        }\n    }\n\n    Ok(false)", "    for c in s.chars() {\n        let cp = c as u32;\n        return Ok(common::is_hiragana(cp) || common::is_katakana(cp) || common::is_han(cp));\n    }\n\n    Ok(false)")], "only the first character of the label is looked at", expect_key=["rule-logic"])
case("c03-undefined-as-false", "break", ["C03"], [(CTX, "    let after = after(s, offset).ok_or(ContextRuleError::Undefined)?;\n    Ok(common::is_greek(after as u32))", "    let after = match after(s, offset) {\n        Some(c) => c,\n        None => return Ok(false),\n    };\n    Ok(common::is_greek(after as u32))")], "keraia at the end of the label answers false instead of Undefined", expect_key=["rule-logic"])
case("c03-keep-while-to-loop", "keep", ["C03", "C01"], [(CTX, "    let mut i = offset - 1;\n    while common::is_transparent(cp) {\n        prev = before(s, i).ok_or(ContextRuleError::Undefined)?;\n        cp = prev as u32;\n        i -= 1;\n    }", "    let mut i = offset - 1;\n    loop {\n        if !common::is_transparent(cp) {\n            break;\n        }\n        prev = match before(s, i) {\n            Some(c) => c,\n            None => return Err(ContextRuleError::Undefined),\n        };\n        cp = prev as u32;\n        i -= 1;\n    }")], "while → loop/break, ? → match")
case("c03-keep-dual-first", "keep", ["C03"], [(CTX, "    if !(common::is_left_joining(cp) || common::is_dual_joining(cp)) {", "    if !common::is_dual_joining(cp) && !common::is_left_joining(cp) {")], "De Morgan, other order")

# ------------------------------------------------------------------ C17
CSVF = TOOLS + "csv_parser.rs"
case("c17-name-swapped", "break", ["C17"], [(CSVF, '        } else if word.eq("FREE_PVAL") {\n            Ok(DerivedProperty::FreePVal)', '        } else if word.eq("FREE_PVAL") {\n            Ok(DerivedProperty::IdDis)')], "FREE_PVAL read as ID_DIS (the registry test only compares pairs as sets?)", expect_key=["name-table"])
case("c17-desc-trimmed", "break", ["C17"], [(CSVF, "            description: desc.to_string(),", "            description: desc.trim().to_string(),")], "description no longer verbatim", expect_key=["field-wiring"])
case("c17-split-all-commas", "break", ["C17"], [(CSVF, "    let v: Vec<&str> = line.splitn(3, ',').collect();\n    if v.len() != 3 {", "    let v: Vec<&str> = line.split(',').collect();\n    if v.len() < 3 {")], "a description containing a comma is cut at it", expect_key=["field-wiring"])
case("c17-pair-reversed", "break", ["C17"], [(CSVF, "    Ok((p1, p2))", "    Ok((p2, p1))")], "pair delivered in reverse textual order", expect_key=["selector"])
case("c17-range-reversed", "break", ["C17"], [(CSVF, "    Ok(CodepointRange { start, end })", "    Ok(CodepointRange {\n        start: end,\n        end: start,\n    })")], expect_key=["selector"])
case("c17-line-number-off", "break", ["C17"], [(CSVF, "        let line_number = self.line_number;", "        let line_number = self.line_number - 1;")], "errors report the previous line", expect_key=["line-numbers"])
case("c17-header-not-skipped", "break", ["C17"], [(CSVF, "            if self.line_number > 1 {", "            if self.line_number > 0 {")], "header line delivered as a row (an error item)", expect_key=["line-numbers"])
case("c17-group-typo", "break", ["C17"], [(CSVF, 'let end = caps["end"].parse()?;', 'let end = caps["stop"].parse()?;')], "indexing a capture group the regex does not define: panics on every range row (the registry test would catch it; the rule names it)", expect_key=["regex-groups"])
case("c17-index-before-len", "break", ["C17"], [(CSVF, "    if v.len() != 3 {", "    if v.len() > 3 {")], "rows with fewer than three fields reach v[1]/v[2]: panic instead of an error", expect_key=["field-wiring"])
case("c17-keep-match-names", "keep", ["C17"], [(CSVF, """        if word.eq("PVALID") {
            Ok(DerivedProperty::PValid)
        } else if word.eq("FREE_PVAL") {
            Ok(DerivedProperty::FreePVal)
        } else if""", """        if word == "FREE_PVAL" {
            Ok(DerivedProperty::FreePVal)
        } else if word.eq("PVALID") {
            Ok(DerivedProperty::PValid)
        } else if""")], "two comparisons reordered, == instead of eq")

# ------------------------------------------------------------------ round-3 additions: exactness of lookups, representation, accumulators
_TC = TOOLS + "common.rs"
case("c12-space-fastpath-row", "break", ["C12"], [(CM, "    let cp = c as u32;\n    SPACE_SEPARATOR", "    let cp = c as u32;\n    if cp < 0x80 {\n        return c == SPACE;\n    }\n    if cp >> 4 == 0x200 {\n        return true;\n    }\n    SPACE_SEPARATOR")], "fast path covers the whole row U+2000..U+200F (U+200B..U+200F are not Zs)", expect_key=["L4|is_space_separator"])
case("c12-keep-space-fastpath", "keep", ["C12"], [(CM, "    let cp = c as u32;\n    SPACE_SEPARATOR", "    let cp = c as u32;\n    if cp < 0x80 {\n        return c == SPACE;\n    }\n    if cp >> 4 == 0x200 && cp <= 0x200a {\n        return true;\n    }\n    SPACE_SEPARATOR")], "a fast path that repeats the table exactly")
case("c09-lookup-ascii-fastpath", "break", ["C09"], [(BD, "fn bidi_class_cp(cp: u32) -> BidiClass {\n", "fn bidi_class_cp(cp: u32) -> BidiClass {\n    if cp < 0x80 {\n        return BidiClass::L;\n    }\n")], "ASCII is not all L (digits EN, controls BN, punctuation ON/ES/CS/ET)", expect_key=["lookup|default"])
case("c09-keep-lookup-letters-fastpath", "keep", ["C09"], [(BD, "fn bidi_class_cp(cp: u32) -> BidiClass {\n", "fn bidi_class_cp(cp: u32) -> BidiClass {\n    if (0x41..=0x5a).contains(&cp) || (0x61..=0x7a).contains(&cp) {\n        return BidiClass::L;\n    }\n")], "ASCII letters are L: the shortcut agrees with the table")
case("c16-keep-cow-match", "keep", ["C16", "C05", "C04"], [(CM, """    let s = s.into();
    if unicode_normalization::is_nfc(&s) {
        Ok(s)
    } else {
        Ok(s.nfc().collect::<String>().into())
    }""", """    match s.into() {
        Cow::Borrowed(b) => {
            if unicode_normalization::is_nfc(b) {
                Ok(Cow::Borrowed(b))
            } else {
                Ok(Cow::Owned(b.nfc().collect::<String>()))
            }
        }
        Cow::Owned(o) => {
            if unicode_normalization::is_nfc(&o) {
                Ok(Cow::Owned(o))
            } else {
                Ok(Cow::Owned(o.nfc().collect::<String>()))
            }
        }
    }""")], "matching on the Cow variant with the same content in both arms")
case("c15-merge-across-gap", "break", ["C15"], [(_TC, "if **cp - r.end.value() == 1 {", "if **cp - r.end.value() <= 2 {")], "a run is extended across a one-code-point hole", expect_key=["merge-semantics|step"])
case("c15-merge-no-final-flush", "break", ["C15"], [(_TC, "    add_range(&range, &mut out);\n\n    out", "    out")], "the last run is never emitted", expect_key=["merge-semantics|finish"])
case("c15-merge-new-run-off-by-one", "break", ["C15"], [(_TC, """                    range = Some(CodepointRange {
                        start: Codepoint::from_u32(**cp).unwrap(),
                        end: Codepoint::from_u32(**cp).unwrap(),
                    });
                }
            }
            None""", """                    range = Some(CodepointRange {
                        start: Codepoint::from_u32(**cp + 1).unwrap(),
                        end: Codepoint::from_u32(**cp).unwrap(),
                    });
                }
            }
            None""")], "a run started after a gap begins one code point late", expect_key=["merge-semantics"])
case("c15-gap-first-entry", "break", ["C15"], [(TOOLS + "generators/ucd_generator.rs", "                if cp.value() - self.range.end.value() != 0 {", "                if cp.value() - self.range.end.value() > 1 {")], "a one-code-point gap before a single entry is not emitted (pinned inputs have none at U+0000)", expect_key=["gap-semantics|step"])
case("c17-keep-strip-terminator", "keep", ["C17"], [(CSVF, "            if self.line_number > 1 {\n                break;", "            if self.line_number > 1 {\n                if self.line.ends_with('\\n') {\n                    self.line.pop();\n                    if self.line.ends_with('\\r') {\n                        self.line.pop();\n                    }\n                }\n                break;")], "the line terminator, and only it, is removed before parsing")
case("c17-truncate-blindly", "break", ["C17"], [(CSVF, "            if self.line_number > 1 {\n                break;", "            if self.line_number > 1 {\n                self.line.truncate(n - 1);\n                break;")], "a last row without line terminator loses a character", expect_key=["line-numbers|text"])
_UP = TOOLS + "ucd_parsers.rs"
case("c15-pairing-range-starts-at-last", "break", ["C15"], [(_UP, "                    r.end = udata.codepoint;\n", "                    r.end = udata.codepoint;\n                    r.start = udata.codepoint;\n")], "a First/Last pair yields only its last code point (never executed differently by the tests' inputs? — the pinned tables do change: L5 fires too)", expect_key=["first-last-pairing", "L5"])
case("c15-pairing-accepts-plain-inside", "break", ["C15"], [(_UP, "                    if !udata.is_range_end() {\n                        return err!(", "                    if !udata.is_range_end() && udata.is_range_start() {\n                        return err!(")], "a plain line between First and Last is swallowed into the range instead of being an error", expect_key=["first-last-pairing"])
case("c15-revert-d8", "break", ["C15"], [(TOOLS + "generators/bidi_class.rs", "                                add_range(r, bidi, &mut out);\n                                // Start a new range\n                                range = Some(*cp);", "                                out.push((Codepoints::Range(*r), bidi.clone()));\n                                out.push((Codepoints::Range(*cp), bidi.clone()));\n                                range = None;")], "reverts the D8 repair: after a non-adjacent First/Last range no run is pending, the next entry of another class is listed twice", expect_key=["bidi-run-semantics|step"])
case("c15-revert-d7", "break", ["C15"], [(TOOLS + "generators/ucd_generator.rs", "        if self.range.start.value() <= last.value() {", "        if false {")], "reverts the D7 repair: the code points after the last entry are never emitted", expect_key=["gap-semantics|finish"])
