#!/usr/bin/env python3
"""Self-validation of the checkers (DESIGN §7).

Each case edits a scratch copy of /repo (never /repo itself) and runs the named checks against it:
 break cases must produce a VIOLATION (optionally naming `expect_key` substrings),
 keep cases (behaviour-preserving refactorings) must stay silent.
  selftest/run.py [--only ID[,ID]] [--props C09,C12] [--verify-tests] [--kind break|keep]"""
import argparse
import json
import os
import shutil
import subprocess
import sys
import time

HERE = os.path.dirname(os.path.abspath(__file__))
VERIF = os.path.dirname(HERE)
sys.path.insert(0, VERIF)
sys.path.insert(0, HERE)
SCRATCH = os.environ.get("PV_SELFTEST_DIR", "/var/tmp/pv-selftest")


def sync(repo, dst):
    os.makedirs(dst, exist_ok=True)
    subprocess.check_call(["rsync", "-a", "--delete", "--exclude", "target", "--exclude", ".git", repo + "/", dst + "/"])


def apply_edits(dst, edits):
    for path, old, new in edits:
        p = os.path.join(dst, path)
        s = open(p).read()
        if s.count(old) < 1:
            raise ValueError("edit does not apply: %s: %r not found" % (path, old[:60]))
        s = s.replace(old, new, 1)
        open(p, "w").write(s)


def run_check(prop, dst):
    p = subprocess.run([os.path.join(VERIF, "check"), prop, "--repo", dst, "--no-evidence"], stdout=subprocess.PIPE, stderr=subprocess.STDOUT, text=True, env=dict(os.environ, PV_SELFTEST="1"))
    return p.returncode, p.stdout


def cargo_test(dst):
    env = dict(os.environ, CARGO_NET_OFFLINE="true", CARGO_TARGET_DIR=os.path.join(SCRATCH, "target"))
    p = subprocess.run(["cargo", "test", "--workspace", "--no-fail-fast", "--offline"], cwd=dst, stdout=subprocess.PIPE, stderr=subprocess.STDOUT, text=True, env=env)
    passed = sum(int(l.split()[3]) for l in p.stdout.splitlines() if l.startswith("test result:"))
    return p.returncode == 0, passed, p.stdout[-1500:]


def main():
    ap = argparse.ArgumentParser()
    ap.add_argument("--only")
    ap.add_argument("--props")
    ap.add_argument("--kind")
    ap.add_argument("--verify-tests", action="store_true")
    ap.add_argument("--repo", default="/repo")
    ap.add_argument("--jobs", type=int, default=5)
    a = ap.parse_args()
    import cases

    todo = cases.CASES
    if a.only:
        ids = set(a.only.split(","))
        todo = [c for c in todo if c["id"] in ids]
    if a.props:
        ps = set(a.props.split(","))
        todo = [c for c in todo if ps & set(c["props"])]
    if a.kind:
        todo = [c for c in todo if c["kind"] == a.kind]
    from concurrent.futures import ThreadPoolExecutor
    import threading

    lock = threading.Lock()
    results = []
    badc = [0]

    def work(arg):
        wi, c = arg
        dst = os.path.join(SCRATCH, "repo-%d-%d" % (os.getpid(), wi % a.jobs))
        return c, run_case(c, dst, a)

    def run_case(c, dst, a):
        lines = []
        bad = 0
        with slot_locks[hash(dst) % len(slot_locks)]:
            sync(a.repo, dst)
            try:
                apply_edits(dst, c["edits"])
            except ValueError as e:
                return 1, ["FAIL %-5s %-28s %s" % (c["kind"], c["id"], e)], {"id": c["id"], "error": str(e)}
            t0 = time.time()
            row = {"id": c["id"], "kind": c["kind"], "props": {}}
            if a.verify_tests:
                okk, n, tail = cargo_test(dst)
                row["tests"] = {"ok": okk, "passed": n}
                if not okk:
                    lines.append("  [%s] NOTE: repo tests do not pass with this edit (%d passed)" % (c["id"], n))
            for prop in c["props"]:
                if a.props and prop not in a.props.split(","):
                    continue
                rc, out = run_check(prop, dst)
                fired = [l for l in out.splitlines() if l.startswith("VIOLATION")]
                aerr = [l for l in fired if "analysis-error" in l or "internal-error" in l]
                if c["kind"] == "break":
                    okk = rc == 1 and bool(fired) and not (aerr and len(aerr) == len(fired))
                    for ek in c.get("expect_key", []):
                        if not any(ek in l for l in fired):
                            okk = False
                else:
                    okk = rc == 0 and not fired
                row["props"][prop] = {"ok": okk, "rc": rc, "violations": len(fired)}
                lines.append("%s %-5s %-28s %s rc=%d violations=%d %.1fs" % ("ok  " if okk else "FAIL", c["kind"], c["id"], prop, rc, len(fired), time.time() - t0))
                if not okk:
                    bad += 1
                    for l in (fired or out.splitlines()[-5:])[:4]:
                        lines.append("       | " + l[:300])
        return bad, lines, row

    slot_locks = [threading.Lock() for _ in range(a.jobs)]
    # one scratch directory per worker slot
    def work2(arg):
        wi, c = arg
        slot = wi % a.jobs
        dst = os.path.join(SCRATCH, "repo-%d-%d" % (os.getpid(), slot))
        with slot_locks[slot]:
            pass
        return run_case_slot(c, dst, slot)

    def run_case_slot(c, dst, slot):
        with slot_locks[slot]:
            return run_case_nolock(c, dst)

    def run_case_nolock(c, dst):
        lines = []
        bad = 0
        sync(a.repo, dst)
        try:
            apply_edits(dst, c["edits"])
        except ValueError as e:
            return 1, ["FAIL %-5s %-28s %s" % (c["kind"], c["id"], e)], {"id": c["id"], "error": str(e)}
        t0 = time.time()
        row = {"id": c["id"], "kind": c["kind"], "props": {}}
        if a.verify_tests:
            okk, n, tail = cargo_test(dst)
            row["tests"] = {"ok": okk, "passed": n}
            if not okk:
                lines.append("  [%s] NOTE: repo tests do not pass with this edit (%d passed)" % (c["id"], n))
        for prop in c["props"]:
            if a.props and prop not in a.props.split(","):
                continue
            rc, out = run_check(prop, dst)
            fired = [l for l in out.splitlines() if l.startswith("VIOLATION")]
            aerr = [l for l in fired if "analysis-error" in l or "internal-error" in l]
            if c["kind"] == "break":
                okk = rc == 1 and bool(fired) and not (aerr and len(aerr) == len(fired))
                if prop == c["props"][0]:  # expect_key describes the first (own) property's violation
                    for ek in c.get("expect_key", []):
                        if not any(ek in l for l in fired):
                            okk = False
            else:
                okk = rc == 0 and not fired
            row["props"][prop] = {"ok": okk, "rc": rc, "violations": len(fired)}
            lines.append("%s %-5s %-28s %s rc=%d violations=%d %.1fs" % ("ok  " if okk else "FAIL", c["kind"], c["id"], prop, rc, len(fired), time.time() - t0))
            if not okk:
                bad += 1
                for l in (fired or out.splitlines()[-5:])[:4]:
                    lines.append("       | " + l[:300])
        return bad, lines, row

    bad = 0
    with ThreadPoolExecutor(max_workers=a.jobs) as ex:
        for b_, lines, row in ex.map(work2, list(enumerate(todo))):
            bad += b_
            results.append(row)
            for l in lines:
                print(l, flush=True)
    for slot in range(a.jobs):
        shutil.rmtree(os.path.join(SCRATCH, "repo-%d-%d" % (os.getpid(), slot)), ignore_errors=True)
    print("selftest: %d case(s), %d failure(s)" % (len(todo), bad))
    with open(os.path.join(HERE, "last_run.json"), "w") as fh:
        json.dump(results, fh, indent=1)
    return 1 if bad else 0


if __name__ == "__main__":
    sys.exit(main())
