#!/usr/bin/env python3
"""Evaluate a seeded change produced by an independent sub-agent (worktree /tmp/seed/<name>):
 1. confirm: existing suite passes with the change, demo fails with it, demo passes without it;
 2. apply patch.diff to /repo, run every registered check, undo;
 3. store /verif/seeded/<name>/{patch.diff, demo, meta.json}."""
import json
import os
import re
import shutil
import subprocess
import sys

VERIF = os.path.dirname(os.path.dirname(os.path.abspath(__file__)))


def sh(cmd, cwd=None, env=None):
    p = subprocess.run(cmd, shell=True, cwd=cwd, env=env, stdout=subprocess.PIPE, stderr=subprocess.STDOUT, text=True)
    return p.returncode, p.stdout


def results(out):
    """{test binary: (passed, failed)} from cargo test output."""
    res = {}
    cur = None
    for l in out.splitlines():
        m = re.match(r"\s+Running (.+)$", l)
        if m:
            cur = m.group(1).strip()
        m = re.match(r"\s+Doc-tests (\S+)", l)
        if m:
            cur = "doc:" + m.group(1)
        m = re.match(r"test result: \w+\. (\d+) passed; (\d+) failed", l)
        if m and cur:
            res[cur] = (int(m.group(1)), int(m.group(2)))
    return res


def main():
    name = sys.argv[1]
    prop = sys.argv[2] if len(sys.argv) > 2 else name[:3]
    wt = "/tmp/seed/%s" % name
    env = dict(os.environ, CARGO_NET_OFFLINE="true", CARGO_TARGET_DIR=wt + "/target")
    demo = [l.split()[-1] for l in sh("git status --porcelain -uall", cwd=wt)[1].splitlines() if "seeded_demo" in l]
    patch = open(wt + "/patch.diff").read()
    changed = re.findall(r"^\+\+\+ b/(\S+)", patch, re.M)
    meta = {"name": name, "property": prop, "changed_files": changed, "demo": demo}
    # 1a. with the change
    rc, out = sh("cargo test --workspace --offline --no-fail-fast", cwd=wt, env=env)
    r = results(out)
    demo_res = {k: v for k, v in r.items() if "seeded_demo" in k}
    other = {k: v for k, v in r.items() if "seeded_demo" not in k}
    meta["with_change"] = {"existing_passed": sum(v[0] for k, v in other.items() if not k.startswith("doc:")), "existing_failed": sum(v[1] for v in other.values()), "doctests_passed": sum(v[0] for k, v in other.items() if k.startswith("doc:")), "demo": demo_res}
    # 1b. without the change
    rcr, outr = sh("git apply -R patch.diff", cwd=wt)
    if rcr != 0:
        print("cannot revert the change in the worktree:", outr)
        return 2
    rc2, out2 = sh("cargo test --workspace --offline --no-fail-fast --test seeded_demo", cwd=wt, env=env)
    r2 = results(out2)
    meta["without_change"] = {"demo": {k: v for k, v in r2.items() if "seeded_demo" in k}}
    sh("git apply patch.diff", cwd=wt)
    ok = meta["with_change"]["existing_failed"] == 0 and meta["with_change"]["existing_passed"] >= 51 and any(v[1] > 0 for v in demo_res.values()) and all(v[1] == 0 for v in meta["without_change"]["demo"].values()) and bool(meta["without_change"]["demo"])
    meta["confirmed"] = ok
    # 2. run the checks on /repo with the patch applied
    scratch = None
    if os.environ.get("SEED_EVAL_SCRATCH"):
        # leave /repo alone (something else may be reading it): run the checks on a patched copy
        scratch = os.path.join(os.environ.get("PV_SCRATCH", "/var/tmp"), "seed-eval-%s-%d" % (name, os.getpid()))
        shutil.rmtree(scratch, ignore_errors=True)
        rc, o = sh("rsync -a --exclude target --exclude .git /repo/ %s/ && cd %s && patch -p1 -s -i %s/patch.diff" % (scratch, scratch, wt))
        if rc != 0:
            print("patch does not apply to a copy of /repo:", o)
            return 2
    else:
        rc, o = sh("git -C /repo status --porcelain")
        if o.strip():
            print("refusing: /repo is dirty")
            return 2
        rc, o = sh("git -C /repo apply %s/patch.diff" % wt)
        if rc != 0:
            print("patch does not apply to /repo:", o)
            return 2
    fired = {}
    killed = {}
    try:
        props = [json.loads(l)["id"] for l in open(os.path.join(VERIF, "properties.jsonl"))]
        for p in props:
            if not os.path.exists(os.path.join(VERIF, "pv", "rules", p + ".py")):
                continue
            rc, o = sh("./check %s --no-evidence%s" % (p, (" --repo " + scratch) if scratch else ""), cwd=VERIF, env=dict(os.environ, PV_SELFTEST="1"))
            v = [l for l in o.splitlines() if l.startswith("VIOLATION")]
            if rc not in (0, 1) or (rc == 1 and not v):
                killed[p] = "exit %d, no VIOLATION line: %s" % (rc, o[-200:])
            elif v:
                fired[p] = [re.sub(r"replay=\S+ ", "", l)[:260] for l in v[:4]]
    finally:
        if scratch:
            shutil.rmtree(scratch, ignore_errors=True)
        else:
            sh("git -C /repo checkout -- .")
    meta["checks_fired"] = fired
    if killed:
        meta["checks_killed"] = killed
        print("KILLED checks:", killed)
    meta["caught_by_own_property"] = prop in fired
    sys.path.insert(0, os.path.dirname(os.path.abspath(__file__)))
    from seed_refresh import caught_by

    meta["caught_by"] = caught_by(prop, fired)
    # 3. store
    d = os.path.join(VERIF, "seeded", name)
    os.makedirs(d, exist_ok=True)
    shutil.copy(wt + "/patch.diff", d + "/patch.diff")
    for f in demo:
        shutil.copy(os.path.join(wt, f), os.path.join(d, os.path.basename(f)))
    if os.path.exists(wt + "/SEED_REPORT.md"):
        shutil.copy(wt + "/SEED_REPORT.md", d + "/SEED_REPORT.md")
    meta["what_was_run"] = ["cargo test --workspace --offline --no-fail-fast (worktree, change applied)", "git apply -R patch.diff; cargo test --test seeded_demo; git apply patch.diff", "git -C /repo apply patch.diff; ./check <each property>; git -C /repo checkout -- ."]
    json.dump(meta, open(d + "/meta.json", "w"), indent=1)
    print(json.dumps({k: meta[k] for k in ("name", "confirmed", "caught_by_own_property")}), "fired:", sorted(fired))
    for p, v in fired.items():
        for l in v[:2]:
            print("   ", p, l[:230])
    return 0


if __name__ == "__main__":
    sys.exit(main())
