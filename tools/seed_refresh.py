#!/usr/bin/env python3
"""Re-run every check against every stored seeded change (on a scratch copy of /repo) and refresh
seeded/<name>/meta.json: checks_fired, caught_by_own_property. Usage: tools/seed_refresh.py [name ...]"""
import json
import os
import re
import shutil
import subprocess
import sys
from concurrent.futures import ThreadPoolExecutor

VERIF = os.path.dirname(os.path.dirname(os.path.abspath(__file__)))
PROPS = [json.loads(l)["id"] for l in open(os.path.join(VERIF, "properties.jsonl"))]


def caught_by(own, fired):
    """The checks that are *obliged* to report this change (thorough tier): the property it was written
    against if that check names a violation; otherwise every check that names one. Checks that fire only
    with an analysis-error are collateral: they are recorded in checks_fired but not obliged."""
    named = sorted(p for p, v in fired.items() if any("analysis-error" not in l and "internal-error" not in l and "|floor|" not in l for l in v))
    if own in named:
        return [own]
    if own in fired:
        return [own]
    return named


def one(name):
    d = os.path.join(VERIF, "seeded", name)
    meta = json.load(open(os.path.join(d, "meta.json")))
    dst = "/var/tmp/pv-seed-%s" % name
    shutil.rmtree(dst, ignore_errors=True)
    subprocess.check_call(["rsync", "-a", "--exclude", "target", "--exclude", ".git", "/repo/", dst + "/"])
    p = subprocess.run(["patch", "-p1", "-s", "-i", os.path.join(d, "patch.diff")], cwd=dst, stdout=subprocess.PIPE, stderr=subprocess.STDOUT, text=True)
    if p.returncode != 0:
        shutil.rmtree(dst, ignore_errors=True)
        return name, None
    fired = {}
    for prop in PROPS:
        q = subprocess.run([os.path.join(VERIF, "check"), prop, "--repo", dst, "--no-evidence"], stdout=subprocess.PIPE, stderr=subprocess.STDOUT, text=True)
        v = [l for l in q.stdout.splitlines() if l.startswith("VIOLATION")]
        if q.returncode not in (0, 1) or (q.returncode == 1 and not v):
            # killed / crashed check: neither "caught" nor "silent"
            raise RuntimeError("check %s on seed %s ended with exit %d and no VIOLATION line: %s" % (prop, name, q.returncode, q.stdout[-300:]))
        if v:
            fired[prop] = [re.sub(r"replay=\S+ ", "", l)[:260] for l in v[:4]]
    shutil.rmtree(dst, ignore_errors=True)
    meta["checks_fired"] = fired
    meta["caught_by_own_property"] = meta["property"] in fired
    meta["caught_by"] = caught_by(meta["property"], fired)
    json.dump(meta, open(os.path.join(d, "meta.json"), "w"), indent=1, ensure_ascii=False)
    return name, fired


def main():
    names = sys.argv[1:] or sorted(n for n in os.listdir(os.path.join(VERIF, "seeded")) if os.path.exists(os.path.join(VERIF, "seeded", n, "meta.json")))
    with ThreadPoolExecutor(max_workers=int(os.environ.get("SEED_REFRESH_JOBS", "4"))) as ex:
        for name, fired in ex.map(one, names):
            if fired is None:
                print("%-10s patch does not apply" % name)
            else:
                own = json.load(open(os.path.join(VERIF, "seeded", name, "meta.json")))["property"]
                print("%-10s own=%s caught=%s fired=%s" % (name, own, own in fired, sorted(fired)))


if __name__ == "__main__":
    main()
