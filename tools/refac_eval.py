#!/usr/bin/env python3
"""Run every check against behaviour-preserving refactorings (diff files): any VIOLATION is a false alarm.
Usage: tools/refac_eval.py <dir-with-refac_*.diff> [...]; stores the diffs under selftest/refactorings/."""
import glob
import json
import os
import re
import shutil
import subprocess
import sys
from concurrent.futures import ThreadPoolExecutor

VERIF = os.path.dirname(os.path.dirname(os.path.abspath(__file__)))
PROPS = [json.loads(l)["id"] for l in open(os.path.join(VERIF, "properties.jsonl"))]


def one(diff):
    name = os.path.basename(os.path.dirname(diff)) + "-" + os.path.basename(diff)[:-5]
    dst = "/var/tmp/pv-refac-%s" % name
    shutil.rmtree(dst, ignore_errors=True)
    subprocess.check_call(["rsync", "-a", "--exclude", "target", "--exclude", ".git", "/repo/", dst + "/"])
    p = subprocess.run(["patch", "-p1", "-s", "-i", diff], cwd=dst, stdout=subprocess.PIPE, stderr=subprocess.STDOUT, text=True)
    if p.returncode != 0:
        shutil.rmtree(dst, ignore_errors=True)
        return name, None
    fired = {}
    for prop in PROPS:
        q = subprocess.run([os.path.join(VERIF, "check"), prop, "--repo", dst, "--no-evidence"], stdout=subprocess.PIPE, stderr=subprocess.STDOUT, text=True)
        v = [l for l in q.stdout.splitlines() if l.startswith("VIOLATION")]
        if q.returncode != 0 or v:
            fired[prop] = [re.sub(r"replay=\S+ ", "", l)[:400] for l in v[:3]] or [q.stdout[-300:]]
    shutil.rmtree(dst, ignore_errors=True)
    return name, fired


def main():
    diffs = []
    for d in sys.argv[1:]:
        diffs += sorted(glob.glob(os.path.join(d, "refac_*.diff"))) if os.path.isdir(d) else [d]
    store = os.path.join(VERIF, "selftest", "refactorings")
    os.makedirs(store, exist_ok=True)
    bad = 0
    with ThreadPoolExecutor(max_workers=4) as ex:
        for (name, fired), diff in zip(ex.map(one, diffs), diffs):
            if not diff.startswith(store):
                shutil.copy(diff, os.path.join(store, name + ".diff"))
            if fired is None:
                print("%-40s patch does not apply" % name)
            elif fired:
                bad += 1
                print("%-40s FALSE ALARM in %s" % (name, sorted(fired)))
                for p, v in fired.items():
                    for l in v[:2]:
                        print("      %s %s" % (p, l[:330]))
            else:
                print("%-40s silent (18 checks)" % name)
    print("refactorings: %d, with alarms: %d" % (len(diffs), bad))


if __name__ == "__main__":
    main()
