#!/usr/bin/env python3
"""Regenerate /verif/MANIFEST.json from the claim table below (kept next to the checks)."""
import json
import os

VERIF = os.path.dirname(os.path.dirname(os.path.abspath(__file__)))
props = [json.loads(l)["id"] for l in open(os.path.join(VERIF, "properties.jsonl"))]

TRUST = "rustc's MIR construction and callee resolution; the pv model table of std items (pv/models.py); std/unicode-normalization behave as documented; allocation failure and stack exhaustion out of scope"

CLAIMS = {
    "C13": dict(
        technique="abstract interpretation of stabilize's MIR with the rule function as a 3-answer oracle (E/=/≠); exhaustive path enumeration compared with the RFC 8264 §7 contract",
        category="other",
        text="Every path of precis_core::profile::stabilize is enumerated under all answer sequences of the caller's function (error / same content / new content), which is all stabilize can observe of f and s; the extracted (sequence → calls, result) table must equal the contract exactly (≤4 applications, own error passed through, fixed point returned, Invalid after four changes). Covers all rule functions and start strings, not sampled ones.",
        ref="§4 C13",
    ),
    "C14": dict(
        technique="decision-table extraction from MIR (ordered test list), truth-table extraction of each category predicate over its table statics, constant-data comparison of the folded tables with the UCD 6.3.0 files and the IANA registry for all 1,114,112 code points",
        category="other",
        text="The ordered decision list, the predicate→table binding, the tables themselves (folded from their initialiser MIR), the class callbacks, both entry points, has_compat's term and the surrogate/over-range fall-through are each decided for all inputs from the source; together they are the RFC 8264 §8 algorithm over Unicode 6.3.0.",
        ref="§4 C14",
    ),
    "C15": dict(
        technique="constant-data comparison of every emitted table (folded from initialiser MIR) with an independent UCD reader + table-order rule; liveness/dominator/field-effect rules on the generators' MIR (flush on exit, sort before merge, accumulator consumed)",
        category="other",
        text="PARTLY CLAIMED. Decided completely for the two pinned inputs: all 47 tables are searchable (L2) and equal the UCD on every code point (L5). Decided for all inputs only as necessary structural conditions of the generators (pending run live on loop exhaustion, sort dominates merge, every accumulated field consumed by generate_code). NOT decided: values computed by run compression / gap tracking for arbitrary entry sequences.",
        ref="§4 C15",
    ),
    "C18": dict(
        technique="abstract interpretation of the 12 hand-written comparison methods over the order-type domain (11 order types × 12 methods, exhaustive), after checking that compared values flow only into comparisons",
        category="other",
        text="Because the methods touch cp/c/start/end only through comparisons (checked on the MIR), their results depend only on the order type of those values; all 11 order types are enumerated for all 12 methods and compared with the trichotomy, mirrored impls included. L3 checks the orientation of every binary-search comparator.",
        ref="§4 C18",
    ),
}

PENDING_REASON = "check under construction in this session (DESIGN.md §4); not registered yet"


def main():
    checks = []
    for p in props:
        c = CLAIMS.get(p)
        if not c:
            continue
        checks.append(
            {
                "property_id": p,
                "quick_cmd": "./check %s --tier quick" % p,
                "thorough_cmd": "./check %s --tier thorough" % p,
                "evidence_file": "/verif/evidence/%s.json" % p,
                "replay_cmd_template": "cat {path}",
                "engine": "pv",
                "level_claimed": {"category": c["category"], "text": c["text"], "design_ref": c["ref"]},
                "level_note": TRUST,
                "technique": c["technique"],
            }
        )
    na = [{"property_id": p, "reason": NA.get(p, PENDING_REASON)} for p in props if p not in CLAIMS]
    m = {
        "version": 1,
        "setup_cmd": "cd /verif/driver && CARGO_NET_OFFLINE=true cargo +nightly build --release --offline && cd /verif && python3 -m compileall -q pv spec",
        "hooks": {
            "guard": "precis_verif",
            "enable": "no hooks exist: the static analyses read the unmodified sources (RUSTFLAGS='--cfg precis_verif' is reserved)",
            "baseline_off_cmd": "cd /repo && cargo test --workspace --no-fail-fast --offline",
            "source_commits": [],
            "add_only": True,
        },
        "engines": [
            {"name": "precis-mirdump", "path": "driver/", "serves_properties": props, "kind_free_text": "rustc_private driver (nightly) run as RUSTC_WORKSPACE_WRAPPER under cargo check on /repo's current tree; exports MIR with resolved callees, constants, ADTs, statics as JSON facts"},
            {"name": "pv", "path": "pv/", "serves_properties": props, "kind_free_text": "Python rule engine over the exported facts: call graph, CFG/dominators/liveness, provenance tracing, finite-domain abstract interpreter of MIR with a std model table, table-vs-UCD comparison"},
        ],
        "checks": checks,
        "notes": "Static analysis only (see DESIGN.md). Fix commits in /repo: see known_findings.json ('fixed' entries). Evidence level 'proof' here means: a finite abstract space derived from the source was enumerated exhaustively and every obligation discharged; the trusted base is listed in level_note.",
        "not_applicable": na,
    }
    with open(os.path.join(VERIF, "MANIFEST.json"), "w") as fh:
        json.dump(m, fh, indent=1, ensure_ascii=False)
    print("MANIFEST: %d checks, %d not_applicable" % (len(checks), len(na)))


NA = {}

if __name__ == "__main__":
    main()
