#!/usr/bin/env python3
"""Regenerate /verif/MANIFEST.json from the claim table below (kept next to the checks)."""
import json
import os

VERIF = os.path.dirname(os.path.dirname(os.path.abspath(__file__)))
props = [json.loads(l)["id"] for l in open(os.path.join(VERIF, "properties.jsonl"))]

TRUST = "rustc's MIR construction and callee resolution; the pv model table of std items (pv/models.py); std/unicode-normalization behave as documented; allocation failure and stack exhaustion out of scope"

CLAIMS = {
    "C01": dict(
        technique="panic-site inventory over the resolved call graph + abstract interpretation of every exported function with unconstrained arguments (loop widening, interval / byte-offset-provenance / `< chars().count()` facts); asserts must be proved, slice bounds must be byte offsets of the sliced string, unwraps must be unreachable on None; coverage of the inventory is enforced",
        category="other",
        text="Every Assert terminator and every call that can panic in the library code reachable from the public API is inventoried from MIR and must be visited and discharged by the interpretation of some exported function for ALL argument values (not sampled inputs); loops must be iterator-controlled or have a proved stepping counter; recursion/unsafe/abort are excluded structurally. Undocumented panics inside std/unicode-normalization, OOM and stack exhaustion are assumed away.",
        ref="§4 C01",
    ),
    "C02": dict(
        technique="loop-transducer extraction of StringClass::allows over a 15-letter alphabet (derived property × context answer), payload provenance of the error, interval partition of get_context_rule and of each rule's own-test against the set of contextual code points computed from the folded tables",
        category="other",
        text="The per-character behaviour of allows is extracted as a one-state transducer that is exact for all labels (first offender wins, code-point positions, the property just computed, rule invoked with the whole label and the same index) and compared letter by letter with RFC 8264 §4; the registry clause is decided for all 2^32 code points by interval partition.",
        ref="§4 C02",
    ),
    "C03": dict(
        technique="registry and own-sets by interval partition; VIRAMA/script/joining tables vs UCD 6.3.0 on every code point (L5) and predicate binding (L4); per-rule path enumeration with exact relative positions, shift-induction for the two ZWNJ scans and widening for whole-label scans, each returning path judged by a three-valued transcription of RFC 5892 Appendix A",
        category="other",
        text="For each of the nine rules every returning path is compared with the RFC's own decision procedure evaluated on the facts the path established (which neighbours exist, which table predicates hold, which constants the code point equals): the RFC answer must be determined by those facts and equal the returned value, for every label and position. Scan loops are closed by an inductive argument checked on the MIR state, not by unrolling.",
        ref="§4 C03",
    ),
    "C04": dict(technique="pipeline extraction: abstract interpretation with the rule implementations as Ok/Err oracles and content tags for strings; extracted path set compared with the RFC 8265 §3 pipeline", category="other", text="All paths of prepare/enforce of both username profiles are enumerated (which rule ran on which string, every failure exit and the error it returns, the string returned) and must equal the specified pipeline; covers every input string because the methods observe strings only through the leaf rules. The leaf rules' own semantics are adopted as dependency obligations (the quick obligations of C11 width, C10 case, C09 directionality, C14/C02 IdentifierClass, keyed dep|<leaf>|…), so a defect in a leaf is reported here too; the C09 known finding is listed for this property as well.", ref="§4 C04"),
    "C05": dict(technique="pipeline extraction (as C04) for OpaqueString prepare/enforce against RFC 8265 §4.2", category="other", text="Same engine as C04: validation on the untouched input, space mapping, NFC, non-empty, nothing else; the leaves' own semantics (C12 space mapping, C14/C02 FreeformClass) are adopted as dependency obligations.", ref="§4 C05"),
    "C06": dict(technique="pipeline extraction of Nickname prepare/enforce and of the closure handed to stabilize, against RFC 8266 §2", category="other", text="enforce must be stabilize(input, closure) returned unchanged and the closure body must be the whole rule set (validate, space rule, NFKC, non-empty; no case mapping). Fixed point / iteration bound (C13), the space rule (C12) and FreeformClass (C14/C02) are adopted as dependency obligations.", ref="§4 C06"),
    "C07": dict(technique="pipeline extraction of the four compare bodies and the static-form forwarders", category="other", text="compare must be enforce(a)? ; enforce(b)? ; content equality of the two results (first operand's error first, never Ok after an error); Nickname via stabilize with the comparison rule set on both operands; the static forms forward (s1, s2) in order. The leaf rules (C13, C12, C10, C11, C09, C14, C02) are adopted as dependency obligations; the C09 known finding is listed for this property as well.", ref="§4 C07"),
    "C08": dict(technique="must-pass-through check on the extracted enforce pipelines (own-class validation precedes only whitelisted transforms; Nickname returns only stabilize's fixed point)", category="other", text="PARTLY CLAIMED: structural necessary conditions only. NOT decided: whether to_lowercase/NFC/NFKC (library Unicode data) can produce DISALLOWED/UNASSIGNED characters from valid ones, and idempotence of the transform chain for every string. The post-validation transforms must be the specified functions: normaliser wrappers pair is_nfX with nfX, and C13/C10/C11/C12 are adopted as dependency obligations.", ref="§4 C08"),
    "C09": dict(technique="loop-automaton extraction of satisfy_bidi_rule over the 23 bidi classes, has_rtl and bidi_class_cp decided per code point against the folded table (paths × intervals), wrapper decision table, product-construction language comparison with the DFA of RFC 5893's six conditions; bidi table compared with UnicodeData 16.0.0 on every code point", category="other", text="The composed language (no R/AL/AN or Bidi rule satisfied) is compared with the RFC for ALL class words at once; a difference yields a shortest distinguishing word. One known finding (D3, interior NSM in RTL labels, enshrined by the repository's tests) is keyed by a language K; any deviation outside K is a violation.", ref="§4 C09"),
    "C10": dict(technique="copy-on-first-change discipline: trigger class set, untouched-input branch, prefix/suffix split, one-state loop transducer over case classes read from DerivedCoreProperties.txt", category="other", text="Decides for all strings that every character with a lowercase mapping is mapped (whole mapping) wherever it stands: the trigger set must contain every changing class and the loop must be stateless. std's predicates are bound to the UCD properties by their documentation.", ref="§4 C10"),
    "C11": dict(technique="table = <wide>/<narrow> decompositions of UnicodeData 16.0.0 (every code point), idempotence and scalar-ness of values, lookup semantics, copy-on-first-change discipline over {mapped, other}", category="other", text="Data clause decided on every code point; code clause decided for all strings by the extracted one-state transducer whose trigger is computed from the mapper itself.", ref="§4 C11"),
    "C12": dict(technique="password rule: first-change discipline over {N,S,Z}; nickname rule: scan DFA + rebuild transducers extracted from MIR, composed and compared with the RFC 8266 §2.3 reference transducer by product exploration; is_space_separator bound to the folded Zs table for every code point (paths × intervals); Zs table compared with UnicodeData 16.0.0", category="other", text="Equivalence with the reference mapping is decided for ALL words over the class alphabet (the code can only distinguish non-space / U+0020 / other Zs — anything finer is reported); a difference yields a shortest distinguishing word.", ref="§4 C12"),
    "C13": dict(
        technique="abstract interpretation of stabilize's MIR with the rule function as a 3-answer oracle (E/=/≠); exhaustive path enumeration compared with the RFC 8264 §7 contract",
        category="other",
        text="Every path of precis_core::profile::stabilize is enumerated under all answer sequences of the caller's function (error / same content / new content), which is all stabilize can observe of f and s; the extracted (sequence → calls, result) table must equal the contract exactly (≤4 applications, own error passed through, fixed point returned, Invalid after four changes). Covers all rule functions and start strings, not sampled ones.",
        ref="§4 C13",
    ),
    "C14": dict(
        technique="decision-table extraction from MIR (ordered test list), truth-table extraction of each category predicate over its table statics, constant-data comparison of the folded tables with the UCD 6.3.0 files and the IANA registry for all 1,114,112 code points",
        category="other",
        text="The ordered decision list, the predicate→table binding, the tables themselves (folded from their initialiser MIR), the class callbacks, both entry points, has_compat's term and the surrogate/over-range fall-through are each decided for all inputs from the source; together they are the RFC 8264 §8 algorithm over Unicode 6.3.0.",
        ref="§4 C14",
    ),
    "C15": dict(
        technique="constant-data comparison of every emitted table (folded from initialiser MIR) with an independent UCD reader + table-order rule; liveness/dominator/field-effect rules on the generators' MIR; inductive abstract interpretation of the accumulators over linear forms (state shapes relative to the last code point, generic step, coverage monitors) for the gap generator, the merge loop, the bidi run compression and the First/Last pairing",
        category="other",
        text="PARTLY CLAIMED. Pinned inputs: all 47 tables are searchable (L2) and equal the UCD on every code point (L5). All ascending inputs: UnassignedTableGen emits exactly the complement, get_codepoints_vector and BidiClassGen::compress_into_ranges emit rows that cover exactly the input entries (each code point once, with its class), UnicodeData::parse pairs First/Last — each proved by base case + generic step + finish over a finite set of state shapes; plus the structural rules (flush on exit, sort before merge, accumulator consumed, entry-kind agreement). NOT decided: ucd-parse's own line grammar, inputs that are not ascending, the per-entry set generators beyond entry-kind agreement.",
        ref="§4 C15",
    ),
    "C16": dict(technique="effect / ownership analysis: statics and type fields (Freeze, Send, Sync, size, Copy from the type checker), deny-listed callees and user-written unsafe blocks over the resolved call-graph closure of the exported API, representation-blindness (no result depends on the Cow variant of a string unless both variants are shown to return the same content), static-form forwarders by abstract interpretation; positive-control crate for every zero-count rule", category="other", text="No hidden state (immutable Freeze statics except lazy cells of zero-sized profiles), single-valued profile/class types, no effectful callee reachable, static forms forward unchanged: every exported function is then a pure function of its arguments for all histories and schedules.", ref="§4 C16"),
    "C17": dict(technique="field wiring and name table by abstract interpretation with the field parsers as oracles; regex group names vs Captures indexing; CsvLineParser::next interpreted over an abstract reader (line numbers, header skip, error stamping, and the text handed to the row parser with the line terminator as an oracle); panic-freedom of the parse paths (TotalWorld)", category="other", text="PARTLY CLAIMED: wiring, name table, selector rules, group names, line numbers and panic-freedom are decided; NOT decided: the languages of the two regular expressions and of ucd_parse::Codepoint::from_str.", ref="§4 C17"),
    "C18": dict(
        technique="abstract interpretation of the 12 hand-written comparison methods over the order-type domain (11 order types × 12 methods, exhaustive), after checking that compared values flow only into comparisons",
        category="other",
        text="Because the methods touch cp/c/start/end only through comparisons (checked on the MIR), their results depend only on the order type of those values; all 11 order types are enumerated for all 12 methods and compared with the trichotomy, mirrored impls included. L3 checks the orientation of every binary-search comparator.",
        ref="§4 C18",
    ),
}

PENDING_REASON = "check under construction in this session (DESIGN.md §4); not registered yet"


def main():
    checks = []
    for p in props:
        c = CLAIMS.get(p)
        if not c:
            continue
        checks.append(
            {
                "property_id": p,
                "quick_cmd": "./check %s --tier quick" % p,
                "thorough_cmd": "./check %s --tier thorough" % p,
                "evidence_file": "/verif/evidence/%s.json" % p,
                "replay_cmd_template": "cat {path}",
                "engine": "pv",
                "level_claimed": {"category": c["category"], "text": c["text"], "design_ref": c["ref"]},
                "level_note": TRUST,
                "technique": c["technique"],
            }
        )
    na = [{"property_id": p, "reason": NA.get(p, PENDING_REASON)} for p in props if p not in CLAIMS]
    m = {
        "version": 1,
        "setup_cmd": "cd /verif/driver && CARGO_NET_OFFLINE=true cargo +nightly build --release --offline && cd /verif && python3 -m compileall -q pv spec",
        "hooks": {
            "guard": "precis_verif",
            "enable": "no hooks exist: the static analyses read the unmodified sources (RUSTFLAGS='--cfg precis_verif' is reserved)",
            "baseline_off_cmd": "cd /repo && cargo test --workspace --no-fail-fast --offline",
            "source_commits": [],
            "add_only": True,
        },
        "engines": [
            {"name": "precis-mirdump", "path": "driver/", "serves_properties": props, "kind_free_text": "rustc_private driver (nightly) run as RUSTC_WORKSPACE_WRAPPER under cargo check on /repo's current tree; exports MIR with resolved callees, constants, ADTs, statics as JSON facts"},
            {"name": "pv", "path": "pv/", "serves_properties": props, "kind_free_text": "Python rule engine over the exported facts: call graph, CFG/dominators/liveness, provenance tracing, finite-domain abstract interpreter of MIR with a std model table, table-vs-UCD comparison"},
        ],
        "checks": checks,
        "notes": "Static analysis only (see DESIGN.md). Fix commits in /repo: see known_findings.json ('fixed' entries). Evidence level 'proof' here means: a finite abstract space derived from the source was enumerated exhaustively and every obligation discharged; the trusted base is listed in level_note.",
        "not_applicable": na,
    }
    with open(os.path.join(VERIF, "MANIFEST.json"), "w") as fh:
        json.dump(m, fh, indent=1, ensure_ascii=False)
    print("MANIFEST: %d checks, %d not_applicable" % (len(checks), len(na)))


NA = {"C03x": "check still under construction in this session (context-rule decision tables, DESIGN.md §4 C03); its data clauses (VIRAMA/script/joining tables = UCD 6.3.0) are already covered by C15 and the registry clause by C02"}

if __name__ == "__main__":
    main()
