"""RFC 5892 Appendix A (A.1–A.9), transcribed as three-valued decision procedures over an abstract
view of (label, position). `F` answers from the facts established on one path of the implementation:
  F.present(k)        is there a character at position+k?              True / False / None (unknown)
  F.cp_is(k, v)       is the character at position+k the code point v?
  F.cp_in(k, lo, hi)  is it in lo..=hi?
  F.pred(name, k)     Unicode 6.3.0 predicate (table-backed, bound by L4/L5) on the character at position+k
  F.scan()            the characters of a whole-label scan seen on this path, as accessor keys, and
                      whether the scan was exhausted
Results: True / False / "NotApplicable" / "Undefined" / UNKNOWN (the facts do not determine the answer:
the implementation decided without looking at something the RFC requires)."""

UNKNOWN = "unknown"
NA = "NotApplicable"
UNDEF = "Undefined"


def or3(*xs):
    if any(x is True for x in xs):
        return True
    if all(x is False for x in xs):
        return False
    return None


def own_char(F, test):
    p = F.present(0)
    if p is None:
        return UNKNOWN
    if not p:
        return UNDEF  # the position itself lies outside the label
    t = test(F)
    if t is None:
        return UNKNOWN
    if not t:
        return NA
    return None  # go on


def scan_dir(F, start, step):
    """Skip Joining_Type=T characters from position+start in direction step.
    Returns ('at', k) of the first non-transparent character, UNDEF if the label ends first, UNKNOWN."""
    k = start
    for _ in range(64):
        t = F.pred("is_transparent", k)
        if t is None:
            return UNKNOWN
        if not t:
            return ("at", k)
        k += step
        p = F.present(k)
        if p is None:
            return UNKNOWN
        if not p:
            return UNDEF
    return UNKNOWN


def zero_width_nonjoiner(F):  # A.1
    r = own_char(F, lambda F: F.cp_is(0, 0x200C))
    if r is not None:
        return r
    b = F.present(-1)
    if b is None:
        return UNKNOWN
    if not b:
        return UNDEF  # Before(cp) undefined
    v = F.pred("is_virama", -1)
    if v is None:
        return UNKNOWN
    if v:
        return True
    # RegExpMatch((Joining_Type:{L,D})(Joining_Type:T)*‌(Joining_Type:T)*(Joining_Type:{R,D}))
    left = scan_dir(F, -1, -1)
    if left in (UNKNOWN, UNDEF):
        return left
    ld = or3(F.pred("is_left_joining", left[1]), F.pred("is_dual_joining", left[1]))
    if ld is None:
        return UNKNOWN
    if not ld:
        return False
    a = F.present(1)
    if a is None:
        return UNKNOWN
    if not a:
        return UNDEF
    right = scan_dir(F, 1, 1)
    if right in (UNKNOWN, UNDEF):
        return right
    rd = or3(F.pred("is_right_joining", right[1]), F.pred("is_dual_joining", right[1]))
    if rd is None:
        return UNKNOWN
    return rd


def zero_width_joiner(F):  # A.2
    r = own_char(F, lambda F: F.cp_is(0, 0x200D))
    if r is not None:
        return r
    b = F.present(-1)
    if b is None:
        return UNKNOWN
    if not b:
        return UNDEF
    v = F.pred("is_virama", -1)
    return UNKNOWN if v is None else v


def middle_dot(F):  # A.3
    r = own_char(F, lambda F: F.cp_is(0, 0x00B7))
    if r is not None:
        return r
    b, a = F.present(-1), F.present(1)
    if b is False or a is False:
        return UNDEF
    if b is None or a is None:
        return UNKNOWN
    x, y = F.cp_is(-1, 0x006C), F.cp_is(1, 0x006C)
    if x is False or y is False:
        return False
    if x is None or y is None:
        return UNKNOWN
    return True


def greek_keraia(F):  # A.4
    r = own_char(F, lambda F: F.cp_is(0, 0x0375))
    if r is not None:
        return r
    a = F.present(1)
    if a is None:
        return UNKNOWN
    if not a:
        return UNDEF
    g = F.pred("is_greek", 1)
    return UNKNOWN if g is None else g


def hebrew_punctuation(F):  # A.5, A.6
    r = own_char(F, lambda F: or3(F.cp_is(0, 0x05F3), F.cp_is(0, 0x05F4)))
    if r is not None:
        return r
    b = F.present(-1)
    if b is None:
        return UNKNOWN
    if not b:
        return UNDEF
    h = F.pred("is_hebrew", -1)
    return UNKNOWN if h is None else h


def _exists(F, test, found, none):
    keys, exhausted = F.scan()
    vals = [test(F, k) for k in keys]
    if any(v is True for v in vals):
        return found
    if exhausted and all(v is False for v in vals):
        return none
    return UNKNOWN


def katakana_middle_dot(F):  # A.7
    r = own_char(F, lambda F: F.cp_is(0, 0x30FB))
    if r is not None:
        return r
    return _exists(F, lambda F, k: or3(F.pred("is_hiragana", k), F.pred("is_katakana", k), F.pred("is_han", k)), True, False)


def arabic_indic_digits(F):  # A.8
    r = own_char(F, lambda F: F.cp_in(0, 0x0660, 0x0669))
    if r is not None:
        return r
    return _exists(F, lambda F, k: F.cp_in(k, 0x06F0, 0x06F9), False, True)


def extended_arabic_indic_digits(F):  # A.9
    r = own_char(F, lambda F: F.cp_in(0, 0x06F0, 0x06F9))
    if r is not None:
        return r
    return _exists(F, lambda F, k: F.cp_in(k, 0x0660, 0x0669), False, True)


# (decision procedure, own code points, test that must be *false* for a whole-label scan to go on)
RULES = {
    "rule_zero_width_nonjoiner": (zero_width_nonjoiner, [(0x200C, 0x200C)], None),
    "rule_zero_width_joiner": (zero_width_joiner, [(0x200D, 0x200D)], None),
    "rule_middle_dot": (middle_dot, [(0x00B7, 0x00B7)], None),
    "rule_greek_lower_numeral_sign_keraia": (greek_keraia, [(0x0375, 0x0375)], None),
    "rule_hebrew_punctuation": (hebrew_punctuation, [(0x05F3, 0x05F4)], None),
    "rule_katakana_middle_dot": (katakana_middle_dot, [(0x30FB, 0x30FB)], lambda F, k: or3(F.pred("is_hiragana", k), F.pred("is_katakana", k), F.pred("is_han", k))),
    "rule_arabic_indic_digits": (arabic_indic_digits, [(0x0660, 0x0669)], lambda F, k: F.cp_in(k, 0x06F0, 0x06F9)),
    "rule_extended_arabic_indic_digits": (extended_arabic_indic_digits, [(0x06F0, 0x06F9)], lambda F, k: F.cp_in(k, 0x0660, 0x0669)),
}
CONTEXT_PREDICATES = ["is_virama", "is_greek", "is_hebrew", "is_hiragana", "is_katakana", "is_han", "is_dual_joining", "is_left_joining", "is_right_joining", "is_transparent"]
CONTEXT_TABLES = ["VIRAMA", "GREEK", "HEBREW", "HIRAGANA", "KATAKANA", "HAN", "DUAL_JOINING", "LEFT_JOINING", "RIGHT_JOINING", "TRANSPARENT"]
