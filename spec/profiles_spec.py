"""RFC 8265 §3.3/3.4/4.2 and RFC 8266 §2 as pipelines over the repository's leaf rules."""

ID = "allows:IdentifierClass"
FF = "allows:FreeformClass"

USERNAME_PREPARE = [("leaf", "width"), ("nonempty",), ("check", ID)]
SPECS = {
    # RFC 8265 §3.3.2 / §3.4.2: width mapping, (case mapping), NFC, directionality; empty strings rejected
    ("UsernameCaseMapped", "prepare"): USERNAME_PREPARE,
    ("UsernameCaseMapped", "enforce"): USERNAME_PREPARE + [("leaf", "case"), ("leaf", "nfc"), ("nonempty",), ("leaf", "dir")],
    ("UsernameCasePreserved", "prepare"): USERNAME_PREPARE,
    ("UsernameCasePreserved", "enforce"): USERNAME_PREPARE + [("leaf", "nfc"), ("nonempty",), ("leaf", "dir")],
    # RFC 8265 §4.2
    ("OpaqueString", "prepare"): [("nonempty",), ("check", FF)],
    ("OpaqueString", "enforce"): [("nonempty",), ("check", FF), ("leaf", "space-map"), ("leaf", "nfc"), ("nonempty",)],
    # RFC 8266 §2
    ("Nickname", "prepare"): [("nonempty",), ("check", FF)],
}
NICK_ENFORCE_RULES = [("nonempty",), ("check", FF), ("leaf", "trim"), ("leaf", "nfkc"), ("nonempty",)]
NICK_COMPARE_RULES = [("nonempty",), ("check", FF), ("leaf", "trim"), ("leaf", "case"), ("leaf", "nfkc")]
# a trailing non-empty check in the comparison rules is equivalent (an empty result differs from its
# non-empty input, so the next round's first step rejects it)
NICK_COMPARE_RULES_ALT = NICK_COMPARE_RULES + [("nonempty",)]

# C08: transforms allowed between validation and the returned string
POST_VALIDATION_WHITELIST = {
    "UsernameCaseMapped": ["case", "nfc", "dir"],
    "UsernameCasePreserved": ["nfc", "dir"],
    "OpaqueString": ["space-map", "nfc"],
    "Nickname": ["trim", "nfkc"],
}
OWN_CLASS = {"UsernameCaseMapped": ID, "UsernameCasePreserved": ID, "OpaqueString": FF, "Nickname": FF}
