"""RFC 5893 §2, the Bidi rule, as a deterministic step function over bidi classes (Appendix C of DESIGN).

Spec(w) = (w has no R/AL/AN) or Bidi(w). Bidi(empty) = true (the implementation's choice; profiles reject
empty strings before the rule runs)."""

RTLSET = frozenset(["R", "AL", "AN"])
RTL_ALLOWED = frozenset(["R", "AL", "AN", "EN", "ES", "CS", "ET", "ON", "BN", "NSM"])
RTL_END = frozenset(["R", "AL", "EN", "AN"])
LTR_ALLOWED = frozenset(["L", "EN", "ES", "CS", "ET", "ON", "BN", "NSM"])
LTR_END = frozenset(["L", "EN"])

INIT = ("init",)
DEAD = ("dead",)


def bidi_step(q, a):
    """States: ('init',) | ('rtl', end_ok, seen) | ('ltr', end_ok) | ('dead',); seen in {None,'EN','AN'}."""
    if q == DEAD:
        return DEAD
    if q == INIT:
        if a in ("R", "AL"):
            return ("rtl", True, None)  # condition 1; the first char is itself a valid end
        if a == "L":
            return ("ltr", True)
        return DEAD
    if q[0] == "rtl":
        _, end_ok, seen = q
        if a not in RTL_ALLOWED:  # condition 2
            return DEAD
        if a in ("EN", "AN"):  # condition 4
            if seen is not None and seen != a:
                return DEAD
            seen = a
        if a != "NSM":  # condition 3: last non-NSM character
            end_ok = a in RTL_END
        return ("rtl", end_ok, seen)
    if q[0] == "ltr":
        _, end_ok = q
        if a not in LTR_ALLOWED:  # condition 5
            return DEAD
        if a != "NSM":  # condition 6
            end_ok = a in LTR_END
        return ("ltr", end_ok)
    raise KeyError(q)


def bidi_accept(q):
    if q == INIT:
        return True
    if q == DEAD:
        return False
    return q[1]


def spec_step(q, a):
    b, has_rtl = q
    return (bidi_step(b, a), has_rtl or a in RTLSET)


def spec_accept(q):
    b, has_rtl = q
    return (not has_rtl) or bidi_accept(b)


SPEC_INIT = (INIT, False)


# Known-deviation language K (finding D3): RTL labels accepted by the RFC in which some NSM is followed
# later by a non-NSM character. K-automaton state: (first, nsm_seen, nsm_then_other)
K_INIT = (None, False, False)


def k_step(q, a):
    first, nsm_seen, hit = q
    if first is None:
        return (a, False, False)
    if a == "NSM":
        return (first, True, hit)
    return (first, nsm_seen, hit or nsm_seen)


def in_k(kq, spec_q):
    first, _, hit = kq
    b, has_rtl = spec_q
    return first in ("R", "AL") and hit and bidi_accept(b)
