"""RFC 8264 §8 decision list and §9 category definitions, transcribed from the RFC text."""

# (predicate function in precis_core::common, outcome); outcome "table" = the table's own value,
# "on_*" = the class-specific callback, otherwise a DerivedPropertyValue variant name.
DECISION_LIST = [
    ("get_exception_val", "table"),  # Exceptions (F)
    ("get_backward_compatible_val", "table"),  # BackwardCompatible (G)
    ("is_unassigned", "Unassigned"),  # Unassigned (J)
    ("is_ascii7", "PValid"),  # ASCII7 (K)
    ("is_join_control", "ContextJ"),  # JoinControl (H)
    ("is_old_hangul_jamo", "Disallowed"),  # OldHangulJamo (I)
    ("is_precis_ignorable_property", "Disallowed"),  # PrecisIgnorableProperties (M)
    ("is_control", "Disallowed"),  # Controls (L)
    ("has_compat", "on_has_compat"),  # HasCompat (Q)
    ("is_letter_digit", "PValid"),  # LetterDigits (A)
    ("is_other_letter_digit", "on_other_letter_digits"),  # OtherLetterDigits (R)
    ("is_space", "on_spaces"),  # Spaces (N)
    ("is_symbol", "on_symbols"),  # Symbols (O)
    ("is_punctuation", "on_punctuation"),  # Punctuation (P)
]
DEFAULT_OUTCOME = "Disallowed"

# predicate -> formula over table statics: ("or", [tables]) or ("andnot", table, not_table)
PREDICATES = {
    "is_letter_digit": ("or", ["LOWERCASE_LETTER", "UPPERCASE_LETTER", "OTHER_LETTER", "DECIMAL_NUMBER", "MODIFIER_LETTER", "NONSPACING_MARK", "SPACING_MARK"]),
    "is_join_control": ("or", ["JOIN_CONTROL"]),
    "is_old_hangul_jamo": ("or", ["LEADING_JAMO", "VOWEL_JAMO", "TRAILING_JAMO"]),
    "is_unassigned": ("andnot", "UNASSIGNED", "NONCHARACTER_CODE_POINT"),
    "is_ascii7": ("or", ["ASCII7"]),
    "is_control": ("or", ["CONTROL"]),
    "is_precis_ignorable_property": ("or", ["DEFAULT_IGNORABLE_CODE_POINT", "NONCHARACTER_CODE_POINT"]),
    "is_space": ("or", ["SPACE_SEPARATOR"]),
    "is_symbol": ("or", ["MATH_SYMBOL", "CURRENCY_SYMBOL", "MODIFIER_SYMBOL", "OTHER_SYMBOL"]),
    "is_punctuation": ("or", ["CONNECTOR_PUNCTUATION", "DASH_PUNCTUATION", "OPEN_PUNCTUATION", "CLOSE_PUNCTUATION", "INITIAL_PUNCTUATION", "FINAL_PUNCTUATION", "OTHER_PUNCTUATION"]),
    "is_other_letter_digit": ("or", ["TITLECASE_LETTER", "LETTER_NUMBER", "OTHER_NUMBER", "ENCLOSING_MARK"]),
    # context-rule predicates (RFC 5892 Appendix A)
    "is_virama": ("or", ["VIRAMA"]),
    "is_greek": ("or", ["GREEK"]),
    "is_hebrew": ("or", ["HEBREW"]),
    "is_hiragana": ("or", ["HIRAGANA"]),
    "is_katakana": ("or", ["KATAKANA"]),
    "is_han": ("or", ["HAN"]),
    "is_dual_joining": ("or", ["DUAL_JOINING"]),
    "is_left_joining": ("or", ["LEFT_JOINING"]),
    "is_right_joining": ("or", ["RIGHT_JOINING"]),
    "is_transparent": ("or", ["TRANSPARENT"]),
}

CLASS_OUTCOMES = {
    "precis_core::stringclasses::IdentifierClass": "SpecClassDis",  # ID_DIS
    "precis_core::stringclasses::FreeformClass": "SpecClassPval",  # FREE_PVAL
}
CALLBACKS = ["on_has_compat", "on_other_letter_digits", "on_spaces", "on_symbols", "on_punctuation"]

# IANA registry property names -> DerivedPropertyValue variants
CSV_NAMES = {"PVALID": "PValid", "FREE_PVAL": "SpecClassPval", "ID_DIS": "SpecClassDis", "CONTEXTJ": "ContextJ", "CONTEXTO": "ContextO", "DISALLOWED": "Disallowed", "UNASSIGNED": "Unassigned"}
