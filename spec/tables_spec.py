"""Which UCD fact each table static must denote (L5). Written from RFC 8264 §9, RFC 5892 §2.6/App. A,
RFC 8265/8266 and UAX #44 — not from the generators."""

CORE_UCD = "precis-core/resources/ucd"
PROF_UCD = "precis-profiles/resources/ucd"
CORE_VERSION = "6.3.0"
PROF_VERSION = "16.0.0"

C = "precis_core::common::"
P = "precis_profiles::"

# static -> (source, selector)
TABLES = {
    # general categories, Unicode 6.3.0 (RFC 8264 §9.1, 9.12, 9.14-9.16, 9.18)
    C + "LOWERCASE_LETTER": ("gc", "Ll"),
    C + "UPPERCASE_LETTER": ("gc", "Lu"),
    C + "OTHER_LETTER": ("gc", "Lo"),
    C + "DECIMAL_NUMBER": ("gc", "Nd"),
    C + "MODIFIER_LETTER": ("gc", "Lm"),
    C + "NONSPACING_MARK": ("gc", "Mn"),
    C + "SPACING_MARK": ("gc", "Mc"),
    C + "CONTROL": ("gc", "Cc"),
    C + "SPACE_SEPARATOR": ("gc", "Zs"),
    C + "MATH_SYMBOL": ("gc", "Sm"),
    C + "CURRENCY_SYMBOL": ("gc", "Sc"),
    C + "MODIFIER_SYMBOL": ("gc", "Sk"),
    C + "OTHER_SYMBOL": ("gc", "So"),
    C + "CONNECTOR_PUNCTUATION": ("gc", "Pc"),
    C + "DASH_PUNCTUATION": ("gc", "Pd"),
    C + "OPEN_PUNCTUATION": ("gc", "Ps"),
    C + "CLOSE_PUNCTUATION": ("gc", "Pe"),
    C + "INITIAL_PUNCTUATION": ("gc", "Pi"),
    C + "FINAL_PUNCTUATION": ("gc", "Pf"),
    C + "OTHER_PUNCTUATION": ("gc", "Po"),
    C + "TITLECASE_LETTER": ("gc", "Lt"),
    C + "LETTER_NUMBER": ("gc", "Nl"),
    C + "OTHER_NUMBER": ("gc", "No"),
    C + "ENCLOSING_MARK": ("gc", "Me"),
    # 9.10: code points UnicodeData.txt leaves unassigned (Cn)
    C + "UNASSIGNED": ("cn", None),
    # RFC 5892 A.1/A.2: Canonical_Combining_Class = Virama (9)
    C + "VIRAMA": ("ccc", "9"),
    # scripts (RFC 5892 A.4-A.7)
    C + "GREEK": ("script", "Greek"),
    C + "HEBREW": ("script", "Hebrew"),
    C + "HIRAGANA": ("script", "Hiragana"),
    C + "KATAKANA": ("script", "Katakana"),
    C + "HAN": ("script", "Han"),
    # joining types (RFC 5892 A.1)
    C + "DUAL_JOINING": ("jt", "D"),
    C + "LEFT_JOINING": ("jt", "L"),
    C + "RIGHT_JOINING": ("jt", "R"),
    C + "TRANSPARENT": ("jt", "T"),
    # binary properties
    C + "JOIN_CONTROL": ("proplist", "Join_Control"),
    C + "NONCHARACTER_CODE_POINT": ("proplist", "Noncharacter_Code_Point"),
    C + "DEFAULT_IGNORABLE_CODE_POINT": ("coreprop", "Default_Ignorable_Code_Point"),
    C + "LEADING_JAMO": ("hst", "L"),
    C + "VOWEL_JAMO": ("hst", "V"),
    C + "TRAILING_JAMO": ("hst", "T"),
    # hand-written (RFC text)
    C + "EXCEPTIONS": ("rfc", "exceptions"),
    C + "BACKWARD_COMPATIBLE": ("rfc", "backward_compatible"),
    C + "ASCII7": ("rfc", "ascii7"),
    # profile crate, Unicode 16.0.0
    P + "bidi::BIDI_CLASS_TABLE": ("bidi", None),
    P + "usernames::WIDE_NARROW_MAPPING": ("width", None),
    P + "common::SPACE_SEPARATOR": ("gc16", "Zs"),
}

# RFC 8264 §9.6 = RFC 5892 §2.6 Exceptions (F)
EXCEPTIONS = {}
for cp in (0x00DF, 0x03C2, 0x06FD, 0x06FE, 0x0F0B, 0x3007):
    EXCEPTIONS[cp] = "PValid"
for cp in (0x00B7, 0x0375, 0x05F3, 0x05F4, 0x30FB):
    EXCEPTIONS[cp] = "ContextO"
for cp in range(0x0660, 0x066A):
    EXCEPTIONS[cp] = "ContextO"
for cp in range(0x06F0, 0x06FA):
    EXCEPTIONS[cp] = "ContextO"
for cp in (0x0640, 0x07FA, 0x302E, 0x302F, 0x3031, 0x3032, 0x3033, 0x3034, 0x3035, 0x303B):
    EXCEPTIONS[cp] = "Disallowed"

BACKWARD_COMPATIBLE = {}  # RFC 8264 §9.7: empty
ASCII7 = (0x0021, 0x007E)  # RFC 8264 §9.11

# UAX #9 / UAX #44 Table 13: the Bidi_Class values
BIDI_CLASSES = ["AL", "AN", "B", "BN", "CS", "EN", "ES", "ET", "FSI", "L", "LRE", "LRI", "LRO", "NSM", "ON", "PDF", "PDI", "R", "RLE", "RLI", "RLO", "S", "WS"]
