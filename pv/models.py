"""Model table of A4: the documented behaviour of the std items the repository's code uses.

Each model is `f(machine, state, callee, args, terminator) -> value | (INLINE, body, args) | Outcome | None`.
`None` means "no model applies" (the machine then inlines a workspace body or fails closed).
A model must take all its decisions (anything that may raise Fork) before it mutates the state."""
from .interp import (
    CONTROLFLOW,
    INLINE,
    OPTION,
    RESULT,
    Adt,
    AnalysisError,
    Clo,
    Fn,
    I,
    Opq,
    Outcome,
    Ref,
    Str,
    Sym,
    Top,
    Tup,
    UNIT,
    boolean,
    compare,
    err,
    none,
    ok,
    ordering,
    some,
)

MODELS = {}


def model(*paths):
    def deco(f):
        for p in paths:
            MODELS[p] = f
        return f

    return deco


def deref(m, st, v):
    """Follow a reference value to its referent."""
    if isinstance(v, Ref):
        return m.load(st, v.loc)
    return v


def deref_all(m, st, v):
    while isinstance(v, Ref):
        v = m.load(st, v.loc)
    return v


def field_ref(m, st, r, i):
    """&(*r).field_i"""
    if isinstance(r, Ref):
        return Ref(m._sub(r.loc, i))
    raise AnalysisError("field_ref of %r" % (r,))


def need_adt(m, st, v, what):
    v = deref(m, st, v) if isinstance(v, Ref) else v
    if isinstance(v, Sym):
        v = m.concretize(st, v)
    if not isinstance(v, Adt):
        raise AnalysisError("%s: expected an enum value, got %r" % (what, v))
    return v


# ------------------------------------------------------------------------------- Option / Result / bool
@model("core::option::Option::<T>::ok_or")
def _ok_or(m, st, callee, args, t):
    o = need_adt(m, st, args[0], "ok_or")
    return ok(o.fields[0]) if o.variant == 1 else err(args[1])


@model("core::option::Option::<T>::unwrap", "core::option::Option::<T>::expect")
def _opt_unwrap(m, st, callee, args, t):
    o = need_adt(m, st, args[0], "unwrap")
    if o.variant == 1:
        return o.fields[0]
    return Outcome("panic", None, st, "Option::unwrap on None at %s:%d" % (t["span"]["file"], t["span"]["line"]))


@model("core::result::Result::<T, E>::unwrap", "core::result::Result::<T, E>::expect")
def _res_unwrap(m, st, callee, args, t):
    o = need_adt(m, st, args[0], "unwrap")
    if o.variant == 0:
        return o.fields[0]
    return Outcome("panic", None, st, "Result::unwrap on Err at %s:%d" % (t["span"]["file"], t["span"]["line"]))


@model("core::option::Option::<T>::is_some")
def _is_some(m, st, callee, args, t):
    return boolean(need_adt(m, st, args[0], "is_some").variant == 1)


@model("core::option::Option::<T>::is_none")
def _is_none(m, st, callee, args, t):
    return boolean(need_adt(m, st, args[0], "is_none").variant == 0)


@model("core::result::Result::<T, E>::is_ok")
def _is_ok(m, st, callee, args, t):
    return boolean(need_adt(m, st, args[0], "is_ok").variant == 0)


@model("core::result::Result::<T, E>::is_err")
def _is_err(m, st, callee, args, t):
    return boolean(need_adt(m, st, args[0], "is_err").variant == 1)


@model("core::result::Result::<T, E>::ok")
def _res_ok(m, st, callee, args, t):
    o = need_adt(m, st, args[0], "ok")
    return some(o.fields[0]) if o.variant == 0 else none()


@model("core::option::Option::<T>::as_ref", "core::option::Option::<T>::as_mut")
def _opt_as_ref(m, st, callee, args, t):
    o = need_adt(m, st, args[0], "as_ref")
    if o.variant == 0:
        return none()
    return some(Ref(m._sub(m._sub(args[0].loc, ("as", 1)), 0)))


@model("core::option::Option::<T>::get_or_insert", "core::option::Option::<T>::insert")
def _opt_get_or_insert(m, st, callee, args, t):
    r = args[0]
    if not isinstance(r, Ref) or r.loc[0] in ("val",):
        return None
    o = need_adt(m, st, r, callee["name"])
    if o.variant == 0 or callee["name"] == "insert":
        m.store(st, r.loc, some(args[1]))
    return Ref(m._sub(m._sub(r.loc, ("as", 1)), 0))


@model("core::option::Option::<T>::take")
def _opt_take(m, st, callee, args, t):
    r = args[0]
    if not isinstance(r, Ref) or r.loc[0] in ("val",):
        return None
    old = need_adt(m, st, r, "take")
    m.store(st, r.loc, none())
    return old


@model("core::mem::replace")
def _mem_replace(m, st, callee, args, t):
    r = args[0]
    if not isinstance(r, Ref) or r.loc[0] in ("val",):
        return None
    old = m.load(st, r.loc)
    m.store(st, r.loc, args[1])
    return old


@model("core::option::Option::<T>::replace")
def _opt_replace(m, st, callee, args, t):
    r = args[0]
    if not isinstance(r, Ref) or r.loc[0] in ("val",):
        return None
    old = need_adt(m, st, r, "replace")
    m.store(st, r.loc, some(args[1]))
    return old


@model("core::bool::<impl bool>::then_some")
def _then_some(m, st, callee, args, t):
    return some(args[1]) if m.truth(st, args[0]) else none()


@model("<core::result::Result<T, E> as core::ops::try_trait::Try>::branch")
def _res_branch(m, st, callee, args, t):
    r = need_adt(m, st, args[0], "Try::branch")
    if r.variant == 0:
        return Adt(CONTROLFLOW, 0, (r.fields[0],))
    return Adt(CONTROLFLOW, 1, (err(r.fields[0]),))


@model("<core::result::Result<T, F> as core::ops::try_trait::FromResidual<core::result::Result<core::convert::Infallible, E>>>::from_residual")
def _res_from_residual(m, st, callee, args, t):
    r = need_adt(m, st, args[0], "from_residual")
    a = callee["args"]
    if len(a) >= 3 and a[1] != a[2]:
        h = getattr(m.world, "error_conversion", None)
        if h is None:
            raise AnalysisError("`?` converts the error type %s into %s (From::from not modelled)" % (a[2], a[1]))
        return err(h(st, r.fields[0], a[2], a[1]))
    return err(r.fields[0])


@model("<core::option::Option<T> as core::ops::try_trait::Try>::branch")
def _opt_branch(m, st, callee, args, t):
    r = need_adt(m, st, args[0], "Try::branch")
    if r.variant == 1:
        return Adt(CONTROLFLOW, 0, (r.fields[0],))
    return Adt(CONTROLFLOW, 1, (none(),))


@model("<core::option::Option<T> as core::ops::try_trait::FromResidual<core::option::Option<core::convert::Infallible>>>::from_residual")
def _opt_from_residual(m, st, callee, args, t):
    return none()


# ------------------------------------------------------------------------------- comparisons
def _find_cmp_impl(m, trait, a_ty, b_ty, method):
    """Find the workspace impl body of `<A as Trait<B>>::method`."""
    cands = [
        "<%s as %s<%s>>::%s" % (a_ty, trait, b_ty, method),
        "<%s as %s>::%s" % (a_ty, trait, method),
    ]
    for c in cands:
        if c in m.prog.bodies:
            return m.prog.bodies[c]
    needle = "<impl %s<%s> for %s>::%s" % (trait, b_ty, a_ty, method)
    for k, b in m.prog.bodies.items():
        if k.endswith(needle):
            return b
    return None


def _scalar(v):
    return isinstance(v, (I, Sym)) or (isinstance(v, Adt) and not v.fields)


def _ref_cmp(op, trait, method):
    def f(m, st, callee, args, t):
        a = deref(m, st, deref(m, st, args[0]))
        b = deref(m, st, deref(m, st, args[1]))
        if _scalar(a) and _scalar(b) and not (isinstance(a, Adt) and a.ty not in (m.world.scalar_enums if hasattr(m.world, "scalar_enums") else ())):
            return boolean(compare(st, op, a, b, m.world))
        tys = callee["args"]
        body = _find_cmp_impl(m, trait, tys[0], tys[1], method) if len(tys) >= 2 else None
        if body is not None:
            return (INLINE, body, [deref(m, st, args[0]), deref(m, st, args[1])])
        if isinstance(a, Str) and isinstance(b, Str) and op in ("Eq", "Ne"):
            r = m.world.str_eq(st, a, b)
            return boolean(r if op == "Eq" else not r)
        raise AnalysisError("%s between %r and %r (no impl body found for %s)" % (method, a, b, callee["full"]))

    return f


for _op, _meth in (("Lt", "lt"), ("Le", "le"), ("Gt", "gt"), ("Ge", "ge")):
    MODELS["core::cmp::impls::<impl core::cmp::PartialOrd<&B> for &A>::%s" % _meth] = _ref_cmp(_op, "core::cmp::PartialOrd", _meth)
MODELS["core::cmp::impls::<impl core::cmp::PartialEq<&B> for &A>::eq"] = _ref_cmp("Eq", "core::cmp::PartialEq", "eq")
MODELS["core::cmp::impls::<impl core::cmp::PartialEq<&B> for &A>::ne"] = _ref_cmp("Ne", "core::cmp::PartialEq", "ne")


def _prim_cmp(op):
    def f(m, st, callee, args, t):
        a = deref(m, st, args[0])
        b = deref(m, st, args[1])
        return boolean(compare(st, op, a, b, m.world))

    return f


for _ty in ("u8", "u16", "u32", "u64", "usize", "i32", "i64", "isize", "char", "bool"):
    for _op, _meth in (("Lt", "lt"), ("Le", "le"), ("Gt", "gt"), ("Ge", "ge")):
        MODELS["core::cmp::impls::<impl core::cmp::PartialOrd for %s>::%s" % (_ty, _meth)] = _prim_cmp(_op)
    MODELS["core::cmp::impls::<impl core::cmp::PartialEq for %s>::eq" % _ty] = _prim_cmp("Eq")
    MODELS["core::cmp::impls::<impl core::cmp::PartialEq for %s>::ne" % _ty] = _prim_cmp("Ne")


def _prim_ord_cmp(m, st, callee, args, t):
    a = deref(m, st, args[0])
    b = deref(m, st, args[1])
    if compare(st, "Lt", a, b, m.world):
        return ordering(-1)
    return ordering(0 if compare(st, "Eq", a, b, m.world) else 1)


for _ty in ("u8", "u16", "u32", "u64", "usize", "i32", "i64", "isize", "char"):
    MODELS["core::cmp::impls::<impl core::cmp::Ord for %s>::cmp" % _ty] = _prim_ord_cmp


@model("<alloc::borrow::Cow<'a, B> as core::cmp::PartialEq<alloc::borrow::Cow<'b, C>>>::eq")
def _cow_eq(m, st, callee, args, t):
    a = deref_all(m, st, args[0])
    b = deref_all(m, st, args[1])
    return boolean(m.world.str_eq(st, a, b))


# ------------------------------------------------------------------------------- ranges
RANGE_INCL = "core::ops::range::RangeInclusive"


@model("core::ops::range::RangeInclusive::<Idx>::new")
def _ri_new(m, st, callee, args, t):
    return Adt(RANGE_INCL, 0, (args[0], args[1], boolean(False)))


@model("core::ops::range::RangeInclusive::<Idx>::start")
def _ri_start(m, st, callee, args, t):
    return field_ref(m, st, args[0], 0)


@model("core::ops::range::RangeInclusive::<Idx>::end")
def _ri_end(m, st, callee, args, t):
    return field_ref(m, st, args[0], 1)


@model("core::ops::range::RangeInclusive::<Idx>::contains")
def _ri_contains(m, st, callee, args, t):
    r = deref(m, st, args[0])
    x = deref_all(m, st, args[1])
    if not isinstance(r, Adt):
        raise AnalysisError("contains on %r" % (r,))
    lo, hi = r.fields[0], r.fields[1]
    if not compare(st, "Le", lo, x, m.world):
        return boolean(False)
    return boolean(compare(st, "Le", x, hi, m.world))


@model("core::ops::range::Range::<Idx>::contains")
def _r_contains(m, st, callee, args, t):
    # half-open: start <= x < end
    r = deref(m, st, args[0])
    x = deref_all(m, st, args[1])
    if not (isinstance(r, Adt) and len(r.fields) >= 2):
        raise AnalysisError("contains on %r" % (r,))
    lo, hi = r.fields[0], r.fields[1]
    if not compare(st, "Le", lo, x, m.world):
        return boolean(False)
    return boolean(compare(st, "Lt", x, hi, m.world))


@model("core::iter::range::<impl core::iter::traits::iterator::Iterator for core::ops::range::RangeInclusive<A>>::next")
def _ri_next(m, st, callee, args, t):
    r = deref(m, st, args[0])
    if not (isinstance(r, Adt) and all(isinstance(x, I) for x in r.fields)):
        raise AnalysisError("RangeInclusive::next on a non-concrete range %r" % (r,))
    lo, hi, ex = r.fields
    if ex.v or lo.v > hi.v:
        return none()
    if lo.v < hi.v:
        m.store(st, args[0].loc, Adt(RANGE_INCL, 0, (I(lo.v + 1, lo.ty), hi, ex)))
    else:
        m.store(st, args[0].loc, Adt(RANGE_INCL, 0, (lo, hi, boolean(True))))
    return some(lo)


@model("core::iter::range::<impl core::iter::traits::iterator::Iterator for core::ops::range::Range<A>>::next")
def _r_next(m, st, callee, args, t):
    """`for i in a..b` over a concrete half-open range."""
    r = deref(m, st, args[0])
    if not (isinstance(r, Adt) and len(r.fields) == 2 and all(isinstance(x, I) for x in r.fields)):
        return None
    lo, hi = r.fields
    if lo.v >= hi.v:
        return none()
    m.store(st, args[0].loc, Adt(r.ty, 0, (I(lo.v + 1, lo.ty), hi)))
    return some(lo)


@model("<I as core::iter::traits::collect::IntoIterator>::into_iter")
def _into_iter(m, st, callee, args, t):
    return args[0]


# ------------------------------------------------------------------------------- strings (content-preserving)
def _content(m, st, v):
    v = deref_all(m, st, v)
    if isinstance(v, Str):
        return v
    if isinstance(v, Opq) and v.kind == "buf":
        return m.world.buf_content(st, v)
    if isinstance(v, (Top, Sym)):
        return v
    raise AnalysisError("string content of %r" % (v,))


@model(
    "<alloc::borrow::Cow<'_, B> as core::ops::deref::Deref>::deref",
    "<alloc::string::String as core::ops::deref::Deref>::deref",
    "alloc::string::String::as_str",
    "<alloc::string::String as core::convert::AsRef<str>>::as_ref",
    "<str as core::convert::AsRef<str>>::as_ref",
    "<alloc::borrow::Cow<'_, T> as core::convert::AsRef<T>>::as_ref",
    "<alloc::borrow::Cow<'_, B> as core::borrow::Borrow<B>>::borrow",
)
def _str_deref(m, st, callee, args, t):
    return _content(m, st, args[0])


@model("core::convert::AsRef::as_ref")
def _as_ref_generic(m, st, callee, args, t):
    # generic `S: AsRef<str>`: content-preserving by contract for the string types this code uses
    v = deref_all(m, st, args[0])
    if isinstance(v, (Str, Opq)):
        return _content(m, st, v)
    raise AnalysisError("AsRef::as_ref on %r" % (v,))


@model(
    "core::convert::Into::into",
    "<T as core::convert::Into<U>>::into",
    "<T as core::convert::From<T>>::from",
    "alloc::string::<impl core::convert::From<alloc::string::String> for alloc::borrow::Cow<'a, str>>::from",
    "alloc::string::<impl core::convert::From<&'a str> for alloc::borrow::Cow<'a, str>>::from",
    "alloc::string::<impl core::convert::From<&'a alloc::string::String> for alloc::borrow::Cow<'a, str>>::from",
    "alloc::borrow::Cow::<'_, B>::into_owned",
    "<alloc::borrow::Cow<'_, B> as core::clone::Clone>::clone",
)
def _into(m, st, callee, args, t):
    v = args[0]
    if isinstance(v, Ref):
        v = deref_all(m, st, v)
    if isinstance(v, (Str, Opq, Top)):
        return v
    a = callee.get("orig_args") or []
    if len(a) >= 2 and a[0] == a[1]:
        return v
    raise AnalysisError("Into::into of %r (%s)" % (v, callee["orig_full"]))


@model("<alloc::string::String as core::convert::From<&str>>::from", "alloc::str::<impl alloc::borrow::ToOwned for str>::to_owned")
def _string_from(m, st, callee, args, t):
    # String::from(&str) and str::to_owned(): a new buffer holding a copy of the slice
    return m.world.new_buf(st, _content(m, st, args[0]))


@model("alloc::string::String::new")
def _string_new(m, st, callee, args, t):
    return m.world.new_buf(st, Str(("lit", "")))


@model("alloc::string::String::reserve")
def _reserve(m, st, callee, args, t):
    return UNIT


@model("alloc::string::String::len", "core::str::<impl str>::len")
def _len(m, st, callee, args, t):
    return m.world.str_len(st, deref_all(m, st, args[0]))


@model("core::str::<impl str>::is_empty", "alloc::string::String::is_empty")
def _is_empty(m, st, callee, args, t):
    v0 = deref_all(m, st, args[0])
    if isinstance(v0, Opq) and v0.kind == "lazy-run" and hasattr(m.world, "run_is_empty"):
        return m.world.run_is_empty(m, st, v0)
    v = deref_all(m, st, args[0])
    if isinstance(v, Opq) and v.kind == "buf" and hasattr(m.world, "buf_is_empty"):
        return m.world.buf_is_empty(m, st, v)
    return m.world.str_is_empty(st, _content(m, st, args[0]))


@model("alloc::string::String::push")
def _push(m, st, callee, args, t):
    return m.world.buf_push(m, st, args[0], args[1])


@model("alloc::string::String::pop")
def _pop(m, st, callee, args, t):
    return m.world.buf_pop(m, st, args[0])


@model("core::str::<impl str>::chars")
def _chars(m, st, callee, args, t):
    return Opq("chars", (_content(m, st, args[0]),))


@model("core::iter::traits::iterator::Iterator::enumerate")
def _enumerate(m, st, callee, args, t):
    return Opq("enumerate", (args[0],))


@model("<core::str::iter::Chars<'a> as core::iter::traits::iterator::Iterator>::next")
def _chars_next(m, st, callee, args, t):
    return m.world.chars_next(m, st, args[0])


@model("<core::iter::adapters::enumerate::Enumerate<I> as core::iter::traits::iterator::Iterator>::next")
def _enum_next(m, st, callee, args, t):
    return m.world.enumerate_next(m, st, args[0])


@model("core::iter::traits::iterator::Iterator::nth", "<core::iter::adapters::skip::Skip<I> as core::iter::traits::iterator::Iterator>::nth", "<core::str::iter::Chars<'a> as core::iter::traits::iterator::Iterator>::nth", "<core::str::iter::CharIndices<'a> as core::iter::traits::iterator::Iterator>::nth", "<core::iter::adapters::rev::Rev<I> as core::iter::traits::iterator::Iterator>::nth")
def _nth(m, st, callee, args, t):
    return m.world.iter_nth(m, st, args[0], args[1])


@model("core::str::<impl str>::find")
def _find(m, st, callee, args, t):
    return m.world.str_find(m, st, _content(m, st, args[0]), args[1])


@model("core::str::traits::<impl core::ops::index::Index<I> for str>::index", "<alloc::string::String as core::ops::index::Index<I>>::index")
def _str_index(m, st, callee, args, t):
    return m.world.str_slice(m, st, _content(m, st, args[0]), args[1], callee)


@model("core::str::<impl str>::contains")
def _str_contains(m, st, callee, args, t):
    h = getattr(m.world, "str_contains", None)
    if h is None:
        return None
    return h(m, st, _content(m, st, args[0]), args[1])


@model("alloc::str::<impl str>::replace")
def _str_replace(m, st, callee, args, t):
    h = getattr(m.world, "str_replace", None)
    if h is None:
        return None
    return h(m, st, _content(m, st, args[0]), args[1], args[2])


@model("alloc::string::String::split_off")
def _split_off(m, st, callee, args, t):
    """s.split_off(at): s keeps [..at], the result is [at..] — the world says what the two strings are."""
    h = getattr(m.world, "str_split_off", None)
    if h is None or not isinstance(args[0], Ref):
        return None
    r, _v = _innermost_ref(m, st, args[0])
    res = h(m, st, _content(m, st, args[0]), args[1])
    if res is None:
        return None
    head, tail = res
    m.store(st, r.loc, head)
    return tail


@model("alloc::string::String::replace_range")
def _replace_range(m, st, callee, args, t):
    """s.replace_range(range, with): the world decides what the string is afterwards."""
    h = getattr(m.world, "replace_range", None)
    if h is None or not isinstance(args[0], Ref):
        return None
    r, _v = _innermost_ref(m, st, args[0])
    new = h(m, st, _content(m, st, args[0]), args[1], _content(m, st, args[2]), callee)
    if new is None:
        return None
    m.store(st, r.loc, new)
    return UNIT


# ------------------------------------------------------------------------------- closures / fn values
@model("core::ops::function::Fn::call", "core::ops::function::FnMut::call_mut", "core::ops::function::FnOnce::call_once")
def _fn_call(m, st, callee, args, t):
    tup = args[1]
    if not isinstance(tup, Tup):
        raise AnalysisError("Fn::call with non-tuple args %r" % (tup,))
    return m.call_value(st, args[0], list(tup.fields), t)


# ------------------------------------------------------------------------------- misc
@model("core::char::methods::<impl char>::from_u32", "core::char::from_u32")
def _from_u32(m, st, callee, args, t):
    return m.world.char_from_u32(m, st, args[0])


@model("core::clone::Clone::clone")
def _clone_generic(m, st, callee, args, t):
    return deref(m, st, args[0])


# ------------------------------------------------------------------------------- combinators taking closures
def _with_post(m, st, fval, cargs, t, post):
    r = m.call_value(st, fval, cargs, t)
    if isinstance(r, tuple) and r and r[0] is INLINE:
        return (INLINE, r[1], r[2], post)
    if isinstance(r, Outcome):
        return r
    return post(m, st, r)


@model("core::result::Result::<T, E>::map_err")
def _map_err(m, st, callee, args, t):
    r = need_adt(m, st, args[0], "map_err")
    if r.variant == 0:
        return r
    return _with_post(m, st, args[1], [r.fields[0]], t, lambda mm, ss, v: err(v))


@model("core::result::Result::<T, E>::map")
def _res_map(m, st, callee, args, t):
    r = need_adt(m, st, args[0], "map")
    if r.variant == 1:
        return r
    return _with_post(m, st, args[1], [r.fields[0]], t, lambda mm, ss, v: ok(v))


@model("core::option::Option::<T>::map")
def _opt_map(m, st, callee, args, t):
    r = need_adt(m, st, args[0], "map")
    if r.variant == 0:
        return r
    return _with_post(m, st, args[1], [r.fields[0]], t, lambda mm, ss, v: some(v))


@model("core::result::Result::<T, E>::and_then")
def _res_and_then(m, st, callee, args, t):
    r = need_adt(m, st, args[0], "and_then")
    if r.variant == 1:
        return r
    return _with_post(m, st, args[1], [r.fields[0]], t, lambda mm, ss, v: v)


@model("core::option::Option::<T>::ok_or_else")
def _ok_or_else(m, st, callee, args, t):
    o = need_adt(m, st, args[0], "ok_or_else")
    if o.variant == 1:
        return ok(o.fields[0])
    return _with_post(m, st, args[1], [], t, lambda mm, ss, v: err(v))


@model("core::result::Result::<T, E>::unwrap_or", "core::option::Option::<T>::unwrap_or")
def _unwrap_or(m, st, callee, args, t):
    o = need_adt(m, st, args[0], "unwrap_or")
    good = 0 if o.ty == RESULT else 1
    return o.fields[0] if o.variant == good else args[1]


@model("core::result::Result::<T, E>::unwrap_or_default", "core::option::Option::<T>::unwrap_or_default")
def _unwrap_or_default(m, st, callee, args, t):
    o = need_adt(m, st, args[0], "unwrap_or_default")
    good = 0 if o.ty == RESULT else 1
    if o.variant == good:
        return o.fields[0]
    fr = st.frames[-1]
    dty = fr.body.locals[t["dest"]["l"]]["ty"]
    if dty == "bool":
        return boolean(False)
    raise AnalysisError("unwrap_or_default of type %s" % dty)


@model("core::result::Result::<T, E>::is_ok_and", "core::option::Option::<T>::is_some_and")
def _is_ok_and(m, st, callee, args, t):
    o = need_adt(m, st, args[0], "is_ok_and")
    good = 0 if o.ty == RESULT else 1
    if o.variant != good:
        return boolean(False)
    return _with_post(m, st, args[1], [o.fields[0]], t, lambda mm, ss, v: v)


# ------------------------------------------------------------------------------- integer helpers
def _checked(opname):
    def f(m, st, callee, args, t):
        a, b = args
        if isinstance(a, I) and isinstance(b, I):
            r = a.v - b.v if opname == "sub" else a.v + b.v
            from .interp import int_range

            lo, hi = int_range(a.ty)
            return some(I(r, a.ty)) if lo <= r <= hi else none()
        if isinstance(a, Sym) and isinstance(b, I) and opname == "sub":
            if compare(st, "Ge", a, b, m.world):
                return some(m.binop(st, "Sub", a, b))
            return none()
        return None

    return f


def _saturating_sub(m, st, callee, args, t):
    a, b = args
    if isinstance(a, I) and isinstance(b, I):
        return I(max(a.v - b.v, 0), a.ty)
    if isinstance(a, Sym) and isinstance(b, I):
        if compare(st, "Ge", a, b, m.world):
            return m.binop(st, "Sub", a, b)
        return I(0, a.ty)
    return None


for _ty in ("usize", "u32", "u64", "u8", "u16"):
    MODELS["core::num::<impl %s>::checked_sub" % _ty] = _checked("sub")
    MODELS["core::num::<impl %s>::checked_add" % _ty] = _checked("add")
    MODELS["core::num::<impl %s>::saturating_sub" % _ty] = _saturating_sub


@model("core::option::Option::<T>::and_then")
def _opt_and_then(m, st, callee, args, t):
    r = need_adt(m, st, args[0], "and_then")
    if r.variant == 0:
        return r
    return _with_post(m, st, args[1], [r.fields[0]], t, lambda mm, ss, v: v)


@model("core::option::Option::<T>::filter")
def _opt_filter(m, st, callee, args, t):
    r = need_adt(m, st, args[0], "filter")
    if r.variant == 0:
        return r
    inner = r.fields[0]
    return _with_post(m, st, args[1], [Ref(("val", inner))], t, lambda mm, ss, v: r if mm.truth(ss, v) else none())


@model("core::option::Option::<T>::copied", "core::option::Option::<T>::cloned")
def _opt_copied(m, st, callee, args, t):
    r = need_adt(m, st, args[0], "copied")
    if r.variant == 0:
        return r
    return some(deref(m, st, r.fields[0]))


@model("core::iter::traits::iterator::Iterator::skip")
def _skip(m, st, callee, args, t):
    return Opq("skip", (args[0], args[1]))


@model("core::iter::traits::collect::IntoIterator::into_iter")
def _into_iter_generic(m, st, callee, args, t):
    # `I: IntoIterator` instantiated with an iterator: identity (std: impl<I: Iterator> IntoIterator for I)
    v = args[0]
    if isinstance(v, Opq) and v.kind in ITER_KINDS:
        return v
    if isinstance(v, Ref) and _known_iter(m, st, v):
        return v  # `&mut I` is itself an iterator (std: impl<I: Iterator> Iterator for &mut I)
    return None


def _innermost_ref(m, st, r):
    """Follow `&mut &mut … It` down to the reference that points at the iterator value itself."""
    while isinstance(r, Ref):
        v = m.load(st, r.loc)
        if isinstance(v, Ref):
            r = v
        else:
            return r, v
    return r, r


@model("core::iter::traits::iterator::Iterator::next")
def _next_generic(m, st, callee, args, t):
    ref, it = _innermost_ref(m, st, args[0])
    if isinstance(it, Opq) and it.kind == "chars":
        return m.world.chars_next(m, st, ref)
    if isinstance(it, Opq) and it.kind == "enumerate":
        return m.world.enumerate_next(m, st, ref)
    if isinstance(it, Opq) and it.kind == "char_indices":
        return m.world.char_indices_next(m, st, ref)
    if isinstance(it, Opq) and it.kind == "skip":
        h = getattr(m.world, "skip_next", None)
        if h is not None:
            return h(m, st, ref)
    if isinstance(it, Opq) and it.kind == "slice-iter":
        return _slice_iter_next(m, st, callee, args, t)
    if isinstance(it, Adt) and it.ty.startswith("core::ops::range::RangeInclusive") and len(it.fields) == 3:
        return _ri_next(m, st, callee, [ref], t) if all(isinstance(x, I) for x in it.fields) else None
    if isinstance(it, Adt) and it.ty.startswith("core::ops::range::Range") and len(it.fields) == 2:
        return _r_next(m, st, callee, [ref], t)
    if isinstance(it, Opq) and it.kind == "peekable" and isinstance(ref, Ref):
        inner, peeked = it.data
        if peeked is not None:
            m.store(st, ref.loc, Opq("peekable", (inner, None)))
            return peeked
        return _next_generic(m, st, callee, [Ref(m._sub(ref.loc, ("opq", 0)))], t)
    if isinstance(it, Opq) and it.kind == "fsplit":
        return _split_next(m, st, callee, args, t)
    if isinstance(it, Opq) and it.kind == "filter":
        return _filter_next(m, st, callee, args, t)
    if isinstance(it, Opq) and it.kind == "map":
        inner, f = it.data
        # the inner iterator lives inside the adaptor value: step it through a reference to that field
        r = _next_generic(m, st, callee, [Ref(m._sub(ref.loc, ("opq", 0)))], t) if isinstance(ref, Ref) else None
        if r is None or isinstance(r, Outcome):
            return r
        r = need_adt(m, st, r, "Map::next")
        if r.variant == 0:
            return none()
        return _with_post(m, st, f, [r.fields[0]], t, lambda mm, ss, v: some(v))
    h = getattr(m.world, "iter_next", None)
    if h is not None:
        return h(m, st, ref, it)
    return None


@model("core::cmp::PartialEq::ne")
def _default_ne(m, st, callee, args, t):
    """The provided method `ne` = !eq, dispatched to the type's own eq."""
    a = deref(m, st, args[0])
    b = deref(m, st, args[1])
    if isinstance(a, Sym) and not isinstance(a.name, str) and a.ty in m.prog.adts:
        a = m.concretize(st, a)
    if isinstance(b, Sym) and b.ty in m.prog.adts:
        b = m.concretize(st, b)
    if _scalar(a) and _scalar(b):
        return boolean(compare(st, "Ne", a, b, m.world))
    st_ty = callee.get("self_ty") or (callee["args"][0] if callee.get("args") else None)
    body = _find_cmp_impl(m, "core::cmp::PartialEq", st_ty, callee["args"][1] if len(callee.get("args", [])) > 1 else st_ty, "eq") if st_ty else None
    if body is not None:
        return (INLINE, body, [args[0], args[1]], lambda mm, ss, v: boolean(not mm.truth(ss, v)))
    if isinstance(a, Str) and isinstance(b, Str):
        return boolean(not m.world.str_eq(st, a, b))
    return None


@model("core::str::<impl str>::char_indices")
def _char_indices(m, st, callee, args, t):
    return Opq("char_indices", (_content(m, st, args[0]),))


@model("<core::str::iter::CharIndices<'a> as core::iter::traits::iterator::Iterator>::next")
def _char_indices_next(m, st, callee, args, t):
    return m.world.char_indices_next(m, st, args[0])


@model("core::str::<impl str>::ends_with")
def _ends_with(m, st, callee, args, t):
    h = getattr(m.world, "str_ends_with", None)
    if h is None:
        return None
    return h(m, st, _content(m, st, args[0]) if not (isinstance(deref_all(m, st, args[0]), Opq)) else deref_all(m, st, args[0]), args[1])


@model("core::str::<impl str>::starts_with")
def _starts_with(m, st, callee, args, t):
    h = getattr(m.world, "str_starts_with", None)
    if h is None:
        return None
    return h(m, st, deref_all(m, st, args[0]), args[1])


# ------------------------------------------------------------------------------- small collections (opaque)
@model("alloc::vec::Vec::<T>::new", "alloc::vec::Vec::<T>::with_capacity")
def _vec_new(m, st, callee, args, t):
    return Opq("vec", ())


@model("alloc::vec::Vec::<T, A>::push")
def _vec_push(m, st, callee, args, t):
    h = getattr(m.world, "vec_push", None)
    if h is not None:
        return h(m, st, args[0], args[1])
    return UNIT


@model("core::slice::<impl [T]>::contains", "alloc::vec::Vec::<T, A>::contains")
def _slice_contains(m, st, callee, args, t):
    h = getattr(m.world, "collection_contains", None)
    if h is not None:
        return h(m, st, args[0], args[1])
    return None


@model("<alloc::vec::Vec<T, A> as core::ops::deref::Deref>::deref", "<alloc::vec::Vec<T, A> as core::ops::deref::DerefMut>::deref_mut")
def _vec_deref(m, st, callee, args, t):
    v = deref_all(m, st, args[0])
    if isinstance(v, Opq) and v.kind == "vec":
        return v
    return None


@model("alloc::string::String::with_capacity")
def _string_with_capacity(m, st, callee, args, t):
    return m.world.new_buf(st, Str(("lit", "")))


@model("alloc::string::String::push_str")
def _push_str(m, st, callee, args, t):
    h = getattr(m.world, "buf_push_str", None)
    if h is None:
        return None
    v = deref_all(m, st, args[1])
    if isinstance(v, Opq) and v.kind == "lazy-run":
        # a run of a split that has not been read yet: it is read, and pushed, character by character now
        return (INLINE, m.prog.bodies["pv::synth::push_run"], [args[0], v], None)
    return h(m, st, args[0], _content(m, st, args[1]))


@model("core::char::methods::<impl char>::is_ascii")
def _is_ascii(m, st, callee, args, t):
    c = deref(m, st, args[0])
    if isinstance(c, (I, Sym)) and not (isinstance(c, Sym) and isinstance(c.name, tuple) and c.name and c.name[0] in ("ch", "popped")):
        return boolean(compare(st, "Le", c, I(0x7F, "char"), m.world))
    return None


@model("<core::iter::adapters::skip::Skip<I> as core::iter::traits::iterator::Iterator>::next")
def _skip_next(m, st, callee, args, t):
    h = getattr(m.world, "skip_next", None)
    if h is None:
        return None
    return h(m, st, args[0])


# ------------------------------------------------------------------------------- pattern models
import re as _re

PATTERN_MODELS = []


def _string_cmp(neg):
    def f(m, st, callee, args, t):
        a = deref_all(m, st, args[0])
        b = deref_all(m, st, args[1])
        if isinstance(a, Opq) and a.kind == "buf":
            a = m.world.buf_content(st, a)
        if isinstance(b, Opq) and b.kind == "buf":
            b = m.world.buf_content(st, b)
        if isinstance(a, Str) and isinstance(b, Str):
            r = m.world.str_eq(st, a, b)
            return boolean((not r) if neg else r)
        return None

    return f


_STRTY = r"(alloc::string::String|str|&'?[a-z_]* ?str|alloc::borrow::Cow<'[a-z_]+, str>)"
PATTERN_MODELS.append((_re.compile(r"^<%s as core::cmp::PartialEq(<%s>)?>::eq$" % (_STRTY, _STRTY)), _string_cmp(False)))
PATTERN_MODELS.append((_re.compile(r"^<%s as core::cmp::PartialEq(<%s>)?>::ne$" % (_STRTY, _STRTY)), _string_cmp(True)))
PATTERN_MODELS.append((_re.compile(r"^alloc::string::<impl core::cmp::PartialEq<.*> for .*>::eq$"), _string_cmp(False)))
PATTERN_MODELS.append((_re.compile(r"^alloc::string::<impl core::cmp::PartialEq<.*> for .*>::ne$"), _string_cmp(True)))
PATTERN_MODELS.append((_re.compile(r"^core::str::traits::<impl core::cmp::PartialEq for str>::eq$"), _string_cmp(False)))
PATTERN_MODELS.append((_re.compile(r"^core::str::traits::<impl core::cmp::PartialEq for str>::ne$"), _string_cmp(True)))


def pattern_model(path):
    for rx, h in PATTERN_MODELS:
        if rx.match(path):
            return h
    return None


# ------------------------------------------------------------------------------- generic Try (inside std generics)
def coerce_try_output(v, ty):
    """`R::from_output(x)` produced in generic std code, once the concrete R is known from a type string."""
    if isinstance(v, Opq) and v.kind == "from_output":
        x = v.data[0]
        if ty.startswith(RESULT):
            return ok(x)
        if ty.startswith(OPTION):
            return some(x)
        if ty.startswith(CONTROLFLOW):
            return Adt(CONTROLFLOW, 0, (x,))
    return v


@model("core::ops::try_trait::Try::branch")
def _try_branch_generic(m, st, callee, args, t):
    v = args[0]
    if isinstance(v, Sym):
        v = m.concretize(st, v)
    if isinstance(v, Opq) and v.kind == "from_output":
        return Adt(CONTROLFLOW, 0, (v.data[0],))
    if isinstance(v, Adt) and v.ty == RESULT:
        return _res_branch(m, st, callee, [v], t)
    if isinstance(v, Adt) and v.ty == OPTION:
        return _opt_branch(m, st, callee, [v], t)
    if isinstance(v, Adt) and v.ty == CONTROLFLOW:
        payload = v.fields[0] if v.fields else UNIT  # constants of ControlFlow<()> carry no explicit payload
        if v.variant == 0:
            return Adt(CONTROLFLOW, 0, (payload,))
        return Adt(CONTROLFLOW, 1, (Adt(CONTROLFLOW, 1, (payload,)),))
    return None


@model("<core::ops::control_flow::ControlFlow<B, C> as core::ops::try_trait::Try>::branch")
def _cf_branch(m, st, callee, args, t):
    return _try_branch_generic(m, st, callee, args, t)


@model("core::ops::try_trait::Try::from_output")
def _from_output_generic(m, st, callee, args, t):
    return Opq("from_output", (args[0],))


@model("<core::result::Result<T, E> as core::ops::try_trait::Try>::from_output")
def _res_from_output(m, st, callee, args, t):
    return ok(args[0])


@model("<core::option::Option<T> as core::ops::try_trait::Try>::from_output")
def _opt_from_output(m, st, callee, args, t):
    return some(args[0])


@model("<core::ops::control_flow::ControlFlow<B, C> as core::ops::try_trait::Try>::from_output")
def _cf_from_output(m, st, callee, args, t):
    return Adt(CONTROLFLOW, 0, (args[0],))


@model("core::ops::try_trait::FromResidual::from_residual", "<core::ops::control_flow::ControlFlow<B, C> as core::ops::try_trait::FromResidual<core::ops::control_flow::ControlFlow<B, core::convert::Infallible>>>::from_residual")
def _from_residual_generic(m, st, callee, args, t):
    r = args[0]
    if isinstance(r, Adt) and r.ty == RESULT:
        return err(r.fields[0])
    if isinstance(r, Adt) and r.ty == OPTION:
        return none()
    if isinstance(r, Adt) and r.ty == CONTROLFLOW:
        return Adt(CONTROLFLOW, 1, (r.fields[0],))
    return None


def _structural_eq(m, st, a, b):
    a = deref_all(m, st, a)
    b = deref_all(m, st, b)
    if isinstance(a, Sym) and a.ty not in ("bool",) and not a.ty in __import__("pv.interp", fromlist=["INT_BITS"]).INT_BITS:
        a = m.concretize(st, a)
    if isinstance(b, Sym) and b.ty not in ("bool",) and not b.ty in __import__("pv.interp", fromlist=["INT_BITS"]).INT_BITS:
        b = m.concretize(st, b)
    if isinstance(a, Adt) and isinstance(b, Adt):
        if a.variant != b.variant:
            return False
        if len(a.fields) != len(b.fields):
            # a constant of an enum with a zero-sized payload is exported without the payload
            fa = [x for x in a.fields if x != UNIT]
            fb = [x for x in b.fields if x != UNIT]
            if fa or fb:
                return False
            return True
        return all(_structural_eq(m, st, x, y) for x, y in zip(a.fields, b.fields))
    if isinstance(a, Tup) and isinstance(b, Tup):
        return len(a.fields) == len(b.fields) and all(_structural_eq(m, st, x, y) for x, y in zip(a.fields, b.fields))
    if isinstance(a, Str) and isinstance(b, Str):
        return m.world.str_eq(st, a, b)
    if _scalar(a) and _scalar(b):
        return compare(st, "Eq", a, b, m.world)
    raise AnalysisError("structural equality of %r and %r" % (a, b))


def _derived_eq(neg):
    def f(m, st, callee, args, t):
        r = _structural_eq(m, st, args[0], args[1])
        return boolean((not r) if neg else r)

    return f


for _t in ("core::ops::control_flow::ControlFlow<B, C>", "core::option::Option<T>", "core::result::Result<T, E>", "core::cmp::Ordering"):
    MODELS["<%s as core::cmp::PartialEq>::eq" % _t] = _derived_eq(False)
    MODELS["<%s as core::cmp::PartialEq>::ne" % _t] = _derived_eq(True)


@model("core::iter::traits::iterator::Iterator::map")
def _iter_map(m, st, callee, args, t):
    return Opq("map", (args[0], args[1]))


@model("<core::iter::adapters::map::Map<I, F> as core::iter::traits::iterator::Iterator>::next")
def _map_next(m, st, callee, args, t):
    return _next_generic(m, st, callee, args, t)


@model("core::iter::traits::iterator::Iterator::rev")
def _iter_rev(m, st, callee, args, t):
    h = getattr(m.world, "iter_rev", None)
    if h is not None:
        return h(m, st, args[0])
    return None


@model("<core::iter::adapters::rev::Rev<I> as core::iter::traits::iterator::Iterator>::next")
def _rev_next(m, st, callee, args, t):
    return _next_generic(m, st, callee, args, t)


@model("<core::str::iter::Chars<'a> as core::iter::traits::double_ended::DoubleEndedIterator>::next_back", "<core::str::iter::CharIndices<'a> as core::iter::traits::double_ended::DoubleEndedIterator>::next_back")
def _chars_next_back(m, st, callee, args, t):
    h = getattr(m.world, "iter_next_back", None)
    if h is None:
        return None
    ref, it = _innermost_ref(m, st, args[0])
    return h(m, st, ref, it)


@model("core::str::<impl str>::split", "core::str::<impl str>::split_terminator")
def _str_split(m, st, callee, args, t):
    h = getattr(m.world, "str_split", None)
    if h is None:
        return None
    return h(m, st, _content(m, st, args[0]), args[1], callee["name"])


@model("<core::str::iter::Split<'a, P> as core::iter::traits::iterator::Iterator>::next", "<core::str::iter::SplitTerminator<'a, P> as core::iter::traits::iterator::Iterator>::next")
def _split_next(m, st, callee, args, t):
    ref, it = _innermost_ref(m, st, args[0])
    if isinstance(it, Opq) and it.kind == "fsplit" and isinstance(ref, Ref):
        return m.world.split_next(m, st, ref, it)
    return None


@model("core::iter::traits::iterator::Iterator::filter")
def _filter(m, st, callee, args, t):
    if not _known_iter(m, st, args[0]):
        return None
    return Opq("filter", (args[0], args[1]))


@model("<core::iter::adapters::filter::Filter<I, P> as core::iter::traits::iterator::Iterator>::next")
def _filter_next(m, st, callee, args, t):
    ref, it = _innermost_ref(m, st, args[0])
    if isinstance(it, Opq) and it.kind == "filter" and isinstance(ref, Ref):
        return (INLINE, m.prog.bodies["pv::synth::filter_next"], [Ref(m._sub(ref.loc, ("opq", 0))), Ref(m._sub(ref.loc, ("opq", 1)))], None)
    return None


@model("core::str::<impl str>::strip_suffix")
def _strip_suffix(m, st, callee, args, t):
    h = getattr(m.world, "str_strip_suffix", None)
    if h is None:
        return None
    return h(m, st, _content(m, st, args[0]), args[1])


@model("core::str::<impl str>::strip_prefix")
def _strip_prefix(m, st, callee, args, t):
    h = getattr(m.world, "str_strip_prefix", None)
    if h is None:
        return None
    return h(m, st, _content(m, st, args[0]), args[1])


@model("core::str::<impl str>::split_once", "core::str::<impl str>::rsplit_once")
def _split_once(m, st, callee, args, t):
    h = getattr(m.world, "str_split_once", None)
    if h is None:
        return None
    return h(m, st, _content(m, st, args[0]), args[1], callee["name"])


@model("core::str::<impl str>::split_at")
def _split_at(m, st, callee, args, t):
    h = getattr(m.world, "split_at", None)
    if h is None:
        return None
    return h(m, st, _content(m, st, args[0]), args[1])


@model("core::iter::traits::iterator::Iterator::find")
def _iter_find(m, st, callee, args, t):
    h = getattr(m.world, "iter_find", None)
    if h is None:
        return None
    return h(m, st, args[0], args[1])


@model("alloc::slice::<impl [T]>::concat", "alloc::str::<impl [S]>::concat", "alloc::slice::<impl [T]>::join")
def _slice_concat(m, st, callee, args, t):
    h = getattr(m.world, "concat", None)
    v = deref_all(m, st, args[0])
    if h is None or not (isinstance(v, Opq) and v.kind == "array") or callee["name"] != "concat":
        return None
    return h(m, st, list(v.data))


# ---- internal iteration: interpreted as the loop around next() it stands for (pv/synth.py)
ITER_KINDS = ("chars", "char_indices", "enumerate", "skip", "rev", "map", "lcur", "slice-iter", "fsplit", "filter", "skip_while", "peekable")


def _known_iter(m, st, v):
    v = deref_all(m, st, v)
    return isinstance(v, Opq) and v.kind in ITER_KINDS


def _char_source(m, st, v):
    """Something String::extend knows how to drain: a known iterator or a flat_map over one."""
    if _known_iter(m, st, v):
        return True
    v = deref_all(m, st, v)
    return isinstance(v, Opq) and v.kind == "flat_map"


@model("<alloc::string::String as core::iter::traits::collect::Extend<char>>::extend")
def _string_extend(m, st, callee, args, t):
    it = deref_all(m, st, args[1])
    if isinstance(it, Opq) and it.kind == "flat_map":
        return (INLINE, m.prog.bodies["pv::synth::string_extend_flat_map"], [args[0], it.data[0], it.data[1]], None)
    if not _known_iter(m, st, args[1]):
        return None
    return (INLINE, m.prog.bodies["pv::synth::string_extend_chars"], [args[0], args[1]], None)


@model("core::iter::traits::iterator::Iterator::for_each")
def _for_each(m, st, callee, args, t):
    if not _known_iter(m, st, args[0]):
        return None
    return (INLINE, m.prog.bodies["pv::synth::for_each"], [args[1], args[0]], None)


@model("<alloc::string::String as core::iter::traits::collect::FromIterator<char>>::from_iter")
def _string_from_iter(m, st, callee, args, t):
    if not _char_source(m, st, args[0]):
        return None
    return (INLINE, m.prog.bodies["pv::synth::string_from_chars"], [args[0]], None)


@model("core::iter::traits::iterator::Iterator::collect")
def _collect(m, st, callee, args, t):
    fr = st.frames[-1]
    dty = fr.body.locals[t["dest"]["l"]]["ty"] if not t["dest"]["p"] else "?"
    if dty.startswith("core::result::Result<alloc::string::String,") and _known_iter(m, st, args[0]):
        return (INLINE, m.prog.bodies["pv::synth::result_string_from_results"], [args[0]], None)
    if dty == "alloc::string::String" and _char_source(m, st, args[0]):
        return (INLINE, m.prog.bodies["pv::synth::string_from_chars"], [args[0]], None)
    return None


@model("core::iter::traits::iterator::Iterator::peekable")
def _peekable(m, st, callee, args, t):
    if not _known_iter(m, st, args[0]):
        return None
    return Opq("peekable", (args[0], None))


@model("core::iter::adapters::peekable::Peekable::<I>::peek")
def _peek(m, st, callee, args, t):
    """Peekable::peek: the next element is fetched from the inner iterator once and kept."""
    ref, it = _innermost_ref(m, st, args[0])
    if not (isinstance(it, Opq) and it.kind == "peekable" and isinstance(ref, Ref)):
        return None

    def answer(mm, ss):
        cur = mm.load(ss, ref.loc)
        o = cur.data[1]
        if isinstance(o, Adt) and o.variant == 0:
            return none()
        return some(Ref(mm._sub(mm._sub(mm._sub(ref.loc, ("opq", 1)), ("as", 1)), 0)))

    if it.data[1] is not None:
        return answer(m, st)

    def finish(mm, ss, r):
        cur = mm.load(ss, ref.loc)
        mm.store(ss, ref.loc, Opq("peekable", (cur.data[0], r)))
        return answer(mm, ss)

    r = _next_generic(m, st, callee, [Ref(m._sub(ref.loc, ("opq", 0)))], t)
    if r is None or isinstance(r, Outcome):
        return r
    if isinstance(r, tuple) and r and r[0] is INLINE:
        post0 = r[3]
        return (INLINE, r[1], r[2], lambda mm, ss, v: finish(mm, ss, post0(mm, ss, v) if post0 else v))
    return finish(m, st, r)


@model("core::iter::traits::iterator::Iterator::flat_map")
def _flat_map(m, st, callee, args, t):
    if not _known_iter(m, st, args[0]):
        return None
    return Opq("flat_map", (args[0], args[1]))


@model("core::iter::traits::iterator::Iterator::by_ref")
def _by_ref(m, st, callee, args, t):
    return args[0]


# ------------------------------------------------------------------------------- value-preserving conversions
@model("core::char::convert::<impl core::convert::From<char> for u32>::from", "core::char::convert::<impl core::convert::From<u8> for char>::from", "core::convert::num::<impl core::convert::From<u8> for u32>::from", "core::convert::num::<impl core::convert::From<u16> for u32>::from", "core::convert::num::<impl core::convert::From<u32> for u64>::from", "core::convert::num::<impl core::convert::From<u32> for usize>::from")
def _widening_from(m, st, callee, args, t):
    fr = st.frames[-1]
    to_ty = fr.body.locals[t["dest"]["l"]]["ty"] if not t["dest"]["p"] else "u32"
    v = args[0]
    return m.cast(st, "IntToInt", v, getattr(v, "ty", "u32"), to_ty)


@model("core::array::<impl core::ops::index::Index<I> for [T; N]>::index", "core::array::<impl core::ops::index::Index<core::ops::range::RangeFull> for [T; N]>::index")
def _array_index_full(m, st, callee, args, t):
    # `&array[..]`: the same elements, as a slice
    r = deref(m, st, args[1]) if len(args) > 1 else None
    if isinstance(r, Adt) and r.ty.endswith("RangeFull"):
        return args[0]
    return None


# ------------------------------------------------------------------------------- slices / arrays with known elements
@model("core::slice::<impl [T]>::iter")
def _slice_iter(m, st, callee, args, t):
    v = deref_all(m, st, args[0])
    if isinstance(v, Opq) and v.kind == "array":
        return Opq("slice-iter", (v, 0))
    if isinstance(v, Opq) and v.kind == "static":
        arr = m.world.static_array(m, st, v.data[0]) if hasattr(m.world, "static_array") else None
        if arr is not None:
            return Opq("slice-iter", (arr, 0))
    h = getattr(m.world, "slice_iter", None)
    if h is not None:
        return h(m, st, args[0], v)
    return None


@model("<core::slice::iter::Iter<'a, T> as core::iter::traits::iterator::Iterator>::next")
def _slice_iter_next(m, st, callee, args, t):
    ref, it = _innermost_ref(m, st, args[0])
    if isinstance(it, Opq) and it.kind == "slice-iter" and isinstance(it.data[0], Opq) and it.data[0].kind == "array":
        arr, i = it.data
        elems = arr.data
        if i >= len(elems):
            return none()
        m.store(st, ref.loc, Opq("slice-iter", (arr, i + 1)))
        return some(Ref(("val", elems[i])))
    h = getattr(m.world, "iter_next", None)
    if h is not None:
        return h(m, st, ref, it)
    return None
