"""Obligations, violations, known findings and the evidence file of one check run."""
import json
import os
import time

VERIF = os.path.dirname(os.path.dirname(os.path.abspath(__file__)))
KNOWN = os.path.join(VERIF, "known_findings.json")


def load_known():
    try:
        with open(KNOWN) as fh:
            return json.load(fh)
    except OSError:
        return {"findings": [], "fixed": []}


class Report:
    def __init__(self, pid, tier, explanation, level="other"):
        self.pid = pid
        self.tier = tier
        self.level = level
        self.explanation = explanation
        self.t0 = time.time()
        self.obligations = []  # dict(rule, instance, ok, detail, where)
        self.violations = []  # dict(key, text, detail)
        self.samples = []
        self.assumptions = []
        self.extra = {}
        self.counts = {}
        self.not_decided = []
        self.analysed = {"functions": set(), "call_sites": 0}

    # ------------------------------------------------------------------ recording
    def fn(self, *keys):
        self.analysed["functions"].update(keys)

    def ob(self, rule, instance, ok, detail="", where="", key=None, sample=False):
        """Record one obligation. A failed obligation is a violation keyed without line numbers."""
        self.obligations.append({"rule": rule, "instance": instance, "ok": bool(ok), "detail": detail, "where": where})
        if sample and len(self.samples) < 12:
            self.samples.append({"rule": rule, "instance": instance, "ok": bool(ok), "detail": detail, "where": where})
        if not ok:
            self.violation(key or "%s|%s" % (rule, instance), "%s: %s %s" % (rule, instance, detail), {"rule": rule, "instance": instance, "detail": detail, "where": where})
        return ok

    def include(self, sub, label):
        """Adopt the obligations of a check this property's behaviour depends on (the leaf it treats as given):
        a failure there is a failure here, keyed `dep|<label>|<original key>`."""
        for o in sub.obligations:
            self.obligations.append(dict(o, rule="dep %s: %s" % (label, o["rule"])))
        for v in sub.violations:
            k = v["key"].split("|", 1)[1] if "|" in v["key"] else v["key"]
            self.violation("dep|%s|%s" % (label, k), "dependency %s — %s" % (label, v["text"]), v["detail"])
        self.analysed["functions"].update(sub.analysed["functions"])

    def violation(self, key, text, detail=None):
        self.violations.append({"key": "%s|%s" % (self.pid, key), "text": text, "detail": detail or {}})

    def analysis_error(self, rule, instance, err, where=""):
        self.ob(rule, instance, False, "analysis-error: %s" % err, where, key="analysis-error|%s|%s" % (rule, instance))

    def undecided(self, rule, instance, err, where=""):
        """A rule that goes beyond the always-on ones could not follow this tree's code: no verdict here, and no
        alarm — the evidence says which rule stood down and why (the always-on rules still apply)."""
        self.not_decided.append("%s / %s: not decided on this tree (%s)" % (rule, instance, str(err)[:300]))
        self.extra.setdefault("stood_down", []).append({"rule": rule, "instance": instance, "why": str(err)[:300], "where": where})

    def floor(self, what, n, floor):
        """Fail closed when a rule matched fewer instances than counted by hand on the pinned tree."""
        self.counts[what] = n
        self.ob("floor", what, n >= floor, "matched %d, floor %d" % (n, floor), key="floor|%s" % what)

    def sample(self, s):
        if len(self.samples) < 12:
            self.samples.append(s)

    # ------------------------------------------------------------------ finishing
    def finish(self):
        known = load_known()
        kmap = {f["key"]: f for f in known.get("findings", []) if f.get("property") == self.pid}
        lines = []
        new = []
        seen_known = set()
        for v in self.violations:
            if v["key"] in kmap:
                if v["key"] not in seen_known:
                    seen_known.add(v["key"])
                    lines.append("KNOWN-FINDING: property=%s %s" % (self.pid, kmap[v["key"]]["what"]))
            else:
                new.append(v)
        no_ev = bool(os.environ.get("PV_NO_EVIDENCE"))
        rdir = os.path.join(VERIF, "evidence", "replay") if not no_ev else os.path.join(os.environ.get("PV_SCRATCH", "/var/tmp"), "pv-replay-%d" % os.getpid())
        os.makedirs(rdir, exist_ok=True)
        # remove stale replay files of this property
        for f in os.listdir(rdir):
            if f.startswith(self.pid + "-"):
                os.unlink(os.path.join(rdir, f))
        for i, v in enumerate(new):
            path = os.path.join(rdir, "%s-%d.json" % (self.pid, i))
            with open(path, "w") as fh:
                json.dump({"property": self.pid, "key": v["key"], "text": v["text"], "detail": v["detail"]}, fh, indent=1, default=str)
            note = ""
            try:
                from . import mir

                hit = ["%s is %s in this tree" % (c, a) for c, a in mir.RENAMED.items() if c in v["text"] or c in v["key"]]
                if hit:
                    note = " [" + "; ".join(hit[:3]) + "]"
            except Exception:  # pragma: no cover
                pass
            lines.append("VIOLATION property=%s replay=%s key=%s :: %s%s" % (self.pid, path, v["key"], v["text"], note))
        n_ob = len(self.obligations)
        n_ok = sum(1 for o in self.obligations if o["ok"])
        distinct = len({(o["rule"], o["instance"]) for o in self.obligations})
        cov = {
            "explanation": self.explanation,
            "obligations": n_ob,
            "discharged": n_ok,
            "evaluations": max(n_ob, 1),
            "distinct_nontrivial": max(distinct, 0),
            "rule": "one obligation per (rule, instance) enumerated from the exported MIR/type facts of /repo's current tree; distinct = distinct (rule, instance) pairs",
            "samples": self.samples or [o for o in self.obligations[:5]],
            "functions_analysed": len(self.analysed["functions"]),
            "functions": sorted(self.analysed["functions"])[:60],
            "rule_instance_counts": self.counts,
            "known_findings_matched": sorted(seen_known),
            "not_decided": self.not_decided,
            "trusted_base": ["rustc MIR construction and callee resolution", "pv model table of std items (pv/models.py)"],
            "checker_cmd": "./check %s --tier %s" % (self.pid, self.tier),
        }
        from . import mir

        if mir.RENAMED:
            cov["helpers_located_by_role"] = {"note": "these private helpers are not at the path the rules name; each was located by its role (pv/roles.py) and is reported under the canonical path", "canonical_to_actual": dict(mir.RENAMED)}
        cov.update(self.extra)
        ev = {
            "property_id": self.pid,
            "tier": self.tier,
            "seed": int(os.environ.get("VERIF_SEED", "0") or 0),
            "level": self.level,
            "coverage": cov,
            "assumptions": self.assumptions,
            "wall_s": round(time.time() - self.t0, 3),
            "violations": len(new),
        }
        if not no_ev:
            os.makedirs(os.path.join(VERIF, "evidence"), exist_ok=True)
            with open(os.path.join(VERIF, "evidence", "%s.json" % self.pid), "w") as fh:
                json.dump(ev, fh, indent=1, default=str)
        else:
            import shutil

            shutil.rmtree(rdir, ignore_errors=True)
        for l in lines:
            print(l)
        print("%s tier=%s obligations=%d discharged=%d violations=%d known=%d wall=%.1fs" % (self.pid, self.tier, n_ob, n_ok, len(new), len(seen_known), time.time() - self.t0))
        return 1 if new else 0
