"""C07 — compare is equality of comparison forms, with strict errors.

Rule: pipeline extraction of the four Profile::compare bodies. Usernames and OpaqueString: the path
set must be exactly  enforce(a)? ; enforce(b)? ; Ok(content-equality of the two results)  — first
operand evaluated and failing first, no Ok after an Err, equality on the two *results* (not inputs).
Nickname: stabilize(a, closure)? == stabilize(b, closure)? where each closure body is the comparison
rule set [non-empty; FreeformClass; trim; case; NFKC]. The four static-form compare functions forward
(s1, s2) in order. Reflexivity/symmetry/transitivity then follow from comparing values of one
deterministic function (C16) with ==."""
from ..mir import Program
from ..report import Report
from . import profiles


def run(tier):
    rep = Report("C07", tier, __doc__)
    prog = Program()
    n = 0
    for prof in ("UsernameCaseMapped", "UsernameCasePreserved", "OpaqueString"):
        if profiles.check_compare(prog, rep, prof) is not None:
            n += 1
    profiles.nickname_compare(prog, rep)
    rep.floor("compare bodies extracted", n, 3)
    k = 0
    for prof in ("UsernameCaseMapped", "UsernameCasePreserved", "OpaqueString", "Nickname"):
        k += profiles.fast_invocation(prog, rep, prof)
    rep.floor("static-form methods checked", k, 12)
    # the Nickname operations are built on stabilize: its contract (C13) is a premise of this property
    profiles.include_leaves(rep, [("C13", "stabilize contract"), ("C12", "space rules"), ("C10", "case mapping"), ("C11", "width mapping"), ("C09", "directionality rule"), ("C14", "derived property behind the string classes"), ("C02", "string class acceptance")])
    rep.extra["exhaustive"] = True
    rep.assumptions += ["Cow<str> == is content equality (std)", "enforce is a function of its argument (C16)"]
    return rep
