"""C02 — a string class accepts a label iff every code point is valid in its context.

(i) loop-transducer extraction on the default method StringClass::allows (no local impl may override
it) over an alphabet of 15 letters = derived property of the character × (for CONTEXTJ/CONTEXTO) the
answer of the context machinery: no rule registered / rule true / rule false / NotApplicable /
Undefined. The loop must be stateless; every letter must give the RFC outcome: PVALID and the class's
valid value continue, DISALLOWED/UNASSIGNED/class-disallowed stop with BadCodepoint, contextual
characters follow their rule; the first offender ends the loop; exhaustion returns Ok(()).
(ii) payload provenance: the error carries the current character as code point, the Enumerate<Chars>
index (a code-point position, not a byte offset) and the property just computed; the rule is invoked
with the whole label and the same index.
(iii) the standard classes never report a missing / inapplicable rule: every code point whose derived
property (decision list of C14 over the folded tables) is CONTEXTJ/CONTEXTO has a registered rule
(interval partition of get_context_rule) and lies in that rule's own set (interval partition of the
rule's NotApplicable test)."""
from spec import precis_spec as ps
from spec import tables_spec as ts

from .. import automaton as au
from .. import interp as ip
from .. import tables, ucd
from ..interp import AnalysisError, Adt, I, Opq, Ref, Str, Sym, Tup
from ..mir import Program
from ..report import Report
from ..label import LabelWorld
from ..worlds import OracleWorld
from . import l4

SC = "precis_core::stringclasses::"
ALLOWS = SC + "StringClass::allows"
DPV = "precis_core::DerivedPropertyValue"
CTXERR = "precis_core::context::ContextRuleError"
GET_RULE = "precis_core::context::get_context_rule"
GVFC = SC + "StringClass::get_value_from_char"

CTX_ANSWERS = ["norule", "true", "false", "NotApplicable", "Undefined"]


def dpv_variants(prog):
    return [v["name"] for v in prog.adts[DPV]["variants"]]


def letters(prog):
    out = []
    for v in dpv_variants(prog):
        if v in ("ContextJ", "ContextO"):
            out += ["%s/%s" % (v, a) for a in CTX_ANSWERS]
        else:
            out.append(v)
    return out


class AllowsWorld(au.CutWorld):
    def __init__(self, prog):
        au.CutWorld.__init__(self, prog, ("label",))
        self.names = dpv_variants(prog)
        self.errs = [v["name"] for v in prog.adts[CTXERR]["variants"]]

    def call(self, m, st, callee, args, term):
        p = callee["path"]
        if p == GVFC:
            c = args[1]
            if not au.is_ch(c):
                raise AnalysisError("get_value_from_char of %r (not the current character)" % (c,))
            recv = args[0]
            return Adt(DPV, self.names.index(c.name[2].split("/")[0]), ())
        if p == GET_RULE:
            cp = args[0]
            if not (isinstance(cp, Sym) and au.is_ch(Sym(cp.name, "char"))):
                raise AnalysisError("get_context_rule of %r (not the current character's code point)" % (cp,))
            cls = cp.name[2]
            st.emit(("get_context_rule", cp.name[1]))
            if "/" not in cls:
                raise AnalysisError("a context rule is looked up for a %s character" % cls)
            if cls.endswith("/norule"):
                return ip.none()
            return ip.some(Opq("rule-fn", (cp.name[1], cls)))
        return au.CutWorld.call(self, m, st, callee, args, term)

    def indirect_call(self, m, st, fval, args, term):
        if isinstance(fval, Opq) and fval.kind == "rule-fn":
            age, cls = fval.data
            label, off = args
            ok_label = isinstance(label, Str) and label.tag == ("label",)
            ok_off = isinstance(off, Sym) and off.name == ("idx", age)
            st.emit(("rule-call", "whole-label" if ok_label else repr(label), "same-index" if ok_off else repr(off)))
            ans = cls.split("/")[1]
            if ans == "true":
                return ip.ok(ip.boolean(True))
            if ans == "false":
                return ip.ok(ip.boolean(False))
            return ip.err(Adt(CTXERR, self.errs.index(ans), ()))
        raise AnalysisError("indirect call of %r" % (fval,))


def describe(prog, v):
    """Result<(), Error> → readable tuple."""
    if not (isinstance(v, Adt) and v.ty == ip.RESULT):
        return ("?", repr(v))
    if v.variant == 0:
        return ("Ok",)
    e = v.fields[0]

    def info(x):
        cp, pos, prop = x.fields
        c = ("cur" if cp.name[1] == 0 else "old") if isinstance(cp, Sym) and au.is_ch(Sym(cp.name, "char")) else repr(cp)
        p = ("char-index-of-cur" if pos.name == ("idx", 0) else "byte-offset" if pos.name[0] == "boff" else repr(pos.name)) if isinstance(pos, Sym) else repr(pos)
        pr = dpv_variants(prog)[prop.variant] if isinstance(prop, Adt) else repr(prop)
        return (c, p, pr)

    names = [x["name"] for x in prog.adts["precis_core::error::Error"]["variants"]]
    n = names[e.variant]
    if n == "BadCodepoint":
        return ("BadCodepoint",) + info(e.fields[0])
    if n == "Unexpected":
        u = e.fields[0]
        un = [x["name"] for x in prog.adts["precis_core::error::UnexpectedError"]["variants"]][u.variant]
        if u.fields:
            return ("Unexpected", un) + info(u.fields[0])
        return ("Unexpected", un)
    return (n,)


def expected(letter):
    base = letter.split("/")[0]
    if base in ("PValid", "SpecClassPval"):
        return "continue"
    if base in ("SpecClassDis", "Disallowed", "Unassigned"):
        return ("BadCodepoint", "cur", "char-index-of-cur", base)
    ans = letter.split("/")[1]
    if ans == "true":
        return "continue"
    if ans == "false":
        return ("BadCodepoint", "cur", "char-index-of-cur", base)
    if ans == "Undefined":
        return ("Unexpected", "Undefined")
    if ans == "NotApplicable":
        return ("Unexpected", "ContextRuleNotApplicable", "cur", "char-index-of-cur", base)
    return ("Unexpected", "MissingContextRule", "cur", "char-index-of-cur", base)


def allows_table(prog, rep):
    b = prog.body(ALLOWS)
    rep.ob("anchor", ALLOWS, b is not None, "default method not found")
    if b is None:
        return
    rep.fn(ALLOWS, SC + "allowed_by_context_rule")
    # no impl overrides allows
    over = [im["path"] for im in prog.impls if im["trait"] == SC + "StringClass" and "allows" in im["item_names"] and im["crate"] in ("precis_core", "precis_profiles")]
    rep.ob("no-override", "StringClass::allows", not over, "overridden by %s (the override is not analysed)" % over)
    w = AllowsWorld(prog)
    alpha = letters(prog)
    try:
        aut = au.extract(prog, w, ALLOWS, [Opq("class-object", ()), Str(("label",))], alpha, result_of=lambda o: describe(prog, o.value))
    except au.Nondeterministic as e:
        rep.ob("allows-table", "each character is judged by its own property and rule only", False, str(e), b.where(), key="allows-table|depends-on-more-than-the-letter")
        return
    except AnalysisError as e:
        rep.analysis_error("allows-table", ALLOWS, e, b.where())
        return
    rep.ob("allows-table", "stateless loop", aut.nstates() == 1, "%d loop states: acceptance of a character depends on earlier characters" % aut.nstates(), b.where(), key="allows-table|stateless")
    rep.extra["states"] = aut.nstates()
    rep.extra["transitions"] = len(aut.delta)
    q0 = aut.initial.target
    if q0 is None:
        rep.ob("allows-table", "loop entered", False, "returns %r before reading a character" % (aut.initial.result,), b.where())
        return
    for a in alpha:
        t = aut.delta[(q0, a)]
        exp = expected(a)
        got = "continue" if t.target is not None else t.result
        okk = got == exp and (t.target in (None, q0))
        rep.ob("allows-table", "%s ⇒ %s" % (a, exp if exp == "continue" else exp[:2]), okk, "implementation: %s" % (got,), b.where(), key="allows-table|%s" % a, sample=(a in ("PValid", "Disallowed", "ContextJ/false", "ContextO/Undefined")))
        if "/" in a and not a.endswith("/norule"):
            calls = [e for e in t.events if e[0] == "rule-call"]
            rep.ob("rule-invocation", a, calls == [("rule-call", "whole-label", "same-index")], "rule invoked as %s; must get the whole label and the character's own index" % (calls,), b.where(), key="rule-invocation|%s" % a)
    te = aut.delta[(q0, au.END)]
    rep.ob("allows-table", "end of label ⇒ Ok(())", te.target is None and te.result == ("Ok",), "implementation: %s" % (te.result,), b.where())
    rep.floor("letters examined", len(alpha), 15)


# ---------------------------------------------------------------------------- (iii) registry vs CTX
def intervals_of_registry(prog, rep):
    """Interval partition of get_context_rule: list of (lo, hi, rule path or None)."""
    b = prog.body(GET_RULE)
    if b is None:
        rep.ob("registry", GET_RULE, False, "not found")
        return None
    rep.fn(GET_RULE)

    class RegistryWorld(OracleWorld):
        """A registry kept as a sorted static table and binary-searched: the search is decided exactly — the
        comparator closure is evaluated on every row for every interval of the key, the rows' answers must be
        Less* Equal? Greater* (else binary search is not defined on the table), and the result is the Equal row."""

        def call(self, m, st, callee, args, term):
            if callee["path"] == "core::slice::<impl [T]>::binary_search_by":
                return self.search(m, st, args)
            return OracleWorld.call(self, m, st, callee, args, term)

        def index_hook(self, st, base, idx):
            # TABLE[i] with the row index the search returned
            if isinstance(base, Opq) and base.kind == "static" and isinstance(idx, I):
                arr = self.__dict__.get("_static_arrays", {}).get(base.data[0])
                if arr is not None and 0 <= idx.v < len(arr.data):
                    return arr.data[idx.v]
            return OracleWorld.index_hook(self, st, base, idx) if hasattr(OracleWorld, "index_hook") else None

        def search(self, m, st, args):
            from ..models import deref_all

            sl = args[0]
            path = None
            if isinstance(sl, Ref) and sl.loc[0] == "static":
                path = sl.loc[1]
            else:
                v = deref_all(m, st, sl)
                if isinstance(v, Opq) and v.kind == "static":
                    path = v.data[0]
            arr = self.static_array(m, st, path) if path else None
            if arr is None:
                raise AnalysisError("binary search over a slice that is not a small static table with a straight-line initialiser")
            rows = list(arr.data)
            clo = args[1]
            if isinstance(clo, Ref):
                clo = m.load(st, clo.loc)
            if not isinstance(clo, ip.Clo):
                raise AnalysisError("comparator is %r, not a closure" % (clo,))
            caps = []
            for c in clo.captures:
                cv, depth = c, 0
                while isinstance(cv, Ref) and cv.loc[0] != "val" and depth < 4:
                    inner = m.load(st, cv.loc)
                    cv = Ref(("val", inner)) if not isinstance(inner, Ref) else inner
                    depth += 1
                caps.append(cv)
            body = self.prog.body(clo.defpath)
            cur = st.facts.get(("rng", "cp"), ((0, 0xFFFFFFFF),))
            per_row = []
            for row in rows:
                sub = ip.State()
                sub.nuid = 80_000
                sub.facts = dict(st.facts)
                fr = ip.Frame(body, sub.fresh())
                c2 = ip.Clo(clo.defpath, tuple(caps))
                fr.locals[1] = Ref(("val", c2)) if body.locals[1]["ty"].startswith("&") else c2
                fr.locals[2] = Ref(("val", row))
                sub.frames.append(fr)
                cells = []
                for o in m.run(sub):
                    if o.kind != "return" or not (isinstance(o.value, Adt) and o.value.ty == ip.ORDERING):
                        raise AnalysisError("comparator path ends with %s %r" % (o.kind, o.value))
                    for lo, hi in o.state.facts.get(("rng", "cp"), cur):
                        cells.append((lo, hi, o.value.variant - 1))
                per_row.append(sorted(cells))
            # elementary intervals of the key
            pts = set()
            for lo, hi in cur:
                pts.add(lo)
                pts.add(hi + 1)
            for cells in per_row:
                for lo, hi, _ in cells:
                    pts.add(lo)
                    pts.add(hi + 1)
            pts = sorted(pts)
            results = {}
            for a, b_ in zip(pts, pts[1:]):
                if not any(lo <= a and b_ - 1 <= hi for lo, hi in cur):
                    continue
                seq = []
                for cells in per_row:
                    o_ = [o for lo, hi, o in cells if lo <= a and b_ - 1 <= hi]
                    if len(o_) != 1:
                        raise AnalysisError("comparator not decided on the key interval %x..%x" % (a, b_ - 1))
                    seq.append(o_[0])
                eq = [i for i, o in enumerate(seq) if o == 0]
                shape = [o for o in seq if o != 0]
                if len(eq) > 1 or shape != sorted(shape) or (eq and not (all(o == -1 for o in seq[: eq[0]]) and all(o == 1 for o in seq[eq[0] + 1 :]))):
                    raise AnalysisError("for keys %x..%x the rows answer %s: the table is not sorted for this comparator, binary search is not defined" % (a, b_ - 1, seq))
                results.setdefault(eq[0] if eq else None, []).append((a, b_ - 1))
            opts = sorted(results, key=lambda x: (-1 if x is None else x))
            pick = opts[0] if len(opts) == 1 else st.choose(("registry-row", path), opts)
            st.facts[("rng", "cp")] = tuple(results[pick])
            if pick is None:
                return ip.err(Sym(("ins",), "usize"))
            return ip.ok(I(pick, "usize"))

    w = RegistryWorld(prog)
    m = ip.Machine(prog, w)
    try:
        outs = m.run(m.start(GET_RULE, [Sym("cp", "u32")]))
    except AnalysisError as e:
        rep.analysis_error("registry", GET_RULE, e, b.where())
        return None
    parts = []
    for o in outs:
        r = o.state.facts.get(("rng", "cp"), ((0, 0xFFFFFFFF),))
        v = o.value
        rule = None
        if isinstance(v, Adt) and v.variant == 1:
            f = v.fields[0]
            rule = f.path if isinstance(f, ip.Fn) else repr(f)
        for lo, hi in r:
            parts.append((lo, hi, rule))
    return sorted(parts)


def own_set(prog, rep, rule_path):
    """Code points for which a rule does not answer NotApplicable (interval partition of its own test)."""
    b = prog.body(rule_path)
    if b is None:
        rep.ob("own-set", rule_path, False, "rule body not found")
        return None
    rep.fn(rule_path)

    class W(LabelWorld):
        # the first read is the character at the rule's own position; whatever is inspected next is context
        def read_at(self, m, st, cur, pos):
            k = st.ext.get("reads", 0)
            if k > 0 and pos == ("rel", 0):
                # the rule's own character read once more (e.g. strip_prefix after char_indices().nth): still the own test
                return LabelWorld.read_at(self, m, st, cur, pos)
            st.ext["reads"] = k + 1
            if k > 0:
                raise StopOwn()
            if pos != ("rel", 0):
                raise AnalysisError("the rule's first read is at %r, not at its own position" % (pos,))
            st.set_fact(("at", 0), "present") if ("at", 0) not in st.facts else None
            return LabelWorld.read_at(self, m, st, cur, pos)

        def call(self, m, st, callee, args, term):
            if callee["path"].startswith("precis_core::context::") and callee["path"].rsplit("::", 1)[1] in ("before", "after"):
                raise StopOwn()
            if callee["path"].startswith("precis_core::common::"):
                raise StopOwn()
            return OracleWorld.call(self, m, st, callee, args, term)

        def chars_next(self, m, st, itref):
            if st.ext.get("reads", 0) == 0:
                r = LabelWorld.chars_next(self, m, st, itref)
                if st.ext.get("scan"):
                    # the rule starts by walking the label from its beginning: that read is not its own character
                    raise AnalysisError("the rule reads the label from its start before looking at its own position")
                return r
            raise StopOwn()

        def loop_arrival(self, m, st, fr, target):
            if st.ext.get("reads", 0) == 0:
                raise AnalysisError("the rule enters a loop before it has looked at its own character")
            raise StopOwn()

    class StopOwn(AnalysisError):
        pass

    w = W(prog)
    m = ip.Machine(prog, w)
    na, other = [], []
    work = [m.start(rule_path, [Str(("label",)), Sym("offset", "usize")])]
    # run path by path; a path that goes on to inspect the context has passed the own-test
    while work:
        s = work.pop()
        while True:
            try:
                res = m.step(s)
            except ip.Fork as f:
                for opt in f.options:
                    c = s.clone()
                    c.set_fact(f.key, opt)
                    work.append(c)
                break
            except StopOwn:
                other += list(s.facts.get(("rng", ("at", 0)), ((0, 0x10FFFF),)))
                break
            except ip.Infeasible:
                break
            if res is not None:
                r = s.facts.get(("rng", ("at", 0)), ((0, 0x10FFFF),))
                v = res.value
                is_na = isinstance(v, Adt) and v.ty == ip.RESULT and v.variant == 1 and isinstance(v.fields[0], Adt) and v.fields[0].variant == 0
                (na if is_na else other).extend(r)
                break
    own = sorted(other)
    return own


def own_set_general(prog, rep, rule_path):
    """Own set from the paths of the whole rule: the code points the character at `offset` may have on any path
    that does not end with NotApplicable (paths on which that character does not exist say nothing)."""
    w = LabelWorld(prog)
    m = ip.Machine(prog, w)
    outs = m.run(m.start(rule_path, [Str(("label",)), Sym("offset", "usize")]))
    other = []
    for o in outs:
        if o.state.facts.get(("at", 0)) != "present":
            continue
        r = o.state.facts.get(("rng", ("at", 0)), ((0, 0x10FFFF),))
        v = o.value
        is_na = o.kind == "return" and isinstance(v, Adt) and v.ty == ip.RESULT and v.variant == 1 and isinstance(v.fields[0], Adt) and v.fields[0].variant == 0
        if not is_na:
            other.extend(r)
    return sorted(set(other))


def registry_vs_ctx(prog, rep):
    tabs, errs = tables.all_tables(prog)
    exc = {}
    for lo, hi, v in tabs.get(ts.C + "EXCEPTIONS", []):
        for cp in range(lo, hi + 1):
            exc[cp] = v
    bc = {}
    for lo, hi, v in tabs.get(ts.C + "BACKWARD_COMPATIBLE", []):
        for cp in range(lo, hi + 1):
            bc[cp] = v
    # CTX from the decision list: table values ContextJ/ContextO, then (unassigned, ascii7 excluded) join controls
    ctx = {}
    for cp, v in list(exc.items()) + [(c, v) for c, v in bc.items() if c not in exc]:
        if v in ("ContextJ", "ContextO"):
            ctx[cp] = v
    una = ucd.mask_andnot(ucd.mask_from_rows(tabs.get(ts.C + "UNASSIGNED", [])), ucd.mask_from_rows(tabs.get(ts.C + "NONCHARACTER_CODE_POINT", [])))
    asc = ucd.mask_from_rows(tabs.get(ts.C + "ASCII7", []))
    for lo, hi, _ in tabs.get(ts.C + "JOIN_CONTROL", []):
        for cp in range(lo, hi + 1):
            if cp not in exc and cp not in bc and not una[cp] and not asc[cp]:
                ctx[cp] = "ContextJ"
    rep.extra["contextual_code_points"] = len(ctx)
    rep.floor("contextual code points (CTX)", len(ctx), 27)
    parts = intervals_of_registry(prog, rep)
    if parts is None:
        return ctx, None, None

    def rule_of(cp):
        for lo, hi, r in parts:
            if lo <= cp <= hi:
                return r
        return None

    owns = {}
    for r in sorted({r for _, _, r in parts if r}):
        try:
            try:
                owns[r] = own_set(prog, rep, r)
            except ip.AnalysisError:
                # the rule does not begin by reading its own character (it reads a neighbour first, or through a
                # helper): classify the paths of the whole rule instead
                owns[r] = own_set_general(prog, rep, r)
        except ip.AnalysisError as e:
            b_ = prog.body(r)
            rep.analysis_error("own-set", r.rsplit("::", 1)[1], e, b_.where() if b_ is not None else "")
            owns[r] = None
    n_ok = 0
    for cp, kind in sorted(ctx.items()):
        r = rule_of(cp)
        if r is None:
            rep.ob("registry", "U+%04X (%s) has a registered rule" % (cp, kind), False, "no rule: the standard classes would report MissingContextRule for this code point", key="registry|missing|U+%04X" % cp)
            continue
        if r in owns and owns[r] is None:
            continue  # (own set not extracted: reported once, above, as an analysis error)
        o = owns.get(r) or []
        inside = any(lo <= cp <= hi for lo, hi in o)
        n_ok += 1 if inside else 0
        rep.ob("registry", "U+%04X ↦ %s applies to it" % (cp, r.rsplit("::", 1)[1]), inside, "the registered rule answers NotApplicable for this code point (its own set is %s)" % (["%04X..%04X" % x for x in o][:4],), key="registry|not-applicable|U+%04X" % cp, sample=(cp in (0x200C, 0x0660)))
    return ctx, parts, owns


def run(tier):
    rep = Report("C02", tier, __doc__)
    prog = Program()
    allows_table(prog, rep)
    registry_vs_ctx(prog, rep)
    # "valid in context" means what the registered rule decides: the rules' logic (C03 (c)) is a premise
    from spec import context_rules as cr
    from . import C03

    sub = Report("C03", tier, "context-rule logic")
    for fn, (spec, own, scan_test) in sorted(cr.RULES.items()):
        C03.check_rule(prog, sub, fn, spec, scan_test)
    l4.check_predicates(prog, sub, cr.CONTEXT_PREDICATES)  # the predicates the rules ask are the tables' sets
    rep.include(sub, "C03")
    rep.extra["exhaustive"] = True
    rep.assumptions += ["Chars/Enumerate as documented: positions are counted in code points", "the rules' own semantics are C03; the derived properties C14"]
    return rep
