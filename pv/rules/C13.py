"""C13 — stabilize returns only fixed points and honours its iteration contract.

Rule: A4 path enumeration of `precis_core::profile::stabilize` with the caller's function `f` as an
oracle that answers, per call, `E` (an error), `=` (Ok, same content as its argument) or `≠` (Ok, new
content). `tmp == c` is decided on content tags, which is exact because the only comparison the code
makes is between f's result and f's own argument (any other comparison is an analysis error). Since
stabilize observes f and s only through these answers, the enumerated answer sequences cover every
rule function and every start string. The set {answer sequence -> (number of calls, result)} must be
exactly the contract of RFC 8264 §7 / the doc comment: first application + at most 3 re-applications."""
from .. import interp as ip
from ..mir import Program
from ..report import Report
from . import common

STAB = "precis_core::profile::stabilize"
MAX_CALLS = 4  # first application plus three re-applications


class StabWorld(ip.World):
    max_steps = 20000

    def indirect_call(self, m, st, fval, args, term):
        if not (isinstance(fval, ip.Opq) and fval.kind == "rulefn"):
            raise ip.AnalysisError("call through %r" % (fval,))
        n = st.ext.get("calls", 0) + 1
        if n > 12:
            raise ip.AnalysisError("more than 12 applications of f: loop not bounded")
        a = args[0]
        if not isinstance(a, ip.Str):
            raise ip.AnalysisError("f applied to a non-string %r" % (a,))
        ans = st.choose(("f", n), ["E", "=", "≠"])
        st.ext["calls"] = n
        st.emit(("call", n, a.tag))
        if ans == "E":
            return ip.err(ip.Sym(("f-error", n), "precis_core::error::Error!opaque"))
        if ans == "=":
            return ip.ok(ip.Str(a.tag))
        return ip.ok(ip.Str(("f", n, a.tag)))

    def str_variant(self, st, v, rv):
        # the Cow variant (Borrowed / Owned) of a string is independent of its content: both are possible
        n = st.ext.get("calls", 0)
        ans = st.choose(("cow-variant", n, v.tag), ["Borrowed", "Owned"])
        st.emit(("inspects-cow-variant", n))
        return 0 if ans == "Borrowed" else 1

    def str_eq(self, st, a, b):
        if not (isinstance(a, ip.Str) and isinstance(b, ip.Str)):
            raise ip.AnalysisError("string comparison of %r and %r" % (a, b))
        if a.tag == b.tag:
            return True
        # different tags: only "result of call n" vs "argument of call n" is decidable (answer was ≠)
        for x, y in ((a.tag, b.tag), (b.tag, a.tag)):
            if isinstance(x, tuple) and len(x) == 3 and x[0] == "f" and x[2] == y:
                return False
        raise ip.AnalysisError("comparison of unrelated strings %r / %r (not f's result against f's argument)" % (a.tag, b.tag))

    # lengths: equal strings have equal lengths; different strings may or may not (both are explored)
    def str_len(self, st, s):
        if isinstance(s, ip.Str):
            return ip.Sym(("len", s.tag), "usize")
        return ip.Top("usize")

    def compare_hook(self, st, op, a, b):
        la = a.name if isinstance(a, ip.Sym) and isinstance(a.name, tuple) and a.name and a.name[0] == "len" else None
        lb = b.name if isinstance(b, ip.Sym) and isinstance(b.name, tuple) and b.name and b.name[0] == "len" else None
        if la is None or lb is None:
            return None
        if la[1] == lb[1]:
            c = 0
        else:
            key = tuple(sorted([repr(la[1]), repr(lb[1])]))
            c = st.choose(("len-order",) + key, [0, -1, 1])
            if repr(la[1]) > repr(lb[1]):
                c = -c
        return {"Eq": c == 0, "Ne": c != 0, "Lt": c < 0, "Le": c <= 0, "Gt": c > 0, "Ge": c >= 0}[op]

    def enum_variants(self, ty):
        if ty.endswith("!opaque"):
            raise ip.AnalysisError("f's error value is inspected (it must be passed through unchanged)")
        return ip.World.enum_variants(self, ty)


def describe_result(prog, v):
    if isinstance(v, ip.Adt) and v.ty == ip.RESULT:
        x = v.fields[0]
        if v.variant == 0:
            return ("Ok", x.tag if isinstance(x, ip.Str) else repr(x))
        if isinstance(x, ip.Sym) and isinstance(x.name, tuple) and x.name[0] == "f-error":
            return ("Err", ("f-error", x.name[1]))
        if isinstance(x, ip.Adt):
            names = {vv["idx"]: vv["name"] for vv in prog.adts[x.ty]["variants"]} if x.ty in prog.adts else {}
            return ("Err", names.get(x.variant, x.variant))
        return ("Err", repr(x))
    return ("?", repr(v))


def contract(seq):
    """Expected (calls, result) for a complete answer sequence, or None if the sequence must continue."""
    k = 0
    while k < len(seq) and seq[k] == "≠":
        k += 1
    if k == len(seq):
        if k == MAX_CALLS:
            return (MAX_CALLS, ("Err", "Invalid"))
        return None  # must go on
    last = seq[k]
    if k + 1 != len(seq) or k + 1 > MAX_CALLS:
        return "too-long"
    if last == "=":
        return (k + 1, ("Ok", "arg%d" % (k + 1)))
    return (k + 1, ("Err", ("f-error", k + 1)))


def run(tier):
    rep = Report("C13", tier, __doc__)
    prog = Program()
    b = prog.body(STAB)
    rep.ob("anchor", STAB, b is not None, "function not found")
    if b is None:
        return rep
    rep.fn(STAB)
    world = StabWorld(prog)
    m = ip.Machine(prog, world)
    try:
        outs = m.run(m.start(STAB, [ip.Str(("input",)), ip.Opq("rulefn", ())]))
    except ip.AnalysisError as e:
        rep.analysis_error("contract", STAB, e, b.where())
        return rep
    seen = {}
    for o in outs:
        seq = tuple(v for k, v in o.state.log if isinstance(k, tuple) and k[0] == "f")
        calls = [e for e in o.state.events if e[0] == "call"]
        name = "".join(seq) or "(no call)"
        if o.kind != "return":
            rep.ob("contract", "answers %s" % name, False, "path ends with %s: %s" % (o.kind, o.info), b.where())
            continue
        # argument chain: call 1 gets the input, call n+1 gets the result of call n
        chain_ok = True
        for i, (_, n, tag) in enumerate(calls):
            want = ("input",) if i == 0 else ("f", i, calls[i - 1][2])
            if tag != want:
                chain_ok = False
        rep.ob("argument-chain", "answers %s" % name, chain_ok, "f must be applied to s, f(s), f(f(s)), ...: saw %r" % ([c[2] for c in calls],), b.where())
        res = describe_result(prog, o.value)
        if res[0] == "Ok":
            # name the returned string as the argument of call n, if it is one
            for _, n, tag in calls:
                if tag == res[1]:
                    res = ("Ok", "arg%d" % n)
        exp = contract(seq)
        variants = [v for k, v in o.state.log if isinstance(k, tuple) and k[0] == "cow-variant"]
        if variants:
            name = name + " [f returned Cow::%s]" % "/".join(variants)
        seen[seq] = (len(calls), res)
        if exp is None:
            rep.ob("contract", "answers %s" % name, False, "stops after %d application(s) with %r although the string is still changing and only %d of the %d permitted applications were made" % (len(calls), res, len(calls), MAX_CALLS), b.where(), key="contract|early-stop|%s" % name, sample=True)
        elif exp == "too-long":
            rep.ob("contract", "answers %s" % name, False, "f applied %d times (more than %d)" % (len(calls), MAX_CALLS), b.where(), key="contract|too-many|%s" % name)
        else:
            rep.ob("contract", "answers %s" % name, (len(calls), res) == exp, "after %d call(s) returns %r; contract: %d call(s), %r" % (len(calls), res, exp[0], exp[1]), b.where(), sample=True)
    # completeness: every contract sequence must be present
    want = []
    for k in range(MAX_CALLS):
        want += [tuple("≠" * k + "="), tuple("≠" * k + "E")]
    want.append(tuple("≠" * MAX_CALLS))
    for w in want:
        if w not in seen:
            rep.ob("contract-complete", "answers %s" % "".join(w), False, "the contract outcome for this answer sequence is unreachable (fewer applications than permitted)", b.where(), key="contract|missing|%s" % "".join(w))
        else:
            rep.ob("contract-complete", "answers %s" % "".join(w), True)
    rep.extra["exhaustive"] = True
    rep.extra["paths"] = len(outs)
    rep.extra["answer_sequences"] = {"".join(k): list(map(str, v)) for k, v in seen.items()}
    rep.floor("paths of stabilize", len(outs), 7)
    # both nickname call sites pass a closure whose body is the whole rule set: checked in C06/C07
    users = []
    for bb in common.lib_bodies(prog):
        for i, t in bb.calls():
            if t["callee"] and t["callee"]["path"] == STAB:
                users.append((bb.id, common.where(t)))
    rep.extra["call_sites_of_stabilize"] = users
    rep.floor("call sites of stabilize", len(users), 1)
    rep.assumptions += ["Cow<str> equality is content equality (std)", "f is a function: equal arguments give equal results (C16)"]
    return rep
