"""C09 — the directionality rule is the RFC 5893 Bidi rule, on every label.

Rule: (a) L5/L2/L3: BIDI_CLASS_TABLE = field 4 of the 16.0.0 UnicodeData.txt, searchable, looked up with
default L; (b) has_rtl's predicate accepts exactly {R, AL, AN} (A4 over the 23 enum variants);
(c) loop-automaton extraction of satisfy_bidi_rule over the alphabet of the 23 bidi classes (states =
abstract environments at the iterator's next(): prev class, nsm/en/an flags, program point);
(d) decision table of usernames::directionality_rule over the two oracles; (e) the composed language
`not hasRTL(w) or Sat(w)` is compared, by product construction with the DFA of the six RFC 5893
conditions (spec/bidi_rfc5893.py), for all class words at once; a difference yields a shortest
distinguishing word. Known finding D3 is keyed by a *language* K (RTL labels the RFC accepts in which an
NSM is followed later by a non-NSM): differences inside K print KNOWN-FINDING, anything outside K is a
VIOLATION."""
import collections

from spec import bidi_rfc5893 as bs
from spec import tables_spec as ts

from .. import automaton as au
from .. import interp as ip
from .. import pipeline as pl
from .. import tablecheck
from ..interp import Str
from ..mir import Program
from ..report import Report
from ..worlds import OracleWorld
from . import common

BIDI = "precis_profiles::bidi::"
BIDICLASS = BIDI + "BidiClass"


def class_names(prog):
    a = prog.adts.get(BIDICLASS)
    return [v["name"] for v in a["variants"]] if a else []


def bidi_class_oracle(prog):
    names = class_names(prog)

    def h(m, st, callee, args, term):
        c = args[0]
        if not au.is_ch(c):
            raise ip.AnalysisError("bidi_class of %r (not a character of the label)" % (c,))
        return ip.Adt(BIDICLASS, names.index(c.name[2]), ())

    return h


def class_masks(prog, names):
    """class name -> bytearray mask over all code points, from the folded BIDI_CLASS_TABLE (default L)."""
    from .. import tables, ucd

    tabs, _ = tables.all_tables(prog)
    rows = tabs.get(ts.P + "bidi::BIDI_CLASS_TABLE")
    if rows is None:
        return None
    cls_of = ["L"] * (ucd.MAXCP + 1)
    for lo, hi, v in rows:
        for cp in range(lo, min(hi, ucd.MAXCP) + 1):
            cls_of[cp] = v
    return cls_of


def has_rtl_set(prog, rep):
    """(b) has_rtl(label) = some character of the label has class R, AL or AN — decided per code point: the
    find-predicate is run on a symbolic character; each path fixes an interval set for the character (its
    comparisons with constants) and at most one answer of bidi_class; for every code point of the path that
    has that class in the folded table the returned boolean must be `class in {R, AL, AN}`."""
    key = BIDI + "has_rtl"
    b = prog.body(key)
    if b is None:
        rep.ob("has-rtl", key, False, "not found")
        return None
    rep.fn(key)
    names = class_names(prog)

    def cls_oracle(m, st, callee, args, term):
        c = args[0]
        if not (isinstance(c, ip.Sym) and c.name == "arg"):
            raise ip.AnalysisError("bidi_class of %r (not the character under test)" % (c,))
        k = st.choose(("cls",), names)
        return ip.Adt(BIDICLASS, names.index(k), ())

    class W(OracleWorld):
        def str_find(self, m, st, s, pred):
            # find(pred) is Some iff pred holds for some character of the label: evaluate pred on one
            from ..models import _with_post

            return _with_post(m, st, pred, [ip.Sym("arg", "char")], {"dest": {"l": 0, "p": []}, "target": None, "span": {}}, lambda mm, ss, v: ip.some(ip.Sym(("pos",), "usize")) if mm.truth(ss, v) else ip.none())

        def cast_hook(self, st, v, from_ty, to_ty):
            if isinstance(v, ip.Sym) and v.name == "arg":
                return ip.Sym("arg", to_ty)
            return None

    w = W(prog, {BIDI + "bidi_class": cls_oracle})
    m = ip.Machine(prog, w)
    try:
        outs = m.run(m.start(key, [Str(("label",))]))
    except ip.AnalysisError as e:
        # not the `find(pred).is_some()` shape: extract has_rtl as an automaton over the label instead
        return has_rtl_automaton(prog, rep, b, names, e)
    cls_of = class_masks(prog, names)
    if cls_of is None:
        rep.ob("has-rtl", "BIDI_CLASS_TABLE folded", False, "table not available")
        return None
    accepted = set()
    bad = None
    covered = bytearray(0x110000)
    for o in outs:
        if o.kind != "return" or not isinstance(o.value, ip.I):
            bad = "a path ends with %s %r" % (o.kind, o.value)
            break
        res = bool(o.value.v)
        cls = o.state.facts.get(("cls",))
        other = [k for k, v in o.state.log if isinstance(k, tuple) and k[0] in ("ord", "bool")]
        if other:
            bad = "the result depends on %r, not only on the character and its class" % (other[0],)
            break
        for lo, hi in ip.rng_get(o.state, ip.Sym("arg", "char")):
            for cp in range(max(lo, 0), min(hi, 0x10FFFF) + 1):
                if cls is not None and cls_of[cp] != cls:
                    continue
                covered[cp] = 1
                if res:
                    accepted.add(cls_of[cp])
                if res != (cls_of[cp] in bs.RTLSET):
                    bad = "U+%04X (class %s): has_rtl's test answers %s" % (cp, cls_of[cp], res)
                    break
            if bad:
                break
        if bad:
            break
    if bad is None:
        miss = covered.find(0)
        if miss != -1 and not 0xD800 <= miss <= 0xDFFF:
            bad = "no path covers U+%04X" % miss
    rep.ob("has-rtl", "has_rtl's test = class in {R, AL, AN}, for every code point", bad is None, bad or "", b.where(), key="has-rtl|exact", sample=True)
    present = {c for c in set(cls_of)}
    rep.ob("has-rtl", "RTL detection set", bad is not None or accepted == set(bs.RTLSET) & present, "has_rtl is true for a label consisting of a character of class %s; RFC 5893: %s" % (sorted(accepted), sorted(bs.RTLSET)), b.where(), key="has-rtl|set", sample=True)
    return set(bs.RTLSET) if bad is None else None


def has_rtl_automaton(prog, rep, b, names, first_error):
    """has_rtl written as an explicit iteration (`chars().map(bidi_class).any(..)`, a for loop, ...): its loop
    automaton must be the existential `some letter is in A`, with A read off the one-letter words."""
    key = BIDI + "has_rtl"
    w = au.CutWorld(prog, ("label",), {BIDI + "bidi_class": bidi_class_oracle(prog)})
    try:
        aut = au.extract(prog, w, key, [Str(("label",))], names, result_of=lambda o: bool(o.value.v) if isinstance(o.value, ip.I) else repr(o.value))
    except ip.AnalysisError as e:
        rep.analysis_error("has-rtl", "automaton", e, b.where())
        return None
    accepted = {a for a in names if au.run_word(aut, [a])[1] is True}
    bad = None
    if aut.initial.target is None:
        bad = "returns %r without reading the label" % (aut.initial.result,)
    else:
        seen = {(aut.initial.target, False)}
        work = [(aut.initial.target, False, ())]
        while work and bad is None:
            q, flag, word = work.pop()
            for a in list(names) + [au.END]:
                t = aut.delta[(q, a)]
                f2 = flag or (a in accepted)
                if a == au.END:
                    if t.result is not flag:
                        bad = "after the class word %s the result is %r, but %s" % (list(word), t.result, "a character of an accepted class occurred" if flag else "no character of an accepted class occurred")
                elif t.target is None:
                    if not (t.result is True and f2):
                        bad = "returns %r right after the class word %s, before the rest of the label was inspected" % (t.result, list(word) + [a])
                elif (t.target, f2) not in seen:
                    seen.add((t.target, f2))
                    work.append((t.target, f2, word + (a,)))
    rep.ob("has-rtl", "has_rtl is an existential over the label's characters", bad is None, bad or "", b.where(), key="has-rtl|existential")
    rep.ob("has-rtl", "RTL detection set", accepted == set(bs.RTLSET), "has_rtl is true for a label consisting of a character of class %s; RFC 5893: %s" % (sorted(accepted), sorted(bs.RTLSET)), b.where(), key="has-rtl|set", sample=True)
    return accepted if bad is None else None


def extract_sat(prog, rep):
    key = BIDI + "satisfy_bidi_rule"
    b = prog.body(key)
    if b is None:
        rep.ob("automaton", key, False, "not found")
        return None
    rep.fn(key, BIDI + "is_valid_rtl_label", BIDI + "is_valid_ltr_label")
    w = au.CutWorld(prog, ("label",), {BIDI + "bidi_class": bidi_class_oracle(prog)})
    res = lambda o: bool(o.value.v) if isinstance(o.value, ip.I) else repr(o.value)
    try:
        aut = au.extract(prog, w, key, [Str(("label",))], class_names(prog), result_of=res)
    except ip.AnalysisError as e:
        # not one pass over the label: try the declarative shape — several whole-label passes (all / any / a
        # reverse scan over clones of one iterator) combined by a decision tree
        from .. import passes

        try:
            aut = passes.extract(prog, key, [Str(("label",))], ("label",), class_names(prog), {BIDI + "bidi_class": bidi_class_oracle(prog)}, res)
            rep.extra["multi_pass"] = aut.passes
            rep.sample({"multi-pass validator": aut.passes})
        except ip.AnalysisError as e2:
            rep.analysis_error("automaton", key, "%s; as a multi-pass validator: %s" % (e, e2), b.where())
            return None
    return aut


def directionality_table(prog, rep):
    key = "precis_profiles::usernames::directionality_rule"
    b = prog.body(key)
    if b is None:
        rep.ob("wrapper", key, False, "not found")
        return False
    rep.fn(key)
    seen = []

    def orc(name):
        def h(m, st, callee, args, term):
            s = args[0]
            from ..models import deref_all

            s = deref_all(m, st, s)
            if not (isinstance(s, Str) and s.tag == ("input",)):
                raise ip.AnalysisError("%s is applied to %r, not to the rule's own argument" % (name, s))
            return ip.boolean(st.choose(("orc", name), [True, False]))

        return h

    w = pl.PipeWorld(prog, intercept={})
    w.oracles = {BIDI + "has_rtl": orc("has_rtl"), BIDI + "satisfy_bidi_rule": orc("sat")}
    m = ip.Machine(prog, w)
    try:
        outs = m.run(m.start(key, [Str(("input",))]))
    except ip.AnalysisError as e:
        if "next" in str(e) or "iteration" in str(e) or "find" in str(e):
            rep.ob("wrapper", "directionality_rule decides from has_rtl and satisfy_bidi_rule alone", False, "the wrapper examines the string's characters itself (%s): whether the Bidi rule applies must be has_rtl's answer — a pre-filter is a second, possibly narrower, definition of 'contains a right-to-left character'" % str(e)[:120], b.where(), key="wrapper|inspects-input")
            return False
        rep.analysis_error("wrapper", key, e, b.where())
        return False
    got = set()
    for o in outs:
        dec = tuple((k[1], v) for k, v in o.state.log if k[0] == "orc")
        got.add((dec, pl.describe_result(prog, o.value)))
    want = {
        ((("has_rtl", False),), ("Ok", ("input",))),
        ((("has_rtl", True), ("sat", True)), ("Ok", ("input",))),
        ((("has_rtl", True), ("sat", False)), ("Err", "Invalid")),
    }
    okk = got == want
    rep.ob("wrapper", "directionality_rule = !has_rtl(s) ? Ok(s) : sat(s) ? Ok(s) : Err(Invalid)", okk, "extracted %s" % sorted(got, key=repr), b.where(), key="wrapper|table", sample=True)
    return okk


def compare_languages(aut, rtlset, alphabet):
    """BFS over the product impl × spec × K. Returns (witness outside K or None, witness inside K or None, #states)."""
    # implementation composite state: (aut state | ('ret', bool), has_rtl)
    def impl_init():
        t = aut.initial
        return (("ret", t.result) if t.target is None else ("q", t.target), False)

    def impl_step(s, a):
        (kind, q), hr = s
        hr = hr or a in rtlset
        if kind == "ret":
            return ((kind, q), hr)
        t = aut.delta[(q, a)]
        if t.target is None:
            return (("ret", t.result), hr)
        return (("q", t.target), hr)

    def impl_accept(s):
        (kind, q), hr = s
        if kind == "ret":
            sat = q
        else:
            t = aut.delta[(q, au.END)]
            sat = t.result if t.target is None else None
        if not hr:
            return True
        return sat is True

    start = (impl_init(), bs.SPEC_INIT, bs.K_INIT)
    seen = {start: None}
    dq = collections.deque([start])
    outside = inside = None
    while dq:
        s = dq.popleft()
        i, p, k = s
        if impl_accept(i) != bs.spec_accept(p):
            word = []
            x = s
            while seen[x] is not None:
                x, a = seen[x]
                word.append(a)
            word.reverse()
            if bs.in_k(k, p):
                inside = inside or (word, impl_accept(i), bs.spec_accept(p))
            else:
                outside = outside or (word, impl_accept(i), bs.spec_accept(p))
                break
        for a in alphabet:
            n = (impl_step(i, a), bs.spec_step(p, a), bs.k_step(k, a))
            if n not in seen:
                seen[n] = (s, a)
                dq.append(n)
    return outside, inside, len(seen)


def run(tier):
    rep = Report("C09", tier, __doc__)
    prog = Program()
    names = class_names(prog)
    rep.ob("classes", "BidiClass variants", sorted(names) == sorted(ts.BIDI_CLASSES), "enum has %s; UAX#44 Table 13 has %s" % (sorted(set(names) ^ set(ts.BIDI_CLASSES)), len(ts.BIDI_CLASSES)))
    # (a) data
    res = tablecheck.get(prog)
    tablecheck.report_tables(rep, res, {ts.P + "bidi::BIDI_CLASS_TABLE"}, rule="L5")
    bt = res["tables"].get(ts.P + "bidi::BIDI_CLASS_TABLE", {})
    rep.ob("classes", "classes used by the table", set(bt.get("classes", [])) <= set(names), "table uses %s" % sorted(set(bt.get("classes", [])) - set(names)))
    common.lookup_sites(prog, rep)
    # default class on a miss and lookup result: A4 on bidi_class_cp with the search as oracle
    lookup_default(prog, rep)
    # (b)
    rtlset = has_rtl_set(prog, rep)
    # (c)
    aut = extract_sat(prog, rep)
    # (d)
    directionality_table(prog, rep)
    # (e)
    if aut is not None and rtlset is not None:
        rep.extra["states"] = aut.nstates()
        rep.extra["transitions"] = len(aut.delta)
        rep.floor("automaton states", aut.nstates(), 5)
        outside, inside, nprod = compare_languages(aut, rtlset, names)
        rep.extra["product_states"] = nprod
        rep.extra["exhaustive"] = True
        if outside is not None:
            w, ia, sa = outside
            rep.ob("language", "L(impl) = L(RFC 5893)", False, "shortest distinguishing class word %s: implementation %s, RFC %s" % (w, "accepts" if ia else "rejects", "accepts" if sa else "rejects"), key="language|outside-K|%s" % ("accepts" if ia else "rejects"), sample=True)
        else:
            rep.ob("language", "L(impl) Δ L(RFC 5893) ⊆ K", True, "no difference outside K over %d product states" % nprod, sample=True)
        if inside is not None:
            w, ia, sa = inside
            rep.ob("language", "L(impl) = L(RFC 5893) inside K", False, "shortest word %s: implementation %s, RFC %s (an NSM followed by a non-NSM in an RTL label)" % (w, "accepts" if ia else "rejects", "accepts" if sa else "rejects"), key="language|K:rtl-label-with-interior-NSM")
        rep.sample({"automaton_states": aut.nstates(), "sample_runs": [(w, au.run_word(aut, w)[1]) for w in (["R", "NSM"], ["R", "NSM", "R"], ["L", "EN"], ["R", "EN", "AN"], ["AL", "ES"])]})
    rep.assumptions += ["std's binary_search_by and str::find as documented"]
    return rep


def lookup_default(prog, rep):
    key = BIDI + "bidi_class_cp"
    b = prog.body(key)
    if b is None and prog.body(BIDI + "bidi_class") is not None:
        # no separate code-point helper: the character entry point searches the table itself and is checked in
        # full below
        key = BIDI + "bidi_class"
        b = prog.body(key)
    if b is None:
        rep.ob("lookup", key, False, "not found")
        return
    rep.fn(key)
    from .. import totality as tt

    # reuse TotalWorld's binary-search model: Ok(idx of the table) | Err
    w = tt.TotalWorld(prog, set(), key)
    m = ip.Machine(prog, w)
    try:
        arg_ty = "char" if key.endswith("::bidi_class") else "u32"
        outs = m.run(m.start(key, [ip.Sym("cp", arg_ty)]))
    except ip.AnalysisError as e:
        rep.analysis_error("lookup", key, e, b.where())
        return
    names = class_names(prog)
    from .. import tables

    tabs, _ = tables.all_tables(prog)
    rows = tabs.get(ts.P + "bidi::BIDI_CLASS_TABLE")
    if rows is None:
        rep.ob("lookup", "bidi_class_cp", False, "BIDI_CLASS_TABLE not folded", b.where(), key="lookup|default")
        return

    def decode(o):
        v = o.value
        if isinstance(v, ip.Adt) and v.ty == BIDICLASS:
            return ("const", names[v.variant])
        if isinstance(v, ip.Sym):
            return ("row",)
        return ("other", repr(v))

    try:
        err = common.exact_lookup(outs, "cp", arg_ty, rows, "L", decode)
    except ip.AnalysisError as e:
        rep.analysis_error("lookup", key, e, b.where())
        return
    if err is None and w.findings:
        err = "; ".join(f["detail"] for f in w.findings[:2])
    rep.ob("lookup", "bidi_class_cp(cp) = the table's class of cp, L when not listed — for every code point (%d paths)" % len(outs), err is None, err or "", b.where(), key="lookup|default", sample=True)
    # the character-level entry point used by the rule must be the same function of the code point
    key2 = BIDI + "bidi_class"
    b2 = prog.body(key2)
    if b2 is None:
        rep.ob("lookup", key2, False, "not found")
        return
    rep.fn(key2)
    w2 = tt.TotalWorld(prog, set(), key2)
    m2 = ip.Machine(prog, w2)
    try:
        outs2 = m2.run(m2.start(key2, [ip.Sym("cp", "char")]))
    except ip.AnalysisError as e:
        rep.analysis_error("lookup", key2, e, b2.where())
        return
    try:
        err2 = common.exact_lookup(outs2, "cp", "char", rows, "L", decode)
    except ip.AnalysisError as e:
        rep.analysis_error("lookup", key2, e, b2.where())
        return
    if err2 is None and w2.findings:
        err2 = "; ".join(f["detail"] for f in w2.findings[:2])
    rep.ob("lookup", "bidi_class(c) = the table's class of c, L when not listed — for every character (%d paths)" % len(outs2), err2 is None, err2 or "", b2.where(), key="lookup|char-entry", sample=True)
