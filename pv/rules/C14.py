"""C14 — the derived property of every code point follows the RFC 8264 §8 algorithm.

(a) decision list: A4 decision-table extraction on get_derived_property_value with the 14 category
    tests as oracles: outcome k is reached iff tests 1..k-1 answered false and test k true, in the RFC's
    order, each test asked about the function's own cp; (b) L4 binds each test to its tables, L5 the
    tables to the 6.3.0 UCD files / RFC lists, L2+L3 the lookups; (c) the five on_* callbacks are
    constant (ID_DIS / FREE_PVAL); (d) both entry points of both classes forward (cp | c as u32, self);
    (e) surrogates and values above 10FFFF match no table row and has_compat is false for them, so they
    fall through to DISALLOWED; (f) has_compat is `c.to_string() != c.to_string().nfkc().collect()`;
    (g) the classification computed from (a)+(b) for all 1 114 112 code points is compared with the IANA
    registry CSV (has_compat left free where the list reaches it)."""
import os

from spec import precis_spec as ps
from spec import tables_spec as ts

from .. import facts, interp as ip
from .. import tablecheck, tables, ucd
from ..mir import Program
from ..report import Report
from ..worlds import OracleWorld, arg_key
from . import common, l4

GDPV = "precis_core::stringclasses::get_derived_property_value"
DPV = "precis_core::DerivedPropertyValue"
COMMON = "precis_core::common::"


def dpv_name(prog, v):
    if isinstance(v, ip.Adt) and v.ty == DPV:
        return {x["idx"]: x["name"] for x in prog.adts[DPV]["variants"]}[v.variant]
    if isinstance(v, ip.Sym):
        if v.name[0] == "table-value":
            return "table:" + v.name[1]
        if v.name[0] == "callback":
            return v.name[1]
    return repr(v)


def decision_list(prog, rep):
    def pred(name):
        def h(m, st, callee, args, term):
            if not (len(args) == 1 and isinstance(args[0], ip.Sym) and args[0].name == "cp"):
                raise ip.AnalysisError("%s is asked about %r, not about the code point being classified" % (name, args))
            return ip.boolean(st.choose(("test", name), [True, False]))

        return h

    def table_val(name):
        def h(m, st, callee, args, term):
            if not (len(args) == 1 and isinstance(args[0], ip.Sym) and args[0].name == "cp"):
                raise ip.AnalysisError("%s is asked about %r, not about the code point being classified" % (name, args))
            if st.choose(("test", name), [True, False]):
                return ip.some(ip.Ref(("val", ip.Sym(("table-value", name), DPV + "!opaque"))))
            return ip.none()

        return h

    oracles = {}
    for b in prog.by_crate["precis_core"]:
        if b.kind == "fn" and b.id.startswith(COMMON) and b.id.count("::") == 2:
            nm = b.id.rsplit("::", 1)[1]
            f = prog.fns.get(b.id)
            if f is None or nm == "is_in_table":
                continue
            oracles[b.id] = table_val(nm) if f["output"].startswith("core::option::Option<") else pred(nm)

    class W(OracleWorld):
        def call(self, m, st, callee, args, term):
            # a generic `obj: &T` instead of `&dyn Trait`: the callback is an unresolved trait-method call on the
            # class object — the same callback
            if not callee.get("resolved") and callee.get("trait") and args:
                recv = args[0]
                while isinstance(recv, ip.Ref) and not (isinstance(recv, ip.Opq)):
                    try:
                        recv = m.load(st, recv.loc)
                    except Exception:
                        break
                if isinstance(recv, ip.Opq) and recv.kind == "class-object":
                    return self.virtual_call(m, st, callee, [recv] + list(args[1:]), term)
            return OracleWorld.call(self, m, st, callee, args, term)

        def virtual_call(self, m, st, callee, args, term):
            recv = args[0]
            if not (isinstance(recv, ip.Opq) and recv.kind == "class-object"):
                raise ip.AnalysisError("callback %s invoked on %r, not on the class object" % (callee["name"], recv))
            return ip.Sym(("callback", callee["name"]), DPV + "!opaque")

        def enum_variants(self, ty):
            if ty.endswith("!opaque"):
                raise ip.AnalysisError("a table value / callback result is inspected instead of returned")
            return OracleWorld.enum_variants(self, ty)

    b = prog.body(GDPV)
    rep.ob("anchor", GDPV, b is not None, "decision function not found")
    if b is None:
        return None
    rep.fn(GDPV)
    m = ip.Machine(prog, W(prog, oracles))
    try:
        outs = m.run(m.start(GDPV, [ip.Sym("cp", "u32"), ip.Opq("class-object", ())]))
    except ip.AnalysisError as e:
        rep.analysis_error("decision-list", GDPV, e, b.where())
        return None
    got = []
    for o in outs:
        tests = [(k[1], v) for k, v in o.state.log if k[0] == "test"]
        if o.kind != "return":
            rep.ob("decision-list", "path %s" % tests, False, "ends with %s" % o.kind, b.where())
            continue
        got.append((tests, dpv_name(prog, o.value)))
    # expected paths
    exp = []
    for k, (name, outcome) in enumerate(ps.DECISION_LIST):
        tests = [(n, False) for n, _ in ps.DECISION_LIST[:k]] + [(name, True)]
        exp.append((tests, ("table:" + name) if outcome == "table" else outcome))
    exp.append(([(n, False) for n, _ in ps.DECISION_LIST], ps.DEFAULT_OUTCOME))
    gmap = {tuple(t): r for t, r in got}
    for k, (tests, outcome) in enumerate(exp):
        name = tests[-1][0] if k < len(ps.DECISION_LIST) else "(none of the above)"
        g = gmap.get(tuple(tests))
        if g is None:
            # describe what the implementation does instead
            alt = [(t, r) for t, r in got if [x for x in t if x[1]] == [x for x in tests if x[1]]]
            d = "no path asks the tests in the RFC order %s; implementation reaches `%s true` after asking %s" % ([n for n, _ in tests], name, [n for n, _ in alt[0][0]] if alt else "nothing")
            rep.ob("decision-list", "step %d: %s" % (k + 1, name), False, d, b.where(), key="decision-list|order|%s" % name)
        else:
            rep.ob("decision-list", "step %d: %s ⇒ %s" % (k + 1, name, outcome), g == outcome, "implementation yields %s" % g, b.where(), key="decision-list|outcome|%s" % name, sample=(k % 4 == 0))
    rep.ob("decision-list", "no extra paths", len(got) == len(exp), "%d paths extracted, the RFC list has %d" % (len(got), len(exp)), b.where())
    rep.floor("decision-list paths", len(got), 15)
    return [n for n, _ in ps.DECISION_LIST]


def class_outcomes(prog, rep):
    m = ip.Machine(prog, OracleWorld(prog))
    n = 0
    for cls, want in sorted(ps.CLASS_OUTCOMES.items()):
        for cb in ps.CALLBACKS:
            key = "<%s as precis_core::stringclasses::SpecificDerivedPropertyValue>::%s" % (cls, cb)
            b = prog.body(key)
            if b is None:
                rep.ob("class-outcome", key, False, "callback not found")
                continue
            rep.fn(key)
            try:
                outs = m.run(m.start(key, [ip.Ref(("val", ip.Adt(cls, 0, ())))]))
                got = [dpv_name(prog, o.value) for o in outs]
            except ip.AnalysisError as e:
                rep.analysis_error("class-outcome", key, e, b.where())
                continue
            n += 1
            rep.ob("class-outcome", "%s::%s" % (cls.split("::")[-1], cb), got == [want], "returns %s, RFC 8264 §8 requires %s" % (got, want), b.where())
    rep.floor("class callbacks", n, 10)


def entry_points(prog, rep):
    n = 0
    for cls in sorted(ps.CLASS_OUTCOMES):
        for meth, aty in (("get_value_from_char", "char"), ("get_value_from_codepoint", "u32")):
            key = "<%s as precis_core::stringclasses::StringClass>::%s" % (cls, meth)
            b = prog.body(key)
            if b is None:
                rep.ob("entry-point", key, False, "method not found")
                continue
            rep.fn(key)
            seen = []

            def h(m, st, callee, args, term):
                seen.append((args[0], args[1]))
                st.emit(("gdpv", len(seen) - 1))
                return ip.Sym(("dpv-result",), DPV + "!opaque")

            m = ip.Machine(prog, OracleWorld(prog, {GDPV: h}))
            selfv = ip.Ref(("val", ip.Adt(cls, 0, ())))
            try:
                outs = m.run(m.start(key, [selfv, ip.Sym("x", aty)]))
            except ip.AnalysisError as e:
                n += 1
                if "unmodelled call" in str(e):
                    what = str(e).split("unmodelled call to ", 1)[1].split(" ", 1)[0]
                    rep.ob("entry-point", "%s::%s" % (cls.split("::")[-1], meth), False, "must be exactly one call of get_derived_property_value whose result is returned; it also calls %s (a shortcut in front of the decision list is a second definition of the derived property)" % what, b.where())
                else:
                    rep.analysis_error("entry-point", key, e, b.where())
                continue
            n += 1
            label = "%s::%s" % (cls.split("::")[-1], meth)
            okk, d, shortcuts = True, "", []
            for o in outs:
                calls = [e[1] for e in o.state.events if e[0] == "gdpv"]
                if o.kind != "return":
                    okk, d = False, "a path ends with %s" % o.kind
                    break
                if len(calls) == 1 and isinstance(o.value, ip.Sym) and o.value.name == ("dpv-result",):
                    cp, obj = seen[calls[0]]
                    if not (isinstance(cp, ip.Sym) and cp.name == "x" and cp.ty == "u32"):
                        okk, d = False, "code point passed on is %r, not the argument itself" % (cp,)
                    objv = obj
                    if isinstance(objv, ip.Ref) and objv.loc[0] == "val":
                        objv = objv.loc[1]
                    if okk and not (isinstance(objv, ip.Adt) and objv.ty == cls):
                        okk, d = False, "class object passed on is %r, not self" % (obj,)
                elif not calls and isinstance(o.value, ip.Adt) and o.value.ty == DPV:
                    # a shortcut in front of the decision list: a second definition of the derived property for
                    # the code points that take it — it has to agree with the list on every one of them
                    shortcuts.append((ip.rng_get(o.state, ip.Sym("x", aty)), dpv_name(prog, o.value)))
                else:
                    okk, d = False, "must be one call of get_derived_property_value whose result is returned, or a constant answer (%d calls on a path, result %s)" % (len(calls), dpv_name(prog, o.value))
                if not okk:
                    break
            if okk and not any(e for o in outs for e in o.state.events if e[0] == "gdpv"):
                okk, d = False, "no path consults get_derived_property_value"
            rep.ob("entry-point", label, okk, d, b.where())
            if okk and shortcuts:
                bad, undec, ncp = [], [], 0
                for rng, name in shortcuts:
                    for lo, hi in rng:
                        if hi > ucd.MAXCP:
                            # values that are no code points: no table row matches, HasCompat is false (no char)
                            ncp += 1
                            if name != ps.DEFAULT_OUTCOME:
                                bad.append((max(lo, ucd.MAXCP + 1), name, ps.DEFAULT_OUTCOME))
                        for cp in range(lo, min(hi, ucd.MAXCP) + 1):
                            ncp += 1
                            want = spec_outcome(prog, cp, cls)
                            if want is None:
                                undec.append(cp)
                            elif want != name:
                                bad.append((cp, name, want))
                d = ""
                if bad:
                    cp, name, want = bad[0]
                    d = "%d code point(s) get a different value from the shortcut than from the decision list, e.g. U+%04X: shortcut %s, RFC 8264 §8 list %s" % (len(bad), cp, name, want)
                elif undec:
                    d = "the shortcut answers for %d code point(s) (e.g. U+%04X) whose value in the list depends on HasCompat (NFKC data of an external crate): agreement not decided" % (len(undec), undec[0])
                rep.ob("entry-point", "%s: shortcut agrees with the decision list on the %d code point(s) that take it" % (label, ncp), not bad and not undec, d, b.where(), key="entry-point|shortcut|%s" % label)
    rep.floor("entry points", n, 4)


def has_compat(prog, rep):
    """has_compat(cp) = (cp is a scalar value c and NFKC(c) is not the one-character string c). Decided
    semantically: NFKC(c) is an unknown non-empty sequence that is [c] (case A), starts with c and goes on
    (case B), or starts with another character (case C); the string `c.to_string()` has content [c]; a string
    collected from the sequence has the sequence's content; string equality is content equality. Whatever the
    code does with these (compare strings, step the iterator twice, ...), it must answer false exactly in A."""
    key = COMMON + "has_compat"
    b = prog.body(key)
    if b is None:
        rep.ob("has-compat", key, False, "not found")
        return
    rep.fn(key)
    from ..models import deref_all

    class W(OracleWorld):
        def char_from_u32(self, m, st, v):
            if st.choose(("from_u32",), ["None", "Some"]) == "None":
                return ip.none()
            return ip.some(ip.Sym("c", "char"))

        def call(self, m, st, callee, args, term):
            p = callee["path"]
            name = callee["name"]
            a0 = deref_all(m, st, args[0]) if args else None
            if name == "to_string" and isinstance(a0, ip.Sym) and a0.name == "c":
                return ip.Str(("seq", "c"))
            if name == "from" and isinstance(a0, ip.Sym) and a0.name == "c" and "String" in callee["path"]:
                return ip.Str(("seq", "c"))
            if name in ("nfkc",) and "UnicodeNormalization" in p:
                src = a0
                if isinstance(src, ip.Opq) and src.kind == "once" and isinstance(src.data[0], ip.Sym) and src.data[0].name == "c":
                    src = src.data[0]  # std::iter::once(c).nfkc(): the one-character sequence [c]
                if (isinstance(src, ip.Sym) and src.name == "c") or (isinstance(src, ip.Str) and src.tag == ("seq", "c")):
                    case = st.choose(("nfkc-case",), ["A", "B", "C"])
                    return ip.Opq("nfkc-seq", (case, 0))
                raise ip.AnalysisError("nfkc of %r (not the character under test)" % (src,))
            if name in ("nfc", "nfd", "nfkd") and "UnicodeNormalization" in p:
                return ip.Opq("other-normal-form", (name,))
            if name == "collect" and isinstance(a0, ip.Opq) and a0.kind == "other-normal-form":
                st.emit(("wrong-form", a0.data[0]))
                return ip.Str(("seq", "form", a0.data[0]))
            if name == "collect" and isinstance(a0, ip.Opq) and a0.kind == "nfkc-seq":
                case, pos = a0.data
                if pos != 0:
                    raise ip.AnalysisError("collect of a partly consumed NFKC stream")
                return ip.Str(("seq", "c")) if case == "A" else ip.Str(("seq", "other", case))
            if name == "next" and args and isinstance(args[0], ip.Ref):
                from ..models import _innermost_ref

                ref, it = _innermost_ref(m, st, args[0])
                if isinstance(it, ip.Opq) and it.kind == "nfkc-seq":
                    case, pos = it.data
                    m.store(st, ref.loc, ip.Opq("nfkc-seq", (case, pos + 1)))
                    if pos == 0:
                        return ip.some(ip.Sym("c", "char") if case in ("A", "B") else ip.Sym("d", "char"))
                    if pos == 1:
                        if case == "A":
                            return ip.none()
                        if case == "B":
                            return ip.some(ip.Sym(("more", pos), "char"))
                    return ip.some(ip.Sym(("more", pos), "char")) if st.choose(("nfkc-more", pos), [True, False]) else ip.none()
            if name == "once" and p.startswith("core::iter::sources::once") and len(args) == 1:
                return ip.Opq("once", (args[0],))
            if name in ("eq", "ne") and len(args) == 2:
                x, y = deref_all(m, st, args[0]), deref_all(m, st, args[1])
                kinds = {getattr(x, "kind", None), getattr(y, "kind", None)}
                if kinds == {"nfkc-seq", "once"}:
                    # the whole NFKC stream compared with the one-element sequence [c]: equal exactly in case A
                    seq = x if x.kind == "nfkc-seq" else y
                    one = y if x.kind == "nfkc-seq" else x
                    if seq.data[1] == 0 and isinstance(one.data[0], ip.Sym) and one.data[0].name == "c":
                        r = seq.data[0] == "A"
                        return ip.boolean(r if name == "eq" else not r)
                if isinstance(x, ip.Str) and isinstance(y, ip.Str):
                    r = x.tag == y.tag
                    return ip.boolean(r if name == "eq" else not r)
            return OracleWorld.call(self, m, st, callee, args, term)

        def str_eq(self, st, a, b_):
            return a.tag == b_.tag

        def compare_hook(self, st, op, a, b_):
            names = {getattr(a, "name", None), getattr(b_, "name", None)}
            if op in ("Eq", "Ne") and names == {"c", "d"}:
                return op == "Ne"  # case C: the first character of NFKC(c) is not c
            if op in ("Eq", "Ne") and names == {"c"} and isinstance(a, ip.Sym) and isinstance(b_, ip.Sym):
                return op == "Eq"
            return None

    m = ip.Machine(prog, W(prog))
    try:
        outs = m.run(m.start(key, [ip.Sym("cp", "u32")]))
    except ip.AnalysisError as e:
        rep.analysis_error("has-compat", key, e, b.where())
        return
    bad = []
    seen = set()
    for o in outs:
        dec = {k[0]: v for k, v in o.state.log if isinstance(k, tuple) and k[0] in ("from_u32", "nfkc-case")}
        if o.kind != "return" or not isinstance(o.value, ip.I):
            bad.append("a path ends with %s %r" % (o.kind, o.value if o.kind == "return" else o.info))
            continue
        res = bool(o.value.v)
        if dec.get("from_u32") == "None":
            seen.add("non-scalar")
            if res:
                bad.append("for a value that is not a Unicode scalar value has_compat must be false")
            continue
        case = dec.get("nfkc-case")
        if case is None:
            wf = [e[1] for e in o.state.events if e[0] == "wrong-form"]
            bad.append("a path for a scalar value answers %s without consulting NFKC%s" % (res, " (it uses %s)" % wf[0].upper() if wf else ""))
            continue
        seen.add(case)
        if res != (case != "A"):
            bad.append("NFKC(c) %s: has_compat answers %s" % ({"A": "is exactly c", "B": "starts with c and goes on", "C": "starts with another character"}[case], res))
    for need in ("non-scalar", "A", "B", "C"):
        if need not in seen and not bad:
            bad.append("no path for the case %s" % need)
    rep.ob("has-compat", "has_compat(cp) = NFKC(c) differs from c (false for non-scalar values)", not bad, "; ".join(sorted(set(bad))[:2]), b.where(), key="has-compat", sample=True)


_CLASSIFIER = {}


def classifier(prog):
    """(exceptions, backward-compatible, predicate masks) from the folded tables and the L4 formulas."""
    if id(prog) in _CLASSIFIER:
        return _CLASSIFIER[id(prog)]
    tabs, errs = tables.all_tables(prog)
    mask = {}
    for name in set(sum((l4.formula_tables(f) for f in ps.PREDICATES.values()), [])):
        mask[name] = ucd.mask_from_rows(tabs.get(ts.C + name, []))
    exc = {}
    for lo, hi, v in tabs.get(ts.C + "EXCEPTIONS", []):
        for cp in range(lo, hi + 1):
            exc[cp] = v
    bc = {}
    for lo, hi, v in tabs.get(ts.C + "BACKWARD_COMPATIBLE", []):
        for cp in range(lo, hi + 1):
            bc[cp] = v

    def pred_mask(name):
        f = ps.PREDICATES[name]
        if f[0] == "or":
            out = bytearray(ucd.MAXCP + 1)
            for t in f[1]:
                mt = mask[t]
                out = bytearray(a | b for a, b in zip(out, mt))
            return out
        return ucd.mask_andnot(mask[f[1]], mask[f[2]])

    pm = {n: pred_mask(n) for n, _ in ps.DECISION_LIST if n in ps.PREDICATES}
    _CLASSIFIER[id(prog)] = (exc, bc, pm)
    return exc, bc, pm


def spec_outcome(prog, cp, cls):
    """The derived property the decision list (as extracted and bound by the other rules) gives cp in class
    cls; None when that depends on HasCompat of a non-ASCII code point (not decidable from the tables).
    For cp < U+0080, HasCompat is false: ASCII is unchanged by every Unicode normalization form."""
    exc, bc, pm = classifier(prog)
    if cp in exc:
        return exc[cp]
    if cp in bc:
        return bc[cp]
    if cp > ucd.MAXCP:
        return ps.DEFAULT_OUTCOME
    for name, outcome in ps.DECISION_LIST[2:]:
        if name == "has_compat":
            if cp < 0x80:
                continue
            return None
        if pm[name][cp]:
            return ps.CLASS_OUTCOMES[cls] if outcome.startswith("on_") else outcome
    return ps.DEFAULT_OUTCOME


def registry_crosscheck(prog, rep, res):
    """(g): classify all code points from the folded tables with the RFC list and compare with the CSV."""
    repo = facts.REPO
    csvp = os.path.join(repo, "precis-core/resources/csv/precis-tables-6.3.0.csv")
    if not os.path.exists(csvp):
        rep.ob("registry", "csv present", False, "%s missing" % csvp)
        return
    exc, bc, pm = classifier(prog)
    reg = ucd.csv_registry(csvp)
    covered = 0
    bad = []
    for lo, hi, props, desc in reg:
        want = {ps.CSV_NAMES[p] for p in props}
        for cp in range(lo, hi + 1):
            covered += 1
            poss = None
            if cp in exc:
                poss = [{exc[cp]}]
            elif cp in bc:
                poss = [{bc[cp]}]
            else:
                alts = []
                for name, outcome in ps.DECISION_LIST[2:]:
                    if name == "has_compat":
                        alts.append({"SpecClassDis", "SpecClassPval"})  # if HasCompat holds
                        continue
                    if pm[name][cp]:
                        o = {"SpecClassDis", "SpecClassPval"} if outcome.startswith("on_") else {outcome}
                        alts.append(o)
                        break
                else:
                    alts.append({ps.DEFAULT_OUTCOME})
                poss = alts
            # the registry row lists ID_DIS and FREE_PVAL together for class-specific outcomes
            if not any(want == p or (len(p) == 1 and want == p) for p in poss):
                if len(bad) < 5:
                    bad.append("U+%04X registry %s, computed %s" % (cp, sorted(want), [sorted(p) for p in poss]))
                else:
                    bad.append(None)
    rep.ob("registry", "all registry rows", not bad, "%d code point(s) disagree: %s" % (len(bad), [x for x in bad if x][:5]), csvp, sample=True)
    rep.ob("registry", "coverage", covered == ucd.MAXCP + 1, "registry rows cover %d of %d code points" % (covered, ucd.MAXCP + 1), csvp)
    rep.extra["registry_code_points"] = covered


def non_scalars(prog, rep, res):
    tabs, _ = tables.all_tables(prog)
    n = 0
    for path, rows in sorted(tabs.items()):
        if not path.startswith("precis_core::"):
            continue
        n += 1
        hit = [r for r in rows if r[0] <= r[1] and not (r[1] < 0xD800 or r[0] > 0xDFFF)]
        over = [r for r in rows if r[1] > ucd.MAXCP and r[0] <= r[1]]
        rep.ob("non-scalar", path.split("::")[-1], not hit and not over, "row %s covers surrogates or values above U+10FFFF" % (["%x..%x" % (r[0], r[1]) for r in (hit + over)[:2]],), path)
    rep.floor("core tables checked for surrogate/over-range rows", n, 44)


def run(tier):
    rep = Report("C14", tier, __doc__)
    prog = Program()
    tests = decision_list(prog, rep)
    names = [n for n, _ in ps.DECISION_LIST if n in ps.PREDICATES]
    n = l4.check_predicates(prog, rep, names)
    rep.floor("L4 predicates (decision list)", n, 11)
    res = tablecheck.get(prog)
    core = {p for p in res["tables"] if p.startswith("precis_core::")}
    tablecheck.report_tables(rep, res, core, rule="L5")
    rep.ob("L5-predicate", "is_unassigned = Cn & !Noncharacter_Code_Point", res["unassigned_predicate_diff"] is None, "differs at %s" % res["unassigned_predicate_diff"])
    common.lookup_sites(prog, rep)
    class_outcomes(prog, rep)
    entry_points(prog, rep)
    has_compat(prog, rep)
    non_scalars(prog, rep, res)
    registry_crosscheck(prog, rep, res)
    rep.extra["exhaustive"] = True
    rep.not_decided += ["NFKC as compiled into unicode-normalization agrees with Unicode 6.3.0 on every code point assigned in 6.3.0 (normalization stability policy assumed)"]
    rep.assumptions += ["Unicode normalization stability policy", "IANA registry CSV in the repository is the published 6.3.0 registry"]
    return rep
