"""C03 — context rules decide exactly what RFC 5892 Appendix A prescribes.

(a) registry: the set of code points with a registered rule equals the set whose derived property is
CONTEXTJ/CONTEXTO (both inclusions), each is routed to a rule that applies to it, and each rule's own
set (interval partition of its NotApplicable test) equals the RFC's; (b) L5: VIRAMA, the five script
tables and the four joining-type tables equal the 6.3.0 UCD files on every code point, L4 binds each
predicate to its table, L2/L3 the lookups; the joining-type tables are pairwise disjoint; (c) per-rule
logic: A4 path enumeration with the label abstracted to what a rule may observe — the character at
position+k is an atom known only through comparisons with constants (interval facts) and the table
predicates (one oracle answer per predicate and atom); positions are exact linear terms offset+k.
The two ZWNJ scans are closed by *shift induction*: at the second arrival at the loop head the live
state must equal the first one with every position shifted by ∓1. Whole-label scans are widened
(existential loops). Every returning path is then judged by the three-valued transcription of
Appendix A (spec/context_rules.py): the RFC's answer must be determined by the facts the path
established and equal the returned value — including Undefined exactly when the position or an
inspected neighbour lies outside the label."""
from spec import context_rules as cr
from spec import precis_spec as ps
from spec import tables_spec as ts

from .. import automaton as au
from .. import interp as ip
from .. import tablecheck, tables, ucd
from ..interp import AnalysisError, Adt, I, Opq, Outcome, Ref, Str, Sym, lin_parts, mk_lin, rng_get
from ..mir import Program
from ..report import Report
from ..worlds import OracleWorld
from . import C02, common, l4
from ..label import InductionFailure, LabelWorld, shift_value  # noqa: F401

CTX = "precis_core::context::"
COMMON = "precis_core::common::"
CTXERR = "precis_core::context::ContextRuleError"


class Facts:
    """The accessor the specification reads (one per returning path)."""

    def __init__(self, world, st):
        self.w = world
        self.st = st

    def present(self, k):
        return self.w.present(self.st, k)

    def _rng(self, key):
        name = ("at", key) if isinstance(key, int) else key
        return self.st.facts.get(("rng", name))

    def cp_is(self, k, v):
        return self.cp_in(k, v, v)

    def cp_in(self, k, lo, hi):
        r = self._rng(k)
        if r is None:
            return None
        inside = all(lo <= a and b <= hi for a, b in r)
        outside = all(b < lo or a > hi for a, b in r)
        return True if inside else False if outside else None

    def pred(self, name, k):
        nm = ("at", k) if isinstance(k, int) else k
        return self.st.facts.get(("pred", name, nm))

    def scan(self):
        keys = [("scan", e[1]) for e in self.st.events if e[0] == "scan"]
        return keys, any(e[0] == "scan-end" for e in self.st.events)


def result_of(prog, v):
    if isinstance(v, Adt) and v.ty == ip.RESULT:
        x = v.fields[0]
        if v.variant == 0 and isinstance(x, I):
            return bool(x.v)
        if v.variant == 0 and isinstance(x, Sym):
            return ("symbolic", x.name)
        if v.variant == 1 and isinstance(x, Adt):
            return [vv["name"] for vv in prog.adts[CTXERR]["variants"]][x.variant]
    return ("?", repr(v))


def check_rule(prog, rep, fn, spec, scan_test=None):
    key = CTX + fn
    b = prog.body(key)
    if b is None:
        rep.ob("rule-logic", fn, False, "rule function not found")
        return 0
    rep.fn(key)
    w = LabelWorld(prog)
    m = ip.Machine(prog, w)
    try:
        outs = m.run(m.start(key, [Str(("label",)), Sym("offset", "usize")]))
    except InductionFailure as e:
        rep.ob("rule-logic", "%s: scan visits consecutive positions" % fn, False, str(e), b.where(), key="rule-logic|%s|scan-not-uniform" % fn)
        return 0
    except AnalysisError as e:
        rep.analysis_error("rule-logic", fn, e, b.where())
        return 0
    n = 0
    bad = []
    for o in outs:
        if o.kind == "closed":
            if scan_test is not None and "state repeats" in str(o.info):
                F = Facts(w, o.state)
                keys, _ = F.scan()
                for k in keys:
                    t = scan_test(F, k)
                    if t is not False:
                        bad.append("the whole-label scan goes on past a character for which the RFC test is %s (code point facts %s)" % ("true" if t else "not known to be false", o.state.facts.get(("rng", k))))
            continue
        if o.kind != "return":
            bad.append("path ends with %s (%s)" % (o.kind, o.info))
            continue
        n += 1
        got = result_of(prog, o.value)
        F = Facts(w, o.state)
        if isinstance(got, tuple) and got[0] == "symbolic":
            # the returned bool is a predicate answer not yet decided: decide both ways
            for val in (True, False):
                s2 = o.state.clone()
                s2.facts[("bool", got[1])] = val
                # ("uf"...) not used here; symbolic results come from `Ok(pred(..))`: re-run is simpler
            bad.append("symbolic result %r" % (got,))
            continue
        want = spec(F)
        if want != got:
            reads = [e for e in o.state.events if e[0] == "read"]
            preds = {k[1] + str(k[2]): v for k, v in o.state.facts.items() if isinstance(k, tuple) and k[0] == "pred"}
            bad.append("returns %s where RFC 5892 gives %s (reads %s, predicates %s, offset %s)" % (got, want, [(r[1], "present" if r[2] else "absent") for r in reads], preds, o.state.facts.get(("rng", "offset"))))
    rep.ob("rule-logic", "%s = Appendix A on every path (%d returning paths)" % (fn, n), not bad, "; ".join(bad[:3]), b.where(), key="rule-logic|%s" % fn, sample=True)
    for ind in w.inductions[:2]:
        rep.sample({"shift-induction": ind})
    steps = {i["step"] for i in w.inductions}
    if fn == "rule_zero_width_nonjoiner":
        rep.ob("rule-logic", "ZWNJ scans step by exactly one position in both directions", steps == {-1, 1}, "induction steps observed: %s" % sorted(steps), b.where(), key="rule-logic|zwnj-steps")
    return n


def run(tier):
    rep = Report("C03", tier, __doc__)
    prog = Program()
    # (a) registry
    ctx, parts, owns = C02.registry_vs_ctx(prog, rep)
    if parts is not None:
        dom = [(lo, hi, r) for lo, hi, r in parts if r]
        extra = []
        for lo, hi, r in dom:
            for cp in range(lo, min(hi, 0x10FFFF) + 1):
                if cp not in ctx:
                    extra.append(cp)
            if hi > 0x10FFFF:
                extra.append(hi)
        rep.ob("registry", "only CONTEXTJ/CONTEXTO code points have a rule", not extra, "rule registered for %s whose derived property is not contextual" % ["U+%04X" % c for c in extra[:5]], key="registry|extra")
        def merge(iv):
            out = []
            for lo, hi in sorted(iv or []):
                if out and lo <= out[-1][1] + 1:
                    out[-1] = (out[-1][0], max(out[-1][1], hi))
                else:
                    out.append((lo, hi))
            return out

        for fn, (spec, own, _t) in sorted(cr.RULES.items()):
            if owns is not None and (CTX + fn) in owns and owns[CTX + fn] is None:
                continue  # (own set not extracted: reported once as an analysis error)
            got = merge((owns or {}).get(CTX + fn))
            rep.ob("own-set", "%s applies to %s" % (fn, ", ".join("%04X..%04X" % x for x in own)), got == sorted(own), "implementation's own set: %s" % (["%04X..%04X" % x for x in (got or [])][:4],), key="own-set|%s" % fn)
        routed = {}
        for lo, hi, r in dom:
            routed.setdefault(r.rsplit("::", 1)[1], []).append((lo, hi))
        for fn, (spec, own, _t) in sorted(cr.RULES.items()):
            rep.ob("registry", "%s is registered for its own code points" % fn, merge(routed.get(fn, [])) == sorted(own), "registered for %s" % (["%04X..%04X" % x for x in routed.get(fn, [])],), key="registry|routing|%s" % fn)
    # (b) data
    res = tablecheck.get(prog)
    tablecheck.report_tables(rep, res, {ts.C + t for t in cr.CONTEXT_TABLES}, rule="L5")
    n = l4.check_predicates(prog, rep, cr.CONTEXT_PREDICATES)
    rep.floor("L4 predicates (context)", n, 10)
    common.lookup_sites(prog, rep)
    tabs, _ = tables.all_tables(prog)
    jt = {t: ucd.mask_from_rows(tabs.get(ts.C + t, [])) for t in ("DUAL_JOINING", "LEFT_JOINING", "RIGHT_JOINING", "TRANSPARENT")}
    names = sorted(jt)
    for i in range(len(names)):
        for j in range(i + 1, len(names)):
            both = ucd.first_diff(bytearray(a & b for a, b in zip(jt[names[i]], jt[names[j]])), bytearray(len(jt[names[i]])))
            rep.ob("data", "%s ∩ %s = ∅" % (names[i], names[j]), both is None, "U+%04X is in both" % both if both is not None else "")
    # (c) logic
    total = 0
    for fn, (spec, own, scan_test) in sorted(cr.RULES.items()):
        total += check_rule(prog, rep, fn, spec, scan_test)
    rep.extra["returning_paths"] = total
    rep.floor("rule functions analysed", sum(1 for fn in cr.RULES if prog.body(CTX + fn) is not None), 8)
    rep.floor("returning paths judged", total, 40)
    rep.extra["exhaustive"] = True
    rep.assumptions += ["Chars::nth as documented", "termination and absence of panics in the scans is C01"]
    return rep
