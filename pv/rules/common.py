"""Shared lemmas (DESIGN §3): L3 lookup sites, helpers used by several property modules."""
from .. import prov
from ..mir import place_str

BSEARCH = "core::slice::<impl [T]>::binary_search_by"
PCMP = "<precis_core::Codepoints as core::cmp::PartialOrd<u32>>::partial_cmp"
LIB = ("precis_core", "precis_profiles")


def lib_bodies(prog):
    for c in LIB:
        for b in prog.by_crate[c]:
            if b.d.get("in_test"):
                continue
            yield b


def where(t):
    from ..mir import norm_file

    sp = t.get("span") or {}
    return "%s:%s" % (norm_file(sp.get("file")), sp.get("line"))


LOSSLESS = {
    "core::char::convert::<impl core::convert::From<char> for u32>::from",
    "core::convert::num::<impl core::convert::From<u8> for u32>::from",
    "core::convert::num::<impl core::convert::From<u16> for u32>::from",
    "<T as core::convert::Into<U>>::into",
    "<T as core::convert::From<T>>::from",
}


def lookup_sites(prog, rep, floor=2):
    """L3: every table lookup has the shape  T.binary_search_by(|e| e[.0].partial_cmp(&cp).unwrap())
    with receiver = the element, argument = the captured code point, and any T[idx] indexes the same
    static with the Ok payload of that search."""
    sites = []
    for b in lib_bodies(prog):
        for bb, t in b.calls():
            c = t["callee"]
            if c and c["path"] == BSEARCH:
                sites.append((b, bb, t))
    for b, bb, t in sites:
        inst = b.id
        defs = prov.Defs(b)
        tab = prov.operand_origin(b, t["args"][0], defs)
        clo = prov.operand_origin(b, t["args"][1], defs)
        tab_ok = tab[0] in ("static", "arg")
        rep.ob("L3-table", inst, tab_ok, "searched slice is %s (must be a table static or the table parameter)" % prov.describe(tab), where(t))
        if clo[0] != "agg" or clo[1].get("agg") != "closure":
            rep.ob("L3-closure", inst, False, "comparator is not a closure literal: %s" % prov.describe(clo), where(t))
            continue
        cbody = prog.body(clo[1]["def"])
        if cbody is None:
            rep.ob("L3-closure", inst, False, "closure body %s not exported" % clo[1]["def"], where(t))
            continue
        rep.fn(b.key, cbody.key)
        # what the closure captured (field i of the env) in the parent
        caps = [prov.operand_origin(b, o, defs) for o in clo[1]["ops"]]
        cdefs = prov.Defs(cbody)
        pcs = [(cb, ct) for cb, ct in cbody.calls() if ct["callee"] and ct["callee"]["path"] == PCMP]
        if len(pcs) != 1:
            # not the literal idiom: judge what the comparator computes instead (semantic fallback)
            res = semantic_lookup_sites(prog, rep, [b]).get(b.id)
            if not res:
                rep.ob("L3-comparator", inst, False, "the comparator is not `entry.partial_cmp(&key).unwrap()` and the search site was not reached by the semantic fallback", cbody.where())
            else:
                errs = [r for r in res if r]
                rep.ob("L3-comparator", inst + " (semantic)", not errs, "; ".join(sorted(set(errs))[:2]), cbody.where(), key="L3-comparator|%s" % inst)
            continue
        ct = pcs[0][1]
        recv = prov.operand_origin(cbody, ct["args"][0], cdefs)
        arg = prov.operand_origin(cbody, ct["args"][1], cdefs)
        recv_ok = recv[0] == "arg" and recv[1] == 2 and prov.fields_of(recv[2]) in ([], [0])
        if not recv_ok:
            # partial_cmp is there, but not applied to the element itself (a key-extraction closure, a helper):
            # judge what the comparator computes instead
            res = semantic_lookup_sites(prog, rep, [b]).get(b.id)
            if res:
                errs = [r for r in res if r]
                rep.ob("L3-comparator", inst + " (semantic)", not errs, "; ".join(sorted(set(errs))[:2]), cbody.where(), key="L3-comparator|%s" % inst)
                continue
        rep.ob("L3-orientation", inst + " receiver", recv_ok, "partial_cmp receiver is %s; must be the table element (arg2[.0]) — a swapped orientation inverts the search" % prov.describe(recv), where(ct), sample=True)
        arg_ok = arg[0] == "arg" and arg[1] == 1 and len(prov.fields_of(arg[2])) == 1
        cap_desc = "?"
        if arg_ok:
            ci = prov.fields_of(arg[2])[0]
            if ci < len(caps):
                cap = caps[ci]
                cap_desc = prov.describe(cap)
                # the captured value must be the function's code point: an argument or an IntToInt cast of one
                arg_ok = cap[0] == "arg" or (cap[0] == "op" and cap[1]["k"] == "cast" and prov.operand_origin(b, cap[1]["op"], defs)[0] == "arg")
                if cap[0] == "call" and cap[1] and cap[1]["path"] in LOSSLESS and prov.operand_origin(b, cap[4]["args"][0], defs)[0] == "arg":
                    arg_ok = True  # u32::from(c): the same code point
        rep.ob("L3-orientation", inst + " argument", arg_ok, "partial_cmp argument is %s / capture %s; must be the captured code point" % (prov.describe(arg), cap_desc), where(ct))
        # the closure returns unwrap(partial_cmp(..))
        ret = prov.origin(cbody, 0, cdefs)
        ret_ok = ret[0] == "call" and ret[1] and ret[1]["path"].startswith("core::option::Option::<T>::unwrap")
        if ret_ok:
            inner = prov.operand_origin(cbody, ret[4]["args"][0], cdefs)
            ret_ok = inner[0] == "call" and inner[1] and inner[1]["path"] == PCMP
        rep.ob("L3-comparator", inst + " result", ret_ok, "closure result is %s; must be partial_cmp(..).unwrap() unchanged (no reverse()/then())" % prov.describe(ret), cbody.where())
        # indexing: any T[idx] in the parent or in closures it creates
        closures = [d[3]["rv"] for dl in defs.defs.values() for d in dl if d[0] == "assign" and d[3]["rv"]["k"] == "aggregate" and d[3]["rv"].get("agg") == "closure"]
        owners = [(b, None)] + [(prog.body(rv["def"]), rv) for rv in closures]
        for ob, crv in owners:
            if ob is None:
                continue
            odefs = prov.Defs(ob)
            for bl in ob.blocks:
                if bl["cleanup"]:
                    continue
                for st in bl["stmts"]:
                    if st["k"] != "assign":
                        continue
                    rv = st["rv"]
                    pl = rv.get("place") if rv["k"] == "ref" else (rv["op"].get("place") if rv["k"] == "use" and rv["op"]["k"] in ("copy", "move") else None)
                    if not pl or not any(p["k"] == "index" for p in pl["p"]):
                        continue
                    base = prov.origin(ob, pl["l"], odefs)
                    if crv is not None and base[0] == "arg" and base[1] == 1 and prov.fields_of(base[2]):
                        # a capture of the closure: what the parent put into that environment slot
                        ci = prov.fields_of(base[2])[0]
                        if ci < len(crv["ops"]):
                            base = prov.operand_origin(b, crv["ops"][ci], defs)
                    if tab[0] == "static":
                        same = base[0] == "static" and base[1] == tab[1]
                    else:
                        same = base[0] == tab[0] and base[1] == tab[1] and prov.fields_of(base[2]) == prov.fields_of(tab[2])
                    rep.ob("L3-index", "%s indexes %s" % (ob.id, prov.describe(base)), same, "indexed table differs from the searched table %s" % prov.describe(tab), "%s:%d" % (st["span"]["file"], st["span"]["line"]))
    rep.floor("table lookup sites (binary_search_by)", len(sites), floor)
    return sites


def exact_lookup(outs, arg_name, arg_ty, rows, default, decode):
    """Exactness of a table-lookup function that may have range shortcuts around the search. `outs` are the
    paths of the function on a symbolic argument, with TotalWorld's binary-search decisions ('bsearch' ->
    Ok/Err) in the log and interval facts for the argument. rows = folded table [(lo, hi, value)].
    decode(outcome) -> ('row',) when the returned value is the found row's own value, ('const', v) for a
    constant, ('other', text). For every code point of every path the result must be the table's value (or
    the default). Returns an error text or None."""
    from .. import interp as ip

    MAXCP = 0x10FFFF
    val = {}
    for lo, hi, v in rows:
        for cp in range(lo, min(hi, MAXCP) + 1):
            val[cp] = v
    covered = bytearray(MAXCP + 1)
    for o in outs:
        if o.kind != "return":
            return "a path ends with %s (%s)" % (o.kind, o.info)
        pp = [k for k, v in o.state.log if isinstance(k, tuple) and k[0] == "ppoint"]
        if pp:
            # not a verdict about the function: this rule follows binary_search* and range pre-checks only
            raise ip.AnalysisError("the lookup positions itself with partition_point on %s: which entry that selects is not modelled by this rule" % (pp[0][1],))
        br = [v for k, v in o.state.log if isinstance(k, tuple) and k[0] == "bsearch"]
        other = [k for k, v in o.state.log if isinstance(k, tuple) and k[0] in ("ord", "bool", "unproved-cmp")]
        if other:
            return "the result depends on %r" % (other[0],)
        if len(br) > 1:
            return "more than one search on a path"
        d = decode(o)
        for lo, hi in ip.rng_get(o.state, ip.Sym(arg_name, arg_ty)):
            for cp in range(max(lo, 0), min(hi, MAXCP) + 1):
                member = cp in val
                if br and member != (br[0] == "Ok"):
                    continue
                covered[cp] = 1
                want = val.get(cp, default)
                if d[0] == "row":
                    if not (br and br[0] == "Ok"):
                        return "U+%04X: a row value is returned without a successful search" % cp
                    continue
                if d[0] == "const":
                    if d[1] != want:
                        return "U+%04X: returns %s, the table says %s%s" % (cp, d[1], want, "" if br else " (decided by a range test, no search)")
                    continue
                return "U+%04X: returns %s" % (cp, d[1])
    miss = covered.find(0)
    if miss != -1 and not (arg_ty == "char" and 0xD800 <= miss <= 0xDFFF):
        return "no path covers U+%04X" % miss
    return None


# ------------------------------------------------------------------ L3, semantic: what a comparator closure computes
CPS_TY = "precis_core::Codepoints"
RANGE_INCL = "core::ops::range::RangeInclusive"


def comparator_semantics(prog, clo_value, caller_machine, caller_state, elem_ty):
    """Evaluate a binary-search comparator closure on symbolic table entries — Single(c), Range(s, e) — against
    the captured key it closes over. Two integer atoms are related only through an order oracle (<, =, >), so
    the paths enumerate every relative order; on each, the closure must answer Less iff the entry lies
    entirely below the key (end < key), Greater iff entirely above (start > key), Equal otherwise: the
    orientation binary_search_by needs. Returns None (ok) or an error text; raises AnalysisError when the
    closure cannot be followed."""
    import itertools

    from .. import interp as ip
    from ..interp import Adt, AnalysisError, I, Ref, Sym, Tup
    from ..worlds import OracleWorld

    v = clo_value
    if isinstance(v, Ref):
        v = caller_machine.load(caller_state, v.loc)
    if not isinstance(v, ip.Clo):
        raise AnalysisError("comparator is %r, not a closure" % (v,))
    body = prog.body(v.defpath)
    if body is None:
        raise AnalysisError("closure body %s not exported" % v.defpath)
    # captures: resolve references into the caller's frames to plain values (the nested run has its own frames)
    caps = []
    key_syms = []
    for c in v.captures:
        cv = c
        depth = 0
        while isinstance(cv, Ref) and cv.loc[0] != "val" and depth < 4:
            inner = caller_machine.load(caller_state, cv.loc)
            cv = Ref(("val", inner)) if not isinstance(inner, Ref) else inner
            depth += 1
        caps.append(cv)
        x = cv.loc[1] if isinstance(cv, Ref) and cv.loc[0] == "val" else cv
        if isinstance(x, (Sym, I)) and getattr(x, "ty", "") in ("u32", "char"):
            key_syms.append(x)
    if len(key_syms) != 1:
        raise AnalysisError("the comparator closes over %d integer values: which one is the searched key is not evident" % len(key_syms))
    key = key_syms[0]
    clo = ip.Clo(v.defpath, tuple(caps))
    ety = elem_ty.strip()
    problems = []
    for shape in ("single", "range"):
        if shape == "single":
            entry = Adt(CPS_TY, 0, (Sym("e_c", "u32"),))
            lo = hi = "e_c"
        else:
            entry = Adt(CPS_TY, 1, (Adt(RANGE_INCL, 0, (Sym("e_s", "u32"), Sym("e_e", "u32"), ip.boolean(False))),))
            lo, hi = "e_s", "e_e"
        if ety in (CPS_TY, "&" + CPS_TY):
            elem = entry
        elif ety.startswith("(") and ety.endswith(")"):
            from .. import types as ty_

            parts = ty_.split_top(ety[1:-1])
            if not parts or parts[0] != CPS_TY:
                raise AnalysisError("table element type %s" % ety)
            elem = Tup(tuple([entry] + [ty_.fresh(prog, t, ("elem", i)) for i, t in enumerate(parts[1:], 1)]))
        else:
            raise AnalysisError("table element type %s" % ety)
        w = OracleWorld(prog)
        m = ip.Machine(prog, w)
        sub = ip.State()
        sub.nuid = 70_000
        fr = ip.Frame(body, sub.fresh())
        first_ty = body.locals[1]["ty"]
        fr.locals[1] = Ref(("val", clo)) if first_ty.startswith("&") else clo
        fr.locals[2] = Ref(("val", elem))
        sub.frames.append(fr)
        outs = m.run(sub, max_paths=400)
        for o in outs:
            if o.kind != "return" or not (isinstance(o.value, Adt) and o.value.ty == ip.ORDERING):
                problems.append("on a %s entry the comparator ends with %s %r" % (shape, o.kind, o.value if o.kind == "return" else o.info))
                continue
            got = o.value.variant - 1
            # what the path knows about the order of (lo, key) and (hi, key)
            known = {}
            for k, val in o.state.log:
                if isinstance(k, tuple) and k[0] == "ord":
                    known[(k[1], k[2])] = val
                if isinstance(k, tuple) and k[0] == "cmp" and isinstance(key, I):
                    pass

            def parts(x):
                if isinstance(x, tuple) and len(x) == 3 and x[0] == "lin":
                    return x[1], x[2]
                return x, 0

            def rel(name):
                kn = key.name if isinstance(key, Sym) else None
                # every decision the path took about (name + dx) ? (key + dy) narrows the order of name and key
                # (integer arithmetic: name + 1 <= key  iff  name < key)
                allowed = None
                for (x, y), v in known.items():
                    (bx, dx), (by, dy) = parts(x), parts(y)
                    if bx == name and by == kn and kn is not None:
                        d, vv = dy - dx, v
                    elif bx == kn and by == name and kn is not None:
                        d, vv = dx - dy, -v
                    else:
                        continue
                    if abs(d) > 64:
                        raise AnalysisError("the comparator computes with a table bound (offset %d)" % d)
                    ok_ = set()
                    for nm in range(0, 200):
                        c_ = (nm > 100 + d) - (nm < 100 + d)  # order of name and key + d, with key = 100
                        if c_ == vv:
                            ok_.add((nm > 100) - (nm < 100))
                    allowed = ok_ if allowed is None else (allowed & ok_)
                if allowed is not None:
                    return sorted(allowed)
                if isinstance(key, I):
                    r = ip.rng_get(o.state, Sym(name, "u32"))
                    outc = set()
                    for a, b_ in r:
                        if a < key.v:
                            outc.add(-1)
                        if a <= key.v <= b_:
                            outc.add(0)
                        if b_ > key.v:
                            outc.add(1)
                    return sorted(outc)
                return [-1, 0, 1]

            for rl, rh in itertools.product(rel(lo), rel(hi)):
                if shape == "single" and rl != rh:
                    continue
                if shape == "range" and rl > rh:
                    continue  # start <= end
                want = -1 if rh < 0 else 1 if rl > 0 else 0
                if got != want:
                    problems.append("for a %s entry with %s the comparator answers %s, binary search needs %s" % (shape, "entry %s key" % ("<" if rh < 0 else ">" if rl > 0 else "containing the"), ["Less", "Equal", "Greater"][got + 1], ["Less", "Equal", "Greater"][want + 1]))
    return "; ".join(sorted(set(problems))[:2]) if problems else None


SLICE_EDGE = ("core::slice::<impl [T]>::first", "core::slice::<impl [T]>::last")


def static_path_of(m, st, v):
    from ..models import deref_all
    from .. import interp as ip

    if isinstance(v, ip.Ref) and v.loc[0] == "static" and not v.loc[2]:
        return v.loc[1]
    x = deref_all(m, st, v)
    if isinstance(x, ip.Opq) and x.kind == "static":
        return x.data[0]
    return None


def edge_row(prog, path, which):
    """The first / last row of a folded table static as a concrete value: a Codepoints entry, or a tuple that
    starts with one (`table.first()` / `table.last()` in a lookup helper's range pre-check). None: empty table."""
    import re as _re

    from .. import interp as ip
    from .. import tables
    from .. import types as ty_

    tabs, _errs = tables.all_tables(prog)
    rows = tabs.get(path)
    if rows is None:
        raise ip.AnalysisError("first()/last() of %s, which is not a folded table static" % path)
    if not rows:
        return None
    lo, hi, val = rows[0] if which == "first" else rows[-1]
    cps = ip.Adt(CPS_TY, 0, (ip.I(lo, "u32"),)) if lo == hi else ip.Adt(CPS_TY, 1, (ip.Adt(RANGE_INCL, 0, (ip.I(lo, "u32"), ip.I(hi, "u32"), ip.boolean(False))),))
    mm = _re.match(r"^\[(.*);\s*\d+\]$", prog.statics.get(path, {}).get("ty", ""))
    ety = mm.group(1).strip() if mm else CPS_TY
    if ety == CPS_TY:
        return cps
    if ety.startswith("("):
        parts = ty_.split_top(ety[1:-1])
        rest = []
        for i, t in enumerate(parts[1:], 1):
            t = t.strip()
            a = prog.adts.get(t)
            if isinstance(val, int) and t in ip.INT_BITS:
                rest.append(ip.I(val, t))
            elif isinstance(val, str) and a is not None:
                idx = next((x["idx"] for x in a["variants"] if x["name"] == val), None)
                rest.append(ip.Adt(t, idx, ()) if idx is not None else ty_.fresh(prog, t, ("edge", path, which, i)))
            else:
                rest.append(ty_.fresh(prog, t, ("edge", path, which, i)))
        return ip.Tup(tuple([cps] + rest))
    raise ip.AnalysisError("first()/last() of a table whose rows are %s" % ety)


def slice_edge(prog, m, st, callee, args):
    """Oracle for slice::first / slice::last on a table static."""
    from .. import interp as ip

    path = static_path_of(m, st, args[0])
    if path is None:
        return None
    row = edge_row(prog, path, callee["name"])
    if row is None:
        return ip.none()
    return ip.some(ip.Ref(("val", row)))


def semantic_lookup_sites(prog, rep, failed):
    """Fallback for L3 sites whose comparator is not the literal `entry.partial_cmp(&key).unwrap()`: interpret a
    non-generic function that reaches the site and judge the actual closure value at the search call."""
    from .. import interp as ip
    from .. import types as ty_
    from ..interp import AnalysisError
    from ..worlds import OracleWorld

    results = {}

    class W(OracleWorld):
        def call(self, m, st, callee, args, term):
            if callee["path"] == BSEARCH:
                site_fn = st.frames[-1].body.id
                sl = args[0]
                ety = None
                if isinstance(sl, ip.Ref) and sl.loc[0] == "static":
                    sty = prog.statics.get(sl.loc[1], {}).get("ty", "")
                    import re as _re

                    mm = _re.match(r"^\[(.*); \d+\]$", sty)
                    ety = mm.group(1) if mm else None
                if ety is None:
                    fr = st.frames[-1]
                    a0 = term["args"][0]
                    lty = fr.body.locals[a0["place"]["l"]]["ty"] if a0.get("k") in ("copy", "move") else ""
                    import re as _re

                    mm = _re.match(r"^&(?:'[a-z_]+ )?\[(.*)\]$", lty)
                    ety = mm.group(1) if mm else None
                if ety is not None and "Codepoints" not in ety and "?" not in ety and not __import__("re").match(r"^[A-Z]\w*$", ety):
                    # a search over something that is not a table of Codepoints entries (e.g. a registry keyed by
                    # plain ranges): outside this lemma — whatever property uses that table judges it
                    n = st.ext.get("nbs", 0) + 1
                    found = st.choose(("bs", n), [True, False])
                    st.ext["nbs"] = n
                    results.setdefault(site_fn, []).append(None)
                    rep.sample({"L3-out-of-scope": site_fn, "element type": ety})
                    if found:
                        return ip.ok(ip.Sym(("idx", n), "usize"))
                    return ip.err(ip.Sym(("ins", n), "usize"))
                if ety is None or not (ety.startswith("(") or "Codepoints" in ety):
                    # a generic element type: the caller's static decides — look one frame up
                    for fr2 in reversed(st.frames[:-1]):
                        t2 = fr2.body.blocks[fr2.bb]["term"]
                        for a in t2.get("args", []):
                            if a.get("k") == "static_ref" or (a.get("k") in ("copy", "move")):
                                pass
                    raise AnalysisError("element type of the searched slice is not evident (%r)" % (ety,))
                try:
                    err = comparator_semantics(prog, args[1], m, st, ety)
                except AnalysisError as e:
                    err = "analysis-error: %s" % e
                n = st.ext.get("nbs", 0) + 1
                found = st.choose(("bs", n), [True, False])  # (decided before anything is recorded: a fork re-executes)
                st.ext["nbs"] = n
                results.setdefault(site_fn, []).append(err)
                if found:
                    return ip.ok(ip.Sym(("idx", n), "usize"))
                return ip.err(ip.Sym(("ins", n), "usize"))
            if callee["path"] in SLICE_EDGE:
                r = slice_edge(prog, m, st, callee, args)
                if r is not None:
                    return r
            return OracleWorld.call(self, m, st, callee, args, term)

        def static_value(self, st, path):
            return ip.Opq("static", (path,))

        def index_hook(self, st, base, idx):
            import re as _re

            ety = "?"
            if isinstance(base, ip.Opq) and base.kind == "static":
                mm = _re.match(r"^\[(.*); \d+\]$", prog.statics.get(base.data[0], {}).get("ty", ""))
                ety = mm.group(1) if mm else "?"
            elif isinstance(base, ip.Opq) and base.kind == "fresh-ref" and isinstance(base.data, tuple):
                mm = _re.match(r"^\[(.*)\]$", str(base.data[0]))
                ety = mm.group(1) if mm else "?"
            return ty_.fresh(prog, ety, ("row", st.fresh()))

        def opaque_field(self, st, v, step):
            return ip.Top("?")

        def binop_hook(self, st, op, a, b):
            if op in ("Lt", "Le", "Gt", "Ge", "Eq", "Ne") and (isinstance(a, ip.Top) or isinstance(b, ip.Top)):
                return ip.Sym(("bounds", op, st.fresh()), "bool")  # bounds checks are C01's business
            return None

        def len_hook(self, st, a):
            return ip.Top("usize")

    for b in failed:
        f = prog.fns.get(b.key)
        generic = f is None or any(__import__("re").search(r"(^|[^A-Za-z_:])[A-Z]\b", t) for t in f["inputs"])
        roots = [b]
        if generic:
            roots = [c for c in lib_bodies(prog) if any(t["callee"] and t["callee"]["path"] == b.id for _, t in c.calls())]
        for r in roots[:6]:
            fr_ = prog.fns.get(r.key)
            if fr_ is None:
                continue
            m = ip.Machine(prog, W(prog))
            st0 = ip.State()
            try:
                m.run(m.start(r.key, ty_.fresh_args(prog, st0, fr_["inputs"]), st0), max_paths=400)
            except AnalysisError as e:
                results.setdefault(b.id, []).append("analysis-error: %s" % e)
    return results
