"""Shared lemmas (DESIGN §3): L3 lookup sites, helpers used by several property modules."""
from .. import prov
from ..mir import place_str

BSEARCH = "core::slice::<impl [T]>::binary_search_by"
PCMP = "<precis_core::Codepoints as core::cmp::PartialOrd<u32>>::partial_cmp"
LIB = ("precis_core", "precis_profiles")


def lib_bodies(prog):
    for c in LIB:
        for b in prog.by_crate[c]:
            if b.d.get("in_test"):
                continue
            yield b


def where(t):
    from ..mir import norm_file

    sp = t.get("span") or {}
    return "%s:%s" % (norm_file(sp.get("file")), sp.get("line"))


LOSSLESS = {
    "core::char::convert::<impl core::convert::From<char> for u32>::from",
    "core::convert::num::<impl core::convert::From<u8> for u32>::from",
    "core::convert::num::<impl core::convert::From<u16> for u32>::from",
    "<T as core::convert::Into<U>>::into",
    "<T as core::convert::From<T>>::from",
}


def lookup_sites(prog, rep, floor=2):
    """L3: every table lookup has the shape  T.binary_search_by(|e| e[.0].partial_cmp(&cp).unwrap())
    with receiver = the element, argument = the captured code point, and any T[idx] indexes the same
    static with the Ok payload of that search."""
    sites = []
    for b in lib_bodies(prog):
        for bb, t in b.calls():
            c = t["callee"]
            if c and c["path"] == BSEARCH:
                sites.append((b, bb, t))
    for b, bb, t in sites:
        inst = b.id
        defs = prov.Defs(b)
        tab = prov.operand_origin(b, t["args"][0], defs)
        clo = prov.operand_origin(b, t["args"][1], defs)
        tab_ok = tab[0] in ("static", "arg")
        rep.ob("L3-table", inst, tab_ok, "searched slice is %s (must be a table static or the table parameter)" % prov.describe(tab), where(t))
        if clo[0] != "agg" or clo[1].get("agg") != "closure":
            rep.ob("L3-closure", inst, False, "comparator is not a closure literal: %s" % prov.describe(clo), where(t))
            continue
        cbody = prog.body(clo[1]["def"])
        if cbody is None:
            rep.ob("L3-closure", inst, False, "closure body %s not exported" % clo[1]["def"], where(t))
            continue
        rep.fn(b.key, cbody.key)
        # what the closure captured (field i of the env) in the parent
        caps = [prov.operand_origin(b, o, defs) for o in clo[1]["ops"]]
        cdefs = prov.Defs(cbody)
        pcs = [(cb, ct) for cb, ct in cbody.calls() if ct["callee"] and ct["callee"]["path"] == PCMP]
        if len(pcs) != 1:
            rep.ob("L3-comparator", inst, False, "closure must call %s exactly once (found %d)" % (PCMP, len(pcs)), cbody.where())
            continue
        ct = pcs[0][1]
        recv = prov.operand_origin(cbody, ct["args"][0], cdefs)
        arg = prov.operand_origin(cbody, ct["args"][1], cdefs)
        recv_ok = recv[0] == "arg" and recv[1] == 2 and prov.fields_of(recv[2]) in ([], [0])
        rep.ob("L3-orientation", inst + " receiver", recv_ok, "partial_cmp receiver is %s; must be the table element (arg2[.0]) — a swapped orientation inverts the search" % prov.describe(recv), where(ct), sample=True)
        arg_ok = arg[0] == "arg" and arg[1] == 1 and len(prov.fields_of(arg[2])) == 1
        cap_desc = "?"
        if arg_ok:
            ci = prov.fields_of(arg[2])[0]
            if ci < len(caps):
                cap = caps[ci]
                cap_desc = prov.describe(cap)
                # the captured value must be the function's code point: an argument or an IntToInt cast of one
                arg_ok = cap[0] == "arg" or (cap[0] == "op" and cap[1]["k"] == "cast" and prov.operand_origin(b, cap[1]["op"], defs)[0] == "arg")
                if cap[0] == "call" and cap[1] and cap[1]["path"] in LOSSLESS and prov.operand_origin(b, cap[4]["args"][0], defs)[0] == "arg":
                    arg_ok = True  # u32::from(c): the same code point
        rep.ob("L3-orientation", inst + " argument", arg_ok, "partial_cmp argument is %s / capture %s; must be the captured code point" % (prov.describe(arg), cap_desc), where(ct))
        # the closure returns unwrap(partial_cmp(..))
        ret = prov.origin(cbody, 0, cdefs)
        ret_ok = ret[0] == "call" and ret[1] and ret[1]["path"].startswith("core::option::Option::<T>::unwrap")
        if ret_ok:
            inner = prov.operand_origin(cbody, ret[4]["args"][0], cdefs)
            ret_ok = inner[0] == "call" and inner[1] and inner[1]["path"] == PCMP
        rep.ob("L3-comparator", inst + " result", ret_ok, "closure result is %s; must be partial_cmp(..).unwrap() unchanged (no reverse()/then())" % prov.describe(ret), cbody.where())
        # indexing: any T[idx] in the parent or in closures it creates
        closures = [d[3]["rv"] for dl in defs.defs.values() for d in dl if d[0] == "assign" and d[3]["rv"]["k"] == "aggregate" and d[3]["rv"].get("agg") == "closure"]
        owners = [(b, None)] + [(prog.body(rv["def"]), rv) for rv in closures]
        for ob, crv in owners:
            if ob is None:
                continue
            odefs = prov.Defs(ob)
            for bl in ob.blocks:
                if bl["cleanup"]:
                    continue
                for st in bl["stmts"]:
                    if st["k"] != "assign":
                        continue
                    rv = st["rv"]
                    pl = rv.get("place") if rv["k"] == "ref" else (rv["op"].get("place") if rv["k"] == "use" and rv["op"]["k"] in ("copy", "move") else None)
                    if not pl or not any(p["k"] == "index" for p in pl["p"]):
                        continue
                    base = prov.origin(ob, pl["l"], odefs)
                    if crv is not None and base[0] == "arg" and base[1] == 1 and prov.fields_of(base[2]):
                        # a capture of the closure: what the parent put into that environment slot
                        ci = prov.fields_of(base[2])[0]
                        if ci < len(crv["ops"]):
                            base = prov.operand_origin(b, crv["ops"][ci], defs)
                    if tab[0] == "static":
                        same = base[0] == "static" and base[1] == tab[1]
                    else:
                        same = base[0] == tab[0] and base[1] == tab[1] and prov.fields_of(base[2]) == prov.fields_of(tab[2])
                    rep.ob("L3-index", "%s indexes %s" % (ob.id, prov.describe(base)), same, "indexed table differs from the searched table %s" % prov.describe(tab), "%s:%d" % (st["span"]["file"], st["span"]["line"]))
    rep.floor("table lookup sites (binary_search_by)", len(sites), floor)
    return sites


def exact_lookup(outs, arg_name, arg_ty, rows, default, decode):
    """Exactness of a table-lookup function that may have range shortcuts around the search. `outs` are the
    paths of the function on a symbolic argument, with TotalWorld's binary-search decisions ('bsearch' ->
    Ok/Err) in the log and interval facts for the argument. rows = folded table [(lo, hi, value)].
    decode(outcome) -> ('row',) when the returned value is the found row's own value, ('const', v) for a
    constant, ('other', text). For every code point of every path the result must be the table's value (or
    the default). Returns an error text or None."""
    from .. import interp as ip

    MAXCP = 0x10FFFF
    val = {}
    for lo, hi, v in rows:
        for cp in range(lo, min(hi, MAXCP) + 1):
            val[cp] = v
    covered = bytearray(MAXCP + 1)
    for o in outs:
        if o.kind != "return":
            return "a path ends with %s (%s)" % (o.kind, o.info)
        br = [v for k, v in o.state.log if isinstance(k, tuple) and k[0] == "bsearch"]
        other = [k for k, v in o.state.log if isinstance(k, tuple) and k[0] in ("ord", "bool", "unproved-cmp")]
        if other:
            return "the result depends on %r" % (other[0],)
        if len(br) > 1:
            return "more than one search on a path"
        d = decode(o)
        for lo, hi in ip.rng_get(o.state, ip.Sym(arg_name, arg_ty)):
            for cp in range(max(lo, 0), min(hi, MAXCP) + 1):
                member = cp in val
                if br and member != (br[0] == "Ok"):
                    continue
                covered[cp] = 1
                want = val.get(cp, default)
                if d[0] == "row":
                    if not (br and br[0] == "Ok"):
                        return "U+%04X: a row value is returned without a successful search" % cp
                    continue
                if d[0] == "const":
                    if d[1] != want:
                        return "U+%04X: returns %s, the table says %s%s" % (cp, d[1], want, "" if br else " (decided by a range test, no search)")
                    continue
                return "U+%04X: returns %s" % (cp, d[1])
    miss = covered.find(0)
    if miss != -1 and not (arg_ty == "char" and 0xD800 <= miss <= 0xDFFF):
        return "no path covers U+%04X" % miss
    return None
