"""C10 — case mapping lowercases every character, wherever it stands.

Copy-on-first-change discipline (pv/fcd.py) over an alphabet of case classes. A class is a triple
(Uppercase, Lowercase, Changes_When_Lowercased); the classes that exist are read from the repository's
own DerivedCoreProperties.txt, and std's predicates are bound to those properties by their documented
meaning (char::is_uppercase = Uppercase, is_lowercase = Lowercase, to_lowercase(c) != c iff CWL).
Decided: the trigger set must contain every class whose characters change (else a string whose only
cased characters are of that class is returned unchanged, and such characters are mapped only when a
trigger character happens to precede them); the None branch returns the input; prefix/suffix meet at
find's position; the loop is stateless and emits the *whole* lowercase mapping for every changing class
and the character itself otherwise; both Rules::case_mapping_rule implementations resolve to it."""
import os

from .. import automaton as au
from .. import facts
from .. import fcd
from .. import interp as ip
from .. import ucd
from ..interp import AnalysisError, I, Opq, Ref, Str, Sym
from ..mir import Program
from ..report import Report
from ..models import _with_post, deref_all

COMMON = "precis_profiles::common::"
IS_UPPER = "core::char::methods::<impl char>::is_uppercase"
IS_LOWER = "core::char::methods::<impl char>::is_lowercase"
TO_LOWER = "core::char::methods::<impl char>::to_lowercase"
TO_ASCII_LOWER = "core::char::methods::<impl char>::to_ascii_lowercase"
FOR_EACH = "core::iter::traits::iterator::Iterator::for_each"
ITER_NE = "core::iter::traits::iterator::Iterator::ne"
ITER_EQ = "core::iter::traits::iterator::Iterator::eq"
ONCE = "core::iter::sources::once::once"


def case_classes(repo):
    """{class name: (upper, lower, cwl, first code point, count)} from DerivedCoreProperties.txt."""
    props, ver = ucd.property_file(os.path.join(repo, "precis-core/resources/ucd/DerivedCoreProperties.txt"))
    up, lo, cwl = props["Uppercase"], props["Lowercase"], props["Changes_When_Lowercased"]
    out = {}
    for cp in range(ucd.MAXCP + 1):
        k = (up[cp], lo[cp], cwl[cp], 1 if cp < 0x80 else 0)
        if k not in out:
            out[k] = [cp, 0]
        out[k][1] += 1
    named = {}
    for (u, l, c, a), (first, n) in sorted(out.items()):
        name = "%s%s%s%s" % ("U" if u else "u", "L" if l else "l", "C" if c else "c", "A" if a else "")
        if c:
            # a character that changes when lowercased: its full mapping has 1..3 characters and either starts
            # with another character or (length >= 2) with the character itself. Which shapes occur is library
            # data; all are taken as possible letters, so code that steps through the mapping by hand
            # (`lower.next() == Some(c) && lower.next().is_none()`) is a function of the letter
            for same, ln in ((False, 1), (False, 2), (False, 3), (True, 2), (True, 3)):
                named["%s/%s%d" % (name, "s" if same else "d", ln)] = (bool(u), bool(l), True, first, n, bool(a), (same, ln))
        else:
            named[name] = (bool(u), bool(l), False, first, n, bool(a), (True, 1))
    return named, ver


def run(tier):
    rep = Report("C10", tier, __doc__)
    prog = Program()
    classes, ver = case_classes(facts.REPO)
    alpha = sorted(classes)
    rep.extra["case_classes"] = {k: {"Uppercase": v[0], "Lowercase": v[1], "Changes_When_Lowercased": v[2], "first": "U+%04X" % v[3], "count": v[4]} for k, v in classes.items()}
    rep.floor("case classes present in DerivedCoreProperties.txt", len(alpha), 3)
    # the inner shortcut `is_lowercase ⇒ push(c)` is only right if no Lowercase character changes
    bad = [k for k, v in classes.items() if v[1] and v[2]]
    rep.ob("data", "Lowercase ∩ Changes_When_Lowercased = ∅", not bad, "class(es) %s exist, e.g. U+%04X" % (bad, classes[bad[0]][3]) if bad else "", "DerivedCoreProperties.txt")

    def to_lower(w, m, st, callee, args, term):
        c = args[0]
        if not au.is_ch(c):
            raise AnalysisError("to_lowercase of %r" % (c,))
        return Opq("to_lower", (c, 0))

    def lower_elem(c, i):
        same, ln = classes[c.name[2]][6]
        if i == 0 and same:
            return c
        return Sym(("lower-elem", i, c.name[1], c.name[2]), "char")

    def for_each(w, m, st, callee, args, term):
        it = deref_all(m, st, args[0])
        if isinstance(it, Opq) and it.kind == "to_lower" and it.data[1] == 0:
            c = it.data[0]
            return _with_post(m, st, args[1], [Sym(("lower-all", c.name[1], c.name[2]), "char")], term, lambda mm, ss, v: ip.UNIT)
        return None

    def extend(w, m, st, callee, args, term):
        # res.extend(c.to_lowercase()): appends the whole lowercase mapping of c
        it = deref_all(m, st, args[1])
        if isinstance(it, Opq) and it.kind == "to_lower" and it.data[1] == 0:
            c = it.data[0]
            return w.buf_push(m, st, args[0], Sym(("lower-all", c.name[1], c.name[2]), "char"))
        return None

    def str_to_lowercase(w, m, st, callee, args, term):
        raise fcd.DisciplineError("the string is lower-cased with str::to_lowercase, which is context-sensitive: U+03A3 maps to U+03C2 or U+03C3 depending on its neighbours (Final_Sigma), so the result for a character depends on where it stands; char::to_lowercase is the per-character mapping")

    def once(w, m, st, callee, args, term):
        return Opq("once", (args[0],))

    def iter_cmp(neg):
        def h(w, m, st, callee, args, term):
            a, b = deref_all(m, st, args[0]), deref_all(m, st, args[1])
            if isinstance(a, Opq) and isinstance(b, Opq) and {a.kind, b.kind} == {"to_lower", "once"} and a.data[0] == b.data[0] and au.is_ch(a.data[0]) and (a.data[1] if a.kind == "to_lower" else b.data[1]) == 0:
                changes = classes[a.data[0].name[2]][2]  # to_lowercase(c) != [c]  iff  Changes_When_Lowercased
                return ip.boolean(changes if neg else not changes)
            raise AnalysisError("iterator comparison of %r and %r" % (a, b))

        return h

    def next_of_lower(w, m, st, callee, args, term):
        from ..models import _innermost_ref

        ref, it = _innermost_ref(m, st, args[0])
        if isinstance(it, Opq) and it.kind == "to_lower":
            c, pos = it.data
            same, ln = classes[c.name[2]][6]
            if pos >= ln:
                return ip.none()
            if isinstance(ref, Ref):
                m.store(st, ref.loc, Opq("to_lower", (c, pos + 1)))
            return ip.some(lower_elem(c, pos))
        return None

    CH = "core::char::methods::<impl char>::"
    oracles = {
        IS_UPPER: lambda cls, c: ip.boolean(classes[cls][0]),
        IS_LOWER: lambda cls, c: ip.boolean(classes[cls][1]),
        # ASCII helpers: for ASCII characters the ASCII case predicates/mapping coincide with the Unicode ones
        CH + "is_ascii": lambda cls, c: ip.boolean(classes[cls][5]),
        CH + "is_ascii_uppercase": lambda cls, c: ip.boolean(classes[cls][5] and classes[cls][0]),
        CH + "is_ascii_lowercase": lambda cls, c: ip.boolean(classes[cls][5] and classes[cls][1]),
        CH + "is_ascii_alphabetic": lambda cls, c: ip.boolean(classes[cls][5] and (classes[cls][0] or classes[cls][1])),
        CH + "to_ascii_lowercase": lambda cls, c: Sym(("lower-all", c.name[1], cls), "char") if classes[cls][5] else c,
    }
    extra = {"alloc::str::<impl str>::to_lowercase": str_to_lowercase, TO_LOWER: to_lower, FOR_EACH: for_each, "<alloc::string::String as core::iter::traits::collect::Extend<char>>::extend": extend, ONCE: once, ITER_NE: iter_cmp(True), ITER_EQ: iter_cmp(False), "<core::char::ToLowercase as core::iter::traits::iterator::Iterator>::next": next_of_lower}
    class CaseWorld(fcd.FcdWorld):
        def compare_hook(self, st, op, a, b):
            # an element of c's lowercase mapping compared with c: the first element is c itself for the
            # "starts with itself" shapes (then it *is* the same atom); every other element is another character
            for x, y in ((a, b), (b, a)):
                if isinstance(x, Sym) and isinstance(x.name, tuple) and x.name and x.name[0] == "lower-elem" and au.is_ch(y) and op in ("Eq", "Ne"):
                    if x.name[2] == y.name[1] and x.name[3] == y.name[2]:
                        if x.name[1] == 0:
                            return op == "Ne"  # shape "d": the mapping starts with another character
                        raise fcd.ClassRefinement("a later element of a character's lowercase mapping is compared with the character: not determined by the character classes")
            return fcd.FcdWorld.compare_hook(self, st, op, a, b)

        def describe_char(self, v):
            if isinstance(v, Sym) and isinstance(v.name, tuple) and v.name and v.name[0] == "lower-elem":
                return v.name
            return fcd.FcdWorld.describe_char(self, v)

    w = CaseWorld(prog, alpha, oracles, extra_oracles=extra)
    key = COMMON + "case_mapping_rule"
    info = fcd.analyse(prog, rep, "discipline", key, w)
    if info is not None:
        b = info["body"]
        changing = {k for k, v in classes.items() if v[2]}
        missed = sorted(changing - info["trig"])
        for k in sorted(changing):
            v = classes[k]
            rep.ob(
                "discipline",
                "trigger covers class %s (Uppercase=%s Lowercase=%s CWL=%s ASCII=%s)" % (k, v[0], v[1], v[2], v[5]),
                k in info["trig"],
                "characters of this class (%d, first U+%04X) have a lowercase mapping but do not trigger the mapping: a string whose first changing character is one of them is returned unchanged, so the result for such a character depends on what precedes it" % (v[4], v[3]),
                b.where(),
                key="discipline|trigger-misses|%s" % k,
                sample=True,
            )
        rep.ob("discipline", "no changing character ⇒ input returned unchanged", info["none_result"] == ("Ok", ("input",)) and not info["none_events"], "returns %s" % (info["none_result"],), b.where())
        aut = info["aut"]
        rep.ob("discipline", "mapping loop is stateless", fcd.behavioural_states(aut, alpha) == 1, "%d behaviourally different loop states: the result for a character depends on what precedes it" % fcd.behavioural_states(aut, alpha), b.where(), key="discipline|stateless")
        try:
            per, q0, end_ev, end_res = fcd.letter_outputs(aut, alpha)
            for a in alpha:
                got = list(per[a][0])
                cwl = classes[a][2]
                full = [("push", "lower-all", 0, a)]
                ident = [("push", "char", 0, a)]
                same, ln = classes[a][6]
                # the same mapping pushed element by element (`for x in c.to_lowercase() { res.push(x) }`)
                elems = [(("push", "char", 0, a) if (i == 0 and same) else ("push", "lower-elem", i, 0, a)) for i in range(ln)]
                # (for a character that does not change, its full lowercase mapping *is* the character)
                okk = (got == full) or (got == elems) or (not cwl and got == ident)
                rep.ob("discipline", "class %s ↦ %s" % (a, "full lowercase mapping" if cwl else "itself"), okk and per[a][1] == q0, "loop emits %s" % got, b.where(), key="discipline|map|%s" % a, sample=True)
            rep.ob("discipline", "end of input", end_res == ("Ok", "buffer") and not end_ev, "at end: %s %s" % (end_ev, end_res), b.where())
        except AnalysisError as e:
            rep.analysis_error("discipline", key, e, b.where())
        rep.extra["trigger_classes"] = sorted(info["trig"])
        rep.extra["states"] = aut.nstates()
        rep.extra["transitions"] = len(aut.delta)
    from .. import pipeline as pl

    for prof in ("UsernameCaseMapped", "Nickname"):
        mk = "<%s as precis_core::profile::Rules>::case_mapping_rule" % pl.PROFILES[prof][0]
        b = prog.body(mk)
        if b is None:
            rep.ob("binding", prof, False, "Rules::case_mapping_rule not implemented by the profile")
            continue
        rep.fn(mk)
        try:
            paths = pl.extract(prog, mk, [Ref(("val", pl.profile_value(prof))), Str(("input",))])
            want = [(ev, r) for ev, r, n in pl.spec_paths([("leaf", "case")], ("input",))]
            d = pl.diff_paths(paths, want)
            rep.ob("binding", "%s::case_mapping_rule = common::case_mapping_rule" % prof, not d, "; ".join(d), b.where())
        except AnalysisError as e:
            rep.analysis_error("binding", prof, e, b.where())
    rep.extra["exhaustive"] = True
    rep.assumptions += [
        "char::is_uppercase / is_lowercase / to_lowercase implement the UCD properties Uppercase / Lowercase / full lowercase mapping (std documentation)",
        "the relations between those properties read from the repository's 6.3.0 DerivedCoreProperties.txt persist in std's Unicode version (titlecase letters stay non-Uppercase with a lowercase mapping)",
    ]
    return rep
