"""C06 — Nickname enforcement applies the RFC 8266 rules until the string is stable.

Rule: pipeline extraction. prepare = [non-empty; FreeformClass accepts] ⇒ input unchanged.
enforce = stabilize(input, closure) with the result returned unchanged, and the closure's body — analysed
as its own pipeline over the closure argument — is exactly [non-empty; FreeformClass accepts; trim/map
spaces; NFKC; non-empty]: validation is repeated every round and case is never mapped. The fixed-point
and iteration-bound clauses are C13 (stabilize), the space rule is C12; both are cited prerequisites."""
from ..mir import Program
from ..report import Report
from . import profiles


def run(tier):
    rep = Report("C06", tier, __doc__)
    prog = Program()
    n = 1 if profiles.check_single(prog, rep, "Nickname", "prepare") is not None else 0
    rep.floor("Nickname::prepare extracted", n, 1)
    profiles.nickname_enforce(prog, rep)
    # the static forms (PrecisFastInvocation) are part of the public operations: they must forward to these
    rep.floor("static-form methods checked", profiles.fast_invocation(prog, rep, "Nickname"), 3)
    profiles.normalizer_shape(prog, rep, "normalization_form_nfkc", "nfkc")
    # the Nickname operations are built on stabilize: its contract (C13) is a premise of this property
    profiles.include_leaves(rep, [("C13", "stabilize contract"), ("C12", "space rule"), ("C14", "derived property behind FreeformClass"), ("C02", "FreeformClass::allows")])
    rep.extra["exhaustive"] = True
    rep.extra["prerequisites"] = ["C13 (stabilize contract)", "C12 (space rule)", "C02/C14 (FreeformClass)"]
    rep.assumptions += ["stabilize honours its contract (C13)", "trim_spaces is the RFC 8266 §2.3 mapping (C12)"]
    return rep
