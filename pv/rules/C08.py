"""C08 — enforced output has no forbidden code points and never drifts (partly claimed).

Decided (structural, necessary conditions): (i) must-pass-through: on every path of each enforce to an
Ok return, the profile's *own* string class has accepted a string from which the result derives only
through the whitelisted post-validation transforms (lowercase mapping, NFC/NFKC as the profile
specifies, space mapping/trimming, the identity directionality check); (ii) Nickname returns a value on
which the whole rule set including validation was just re-evaluated and found unchanged (C13 fixed
point + C06 closure); (iii) for the other three profiles normalisation is the last transforming step
and case mapping precedes it.
NOT decided: whether to_lowercase / NFC / NFKC (Unicode 16 data in std and unicode-normalization) can
turn a 6.3.0-valid character into a DISALLOWED/UNASSIGNED one, and whether width→case→NFC is
idempotent for every string: facts about library data over 1.1M code points, not about this code."""
from spec import profiles_spec as sp

from .. import interp as ip
from .. import pipeline as pl
from ..interp import Str
from ..mir import Program
from ..report import Report
from . import profiles


def derivation(path):
    """For a successful path: (validated tags, chain of transforms from each tag) ."""
    evs, res = path
    produced = {}  # out tag -> (leaf name, input tag)
    n = 0
    validated = []
    for e in evs:
        if e[0] in ("empty?", "str-eq"):
            continue
        n += 1
        if e[0].startswith("allows:"):
            validated.append((e[0], e[1]))
        elif e[2] == "Ok":
            produced[("out", n)] = (e[0], e[1])
    return validated, produced


def chain_from(tag, produced):
    out = []
    while tag in produced:
        name, src = produced[tag]
        out.append(name)
        tag = src
    return tag, list(reversed(out))


def check_profile(prog, rep, profile, paths, label):
    own = sp.OWN_CLASS[profile]
    white = sp.POST_VALIDATION_WHITELIST[profile]
    okpaths = [p for p in paths if isinstance(p[0], tuple) and p[1][0] == "Ok"]
    rep.ob("validated-before-return", "%s has a successful path" % label, bool(okpaths), "no Ok path extracted")
    for p in okpaths:
        validated, produced = derivation(p)
        res_tag = p[1][1]
        good = False
        why = "no validation by %s on the returned string's ancestry" % own
        for cls, vtag in validated:
            if cls != own:
                continue
            # the result must derive from vtag through whitelisted transforms only
            root, chain = chain_from(res_tag, produced)
            # walk back from the result until we meet vtag
            t, names = res_tag, []
            while t != vtag and t in produced:
                names.append(produced[t][0])
                t = produced[t][1]
            if t == vtag:
                bad = [x for x in names if x not in white]
                if not bad:
                    good = True
                else:
                    why = "transform(s) %s between validation and return are not in the whitelist %s" % (bad, white)
        rep.ob("validated-before-return", "%s: %s" % (label, pl.fmt_events(p[0])), good, why, key="validated-before-return|%s" % label, sample=True)
        # (iii) order of the post-validation transforms
        if profile != "Nickname":
            names = [e[0] for e in p[0] if e[0] in ("case", "nfc", "nfkc", "space-map", "width", "trim")]
            norm = [i for i, x in enumerate(names) if x in ("nfc", "nfkc")]
            last_ok = bool(norm) and norm[-1] == len(names) - 1
            case_ok = ("case" not in names) or (norm and names.index("case") < norm[0])
            rep.ob("normalisation-last", label, last_ok and case_ok, "transform order %s: normalisation must be the last transforming step and follow case mapping" % names, key="normalisation-last|%s" % label)


def run(tier):
    rep = Report("C08", tier, __doc__)
    prog = Program()
    n = 0
    for prof in ("UsernameCaseMapped", "UsernameCasePreserved", "OpaqueString"):
        key = profiles.method_key(prof, profiles.PROFILE_TRAIT, "enforce")
        b = prog.body(key)
        if b is None:
            rep.ob("validated-before-return", prof, False, "enforce not found")
            continue
        rep.fn(key)
        n += 1
        try:
            paths = pl.extract(prog, key, [profiles.self_ref(prof), Str(("input",))])
        except pl.UnexpectedCall as e:
            rep.ob("validated-before-return", "%s::enforce" % prof, False, str(e), b.where(), key="validated-before-return|%s|unexpected-call" % prof)
            continue
        except ip.AnalysisError as e:
            rep.analysis_error("validated-before-return", prof, e, b.where())
            continue
        check_profile(prog, rep, prof, paths, "%s::enforce" % prof)
    # Nickname: the closure given to stabilize
    key = profiles.method_key("Nickname", profiles.PROFILE_TRAIT, "enforce")
    b = prog.body(key)
    if b is not None:
        rep.fn(key)
        try:
            paths = pl.extract(prog, key, [profiles.self_ref("Nickname"), Str(("input",))])
            clos = sorted({(e[3], e[4] if len(e) > 4 else None) for p in paths if isinstance(p[0], tuple) for e in p[0] if e[0] == "stabilize"}, key=repr)
            direct = [p for p in paths if isinstance(p[0], tuple) and p[1][0] == "Ok" and not any(e[0] == "stabilize" for e in p[0])]
            rep.ob("fixed-point-return", "Nickname::enforce returns only stabilize's result", not direct and len(clos) == 1, "Ok paths bypassing stabilize: %d; closures: %s" % (len(direct), [c for c, _ in clos]), b.where())
            for c, caps in clos:
                cp = profiles.closure_pipeline(prog, rep, c, "Nickname", "validated-before-return", "Nickname closure", caps)
                if cp is not None:
                    n += 1
                    check_profile(prog, rep, "Nickname", cp, "Nickname rules (each round)")
        except ip.AnalysisError as e:
            rep.analysis_error("validated-before-return", "Nickname", e, b.where())
    else:
        rep.ob("validated-before-return", "Nickname", False, "enforce not found")
    rep.floor("enforce pipelines analysed", n, 4)
    # the whitelisted post-validation transforms must be the functions the profiles specify: a wrapper that
    # normalises to another form, or a mapping rule that is not per-character, changes what can come out
    profiles.normalizer_shape(prog, rep, "normalization_form_nfc", "nfc")
    profiles.normalizer_shape(prog, rep, "normalization_form_nfkc", "nfkc")
    profiles.include_leaves(rep, [("C13", "fixed point returned by stabilize"), ("C10", "case mapping"), ("C11", "width mapping"), ("C12", "space rules"), ("C02", "the validation itself: StringClass::allows judges every character of the string")])
    rep.not_decided += [
        "whether char::to_lowercase / NFC / NFKC (library Unicode data) can map a 6.3.0-valid character to a DISALLOWED or UNASSIGNED one",
        "idempotence of width→case→NFC→… on every string (library data)",
    ]
    rep.extra["prerequisites"] = ["C13 (fixed point)", "C06 (closure = whole rule set)"]
    return rep
