"""C15 — table generators are faithful to any well-formed UCD input (partly claimed).

Decided completely for the two pinned inputs (6.3.0, 16.0.0): every table static, folded out of its
initialiser MIR, is in binary-search order for the extracted comparison semantics (L2) and equals,
code point by code point over 0..=10FFFF, an independent reading of the UCD files (L5).
Decided for all inputs — necessary structural conditions of the generators only:
 (i)   flush on exit: in every run-compression loop the pending run is live on the exhaustion edge;
 (ii)  sort dominates the merge loop in the HashSet → Vec conversion;
 (iii) accumulator consumed: every field a line parser's process_entry writes is read by its
       generate_code (a gap tracker needs a finalisation point);
 (iv)  entry-kind agreement: a line parser selects an entry by its properties, never by its shape —
       under every selection condition Single and First/Last Range entries are both accumulated.
Not decided: that run compression and gap tracking compute the right values for arbitrary entry
sequences (unbounded numeric sequences)."""
import re

from .. import interp as ip
from .. import mir, prov, tablecheck
from ..mir import Program
from ..report import Report
from . import common

PENDING_TY = "core::option::Option<ucd_parse::common::CodepointRange>"

# run loops confirmed by reading (function -> (policy, reason))
RUN_LOOPS = {
    "precis_tools::common::get_codepoints_vector": ("must-flush", "merges sorted code points into ranges; the last run is pending when the input is exhausted"),
    "precis_tools::generators::bidi_class::BidiClassGen::compress_into_ranges": ("must-flush", "merges consecutive entries of one class; the last run is pending when the input is exhausted"),
    "precis_tools::ucd_parsers::UnicodeData::parse": ("exempt", "the pending range exists only between a <First> line and its <Last> line; a well-formed file closes every pair before EOF"),
}


NONE_CHAIN = {
    # callee name -> discriminant of the result when the argument's discriminant is the "nothing" one
    # (Option: None = 0; Result: Err = 1; ControlFlow: Break = 1)
    "ok_or": 1,
    "ok_or_else": 1,
    "branch": 1,
    "ok": 0,
    "map": None,  # preserves the discriminant
    "map_err": None,
    "copied": None,
    "cloned": None,
}


def none_discriminant(body, local, defs, depth=0):
    """If `local` derives from an Iterator::next result, the discriminant value it has exactly when the
    iterator was exhausted; else None."""
    src = prov.origin(body, local, defs)
    if src[0] != "call" or not src[1] or depth > 6:
        return None
    name = src[1]["name"]
    if name == "next":
        return 0
    if name in NONE_CHAIN and src[4]["args"] and src[4]["args"][0]["k"] in ("copy", "move"):
        inner = none_discriminant(body, src[4]["args"][0]["place"]["l"], defs, depth + 1)
        if inner is None:
            return None
        return inner if NONE_CHAIN[name] is None else NONE_CHAIN[name]
    return None


def carried_none_discriminant(body, local, defs, loop_blocks):
    """A loop-carried Option (`while let Some(x) = cur { …; cur = it.next().map(..) }`): every definition of
    `local` inside the loop derives from an Iterator::next result and every definition outside is a `Some(..)`:
    then the None discriminant at the loop's test means the iterator was exhausted."""
    ds = defs.whole_defs(local)
    inside = [d for d in ds if d[1] in loop_blocks]
    outside = [d for d in ds if d[1] not in loop_blocks]
    if not inside:
        return None
    for d in outside:
        rv = d[3].get("rv") if d[0] == "assign" else None
        if not (rv and rv["k"] == "aggregate" and rv.get("agg") == "adt" and rv.get("adt") == "core::option::Option" and rv.get("variant") == 1):
            return None
    res = None
    for d in inside:
        if d[0] == "call":
            t = d[3]
            name = (t["callee"] or {}).get("name")
            if name == "next":
                nd = 0
            elif name in NONE_CHAIN and t["args"] and t["args"][0]["k"] in ("copy", "move"):
                inner = none_discriminant(body, t["args"][0]["place"]["l"], defs)
                if inner is None:
                    return None
                nd = inner if NONE_CHAIN[name] is None else NONE_CHAIN[name]
            else:
                return None
        else:
            rv = d[3]["rv"]
            if rv["k"] == "use" and rv["op"]["k"] in ("copy", "move") and not rv["op"]["place"]["p"]:
                nd = none_discriminant(body, rv["op"]["place"]["l"], defs)
                if nd is None:
                    return None
            else:
                return None
        if res is not None and res != nd:
            return None
        res = nd
    return res


def exhaustion_exits(body, loop_blocks):
    """Edges leaving the loop that are taken exactly when an Iterator::next result was None (directly,
    or after ok_or/`?`, which turn None into Err / Break)."""
    out = []
    defs = prov.Defs(body)
    for b in loop_blocks:
        t = body.blocks[b]["term"]
        if t["k"] != "switch" or t["discr"]["k"] not in ("copy", "move"):
            continue
        org = prov.operand_origin(body, t["discr"], defs)
        # discriminant(x) where x is the result of *::next
        if org[0] == "op" and org[1]["k"] == "discriminant":
            nd = none_discriminant(body, org[1]["place"]["l"], defs)
            if nd is None:
                nd = carried_none_discriminant(body, org[1]["place"]["l"], defs, set(loop_blocks))
            if nd is None:
                continue
            tgt = None
            for v, bb in t["targets"]:
                if int(v) == nd:
                    tgt = bb
            if tgt is None:
                tgt = t["otherwise"]
            if tgt is not None and tgt not in loop_blocks and body.blocks[tgt]["term"]["k"] != "unreachable":
                out.append((b, tgt))
    return out


def run_loops(prog, rep, skip=()):
    cands = 0
    for b in prog.by_crate["precis_tools"]:
        if b.kind != "fn" or b.d.get("in_test") or b.id in skip:
            continue
        pend = [i for i, l in enumerate(b.locals) if l["ty"] == PENDING_TY and l["name"]]
        if not pend:
            continue
        loops = b.loops()
        if not loops:
            continue
        live_in, _ = mir.liveness(b)
        for head, blocks in loops.items():
            # pending locals written inside the loop
            written = set()
            for bi in blocks:
                for st in b.blocks[bi]["stmts"]:
                    if st["k"] == "assign" and st["place"]["l"] in pend:
                        written.add(st["place"]["l"])
                    if st["k"] == "assign" and st["rv"]["k"] == "ref" and st["rv"]["mut"] and st["rv"]["place"]["l"] in pend:
                        written.add(st["rv"]["place"]["l"])
            if not written:
                continue
            cands += 1
            rep.fn(b.key)
            pol = RUN_LOOPS.get(b.id)
            if pol is None:
                rep.ob("flush-on-exit", b.id, False, "analysis-error: unclassified loop carrying a pending %s (%s); classify it in RUN_LOOPS" % (PENDING_TY, ", ".join(b.local_name(l) for l in written)), b.where(), key="analysis-error|flush-on-exit|%s" % b.id)
                continue
            if pol[0] == "exempt":
                rep.ob("flush-on-exit", b.id + " (exempt)", True, pol[1], b.where())
                continue
            exits = exhaustion_exits(b, blocks)
            if not exits:
                rep.ob("flush-on-exit", b.id, False, "analysis-error: no iterator-exhaustion exit found for the run loop", b.where(), key="analysis-error|flush-on-exit|%s" % b.id)
                continue
            for l in sorted(written):
                for src, dst in exits:
                    live = l in live_in[dst]
                    rep.ob("flush-on-exit", "%s pending `%s`" % (b.id, b.local_name(l)), live, "the pending run is dead when the input is exhausted: the last run is never emitted" if not live else "pending run is consumed after the loop", b.where(), key="flush-on-exit|%s|%s" % (b.id, b.local_name(l)), sample=True)
    rep.floor("run loops carrying a pending range", cands, 0)
    return cands


def sort_before_merge(prog, rep):
    b = prog.body("precis_tools::common::get_codepoints_vector")
    if b is None:
        rep.ob("sort-before-merge", "get_codepoints_vector", False, "function not found")
        return
    rep.fn(b.key)
    sorts = [bb for bb, t in b.calls() if t["callee"] and re.search(r"::sort(_unstable)?(_by(_key)?)?$", t["callee"]["path"])]
    loops = b.loops()
    pend = [i for i, l in enumerate(b.locals) if l["ty"] == PENDING_TY]
    heads = []
    for head, blocks in loops.items():
        for bi in blocks:
            if any(st["k"] == "assign" and st["place"]["l"] in pend for st in b.blocks[bi]["stmts"]):
                heads.append(head)
                break
    dom = b.dominators()
    if not heads:
        rep.undecided("sort-before-merge", b.id, "no loop carrying a pending range in this function", b.where())
        return
    okk = bool(sorts) and bool(heads) and all(any(s in dom[h] for s in sorts) for h in heads)
    rep.ob("sort-before-merge", b.id, okk, "a sort of the collected code points must dominate the merge loop (HashSet iteration order is arbitrary); sort calls in blocks %s, merge loop heads %s" % (sorts, heads), b.where())
    # the merged vector is the sorted one: the loop iterates the vector that was sorted
    if sorts and heads:
        defs = prov.Defs(b)
        sorted_vec = None
        for bb, t in b.calls():
            if bb in sorts:
                sorted_vec = base_local(b, t["args"][0], defs)
        # what the merge loop iterates: the receiver of the `next` call that controls it, traced back through
        # the for-loop's `iter` binding, into_iter / iter to the collection
        it = None
        for head in heads:
            for bi in sorted(loops[head]):
                t = b.blocks[bi]["term"]
                if t["k"] == "call" and t["callee"] and t["callee"]["name"] == "next" and not b.blocks[bi]["cleanup"]:
                    it = base_local(b, t["args"][0], defs, skip_names=("iter",))
        same = sorted_vec is not None and sorted_vec == it
        rep.ob("sort-before-merge", b.id + " same vector", same, "sorted `%s`, merged `%s`" % (b.local_name(sorted_vec) if sorted_vec is not None else None, b.local_name(it) if it is not None else None), b.where())


def base_local(body, o, defs, depth=0, skip_names=()):
    """The named local an operand ultimately borrows from (through reborrows, Deref::deref, iter)."""
    if o["k"] not in ("copy", "move"):
        return None
    l = o["place"]["l"]
    while depth < 12:
        depth += 1
        if body.locals[l]["name"] and body.locals[l]["name"] not in skip_names:
            return l
        ds = defs.whole_defs(l)
        if len(ds) != 1:
            return l
        kind, bi, si, payload, _ = ds[0]
        if kind == "call":
            c = payload["callee"]
            if c and c["name"] in ("deref", "deref_mut", "as_slice", "as_mut_slice", "iter", "into_iter", "iter_mut") and payload["args"] and payload["args"][0]["k"] in ("copy", "move"):
                l = payload["args"][0]["place"]["l"]
                continue
            return l
        rv = payload["rv"]
        if rv["k"] in ("ref", "raw_ptr"):
            l = rv["place"]["l"]
        elif rv["k"] in ("use", "cast") and rv["op"]["k"] in ("copy", "move"):
            l = rv["op"]["place"]["l"]
        else:
            return l
    return l


def field_accesses(body, self_local=1):
    """(reads, writes) of fields of *self in a method body: sets of field indices."""
    reads, writes = set(), set()

    def first_field(p):
        if p["l"] != self_local:
            return None
        ps = [e for e in p["p"] if e["k"] != "deref"]
        if ps and ps[0]["k"] == "field":
            return ps[0]["i"]
        return None

    for bl in body.blocks:
        if bl["cleanup"]:
            continue
        for st in bl["stmts"]:
            if st["k"] != "assign":
                continue
            f = first_field(st["place"])
            if f is not None:
                writes.add(f)
            rv = st["rv"]
            if rv["k"] in ("ref", "raw_ptr"):
                f = first_field(rv["place"])
                if f is not None:
                    (writes if rv.get("mut") else reads).add(f)
                    if rv.get("mut"):
                        reads.add(f)
            elif rv["k"] == "discriminant":
                f = first_field(rv["place"])
                if f is not None:
                    reads.add(f)
            else:
                for o in mir.operands_of_rvalue(rv):
                    if o["k"] in ("copy", "move"):
                        f = first_field(o["place"])
                        if f is not None:
                            reads.add(f)
        t = bl["term"]
        if t["k"] == "call":
            for o in t["args"]:
                if o["k"] in ("copy", "move"):
                    f = first_field(o["place"])
                    if f is not None:
                        reads.add(f)
    return reads, writes


def accumulators(prog, rep):
    """(iii) every field written by process_entry must be read by the same type's generate_code."""
    by_self = {}
    for b in prog.by_crate["precis_tools"]:
        if b.kind != "fn":
            continue
        tr = b.d["impl_trait"]
        name = b.id.rsplit("::", 1)[1]
        if tr == "precis_tools::generators::ucd_generator::UcdLineParser" and name == "process_entry":
            by_self.setdefault(b.d["impl_self"], {"pe": [], "gc": None})["pe"].append(b)
        if tr == "precis_tools::generators::CodeGen" and name == "generate_code":
            by_self.setdefault(b.d["impl_self"], {"pe": [], "gc": None})["gc"] = b
    n = 0
    for self_ty, d in sorted(by_self.items()):
        if not d["pe"]:
            continue
        n += 1
        gc = d["gc"]
        if gc is None:
            rep.ob("accumulator-consumed", self_ty, False, "line parser without a generate_code implementation")
            continue
        # reads in generate_code include reads made by inherent helper methods it calls with self
        greads = set()
        seen = set()
        work = [gc]
        while work:
            x = work.pop()
            if x.key in seen:
                continue
            seen.add(x.key)
            rep.fn(x.key)
            r, w = field_accesses(x)
            greads |= r | w
            for bb, t in x.calls():
                c = t["callee"]
                if c and c["resolved"] and prog.is_ws(c["path"]) and t["args"] and t["args"][0]["k"] in ("copy", "move"):
                    cb = prog.bodies[c["path"]]
                    if cb.d.get("impl_self") == self_ty and prov.operand_origin(x, t["args"][0])[0] == "arg":
                        work.append(cb)
        adt = prog.adts.get(self_ty)
        fnames = [f["name"] for f in adt["variants"][0]["fields"]] if adt else []
        for pe in d["pe"]:
            rep.fn(pe.key)
            _, w = field_accesses(pe)
            for f in sorted(w):
                fname = fnames[f] if f < len(fnames) else str(f)
                okk = f in greads
                rep.ob("accumulator-consumed", "%s.%s" % (self_ty, fname), okk, "process_entry accumulates into `%s` but generate_code never reads it: state pending after the last entry (a trailing gap) is never emitted" % fname if not okk else "", pe.where(), key="accumulator-consumed|%s|%s" % (self_ty, fname), sample=True)
    rep.floor("line-parser generator types", n, 5)


def entry_kind_agreement(prog, rep):
    """(v) a line parser selects an entry by its properties, never by its shape: under every selection
    condition, Single entries and First/Last Range entries must both be accumulated (or both skipped)."""
    from .. import totality as tt
    from .. import types as ty_

    n = 0
    for b in prog.by_crate["precis_tools"]:
        if b.kind != "fn" or b.d["impl_trait"] != "precis_tools::generators::ucd_generator::UcdLineParser" or not b.id.endswith("::process_entry"):
            continue
        f = prog.fns.get(b.key)
        if f is None:
            continue
        rep.fn(b.key)

        class W(tt.TotalWorld):
            cp_syms = set()

            def restrict_variants(self, st, v, opts):
                if "ucd_parse::common::Codepoints" in v.ty:
                    self.cp_syms.add(v.name)
                return opts

            def call(self, m, st, callee, args, term):
                for a in args:
                    if isinstance(a, ip.Ref) and a.loc[0] == "heap" and a.loc[1] == ("arg", 0) and a.loc[2]:
                        st.emit(("accumulate", callee["name"]))
                return tt.TotalWorld.call(self, m, st, callee, args, term)

        w = W(prog, set(), b.key)
        w.cp_syms = set()
        m = ip.Machine(prog, w)
        st0 = ip.State()
        args = ty_.fresh_args(prog, st0, f["inputs"])
        try:
            outs = m.run(m.start(b.key, args, st0))
        except ip.AnalysisError as e:
            rep.analysis_error("entry-kind-agreement", b.id, e, b.where())
            continue
        n += 1
        # which field of the entry holds the code points
        acc = {0: set(), 1: set()}
        seen_variant = set()
        for o in outs:
            if o.kind not in ("return",):
                continue
            variant = None
            sig = []
            for k, v in o.state.log:
                if isinstance(k, tuple) and k[0] == "val" and k[1] in w.cp_syms:
                    variant = v
                elif isinstance(k, tuple) and k[0] == "cmp" and "('arg', 1)" in repr(k[1]) and not any(repr(n) in repr(k[1]) for n in w.cp_syms):
                    sig.append((repr(k[1]), k[2], k[3], v))
                elif isinstance(k, tuple) and k[0] == "str-eq":
                    sig.append(("str-eq", v))
            if variant is None:
                continue
            seen_variant.add(variant)
            if any(e[0] == "accumulate" for e in o.state.events):
                acc[variant].add(frozenset(sig))
        if not seen_variant:
            # the parser does not look at the entry's shape at all (it stores the entry as it is)
            rep.ob("entry-kind-agreement", b.id.split(" as ")[0].split("::")[-1] + " (shape-agnostic)", True, "", b.where())
            continue
        okk = acc[0] == acc[1]
        rep.ob("entry-kind-agreement", b.id.replace("precis_tools::generators::ucd_generator::", ""), okk, "selected Single entries are accumulated under %d condition(s), selected First/Last Range entries under %d: a range row that meets the selection condition is dropped (or a single one is)" % (len(acc[0]), len(acc[1])), b.where(), key="entry-kind-agreement|%s" % b.id, sample=(n % 4 == 1))
    rep.floor("process_entry implementations analysed", n, 8)


GEN = "precis_tools::generators::ucd_generator::"
UDATA = "precis_tools::ucd_parsers::UnicodeData"
WRITER = "precis_tools::file_writer::generate_code_from_vec"


def gap_semantics(prog, rep):
    """(vi) UnassignedTableGen emits exactly the complement of the assigned code points, for every ascending
    input: induction over state shapes (pv/accum.py). Ghost N = first code point not yet accounted for."""
    from .. import accum as ac
    from .. import linform as lf
    from .. import types as ty_

    new_key = GEN + "UnassignedTableGen::new"
    step_key = "<%sUnassignedTableGen as %sUcdLineParser<%s>>::process_entry" % (GEN, GEN, UDATA)
    fin_key = "<%sUnassignedTableGen as precis_tools::generators::CodeGen>::generate_code" % GEN
    rule = "gap-semantics"
    for k in (new_key, step_key, fin_key):
        if prog.body(k) is None:
            rep.ob(rule, k, False, "function not found", key="%s|anchor" % rule)
            return
    rep.fn(new_key, step_key, fin_key)
    where = prog.body(step_key).where()
    world = ac.AccWorld(prog, writers=(WRITER,))
    m = ip.Machine(prog, world)
    try:
        # base case: the constructor's state, N = 0
        outs = m.run(m.start(new_key, [ip.Str(("name",))]))
        if len(outs) != 1 or outs[0].kind != "return" or not isinstance(outs[0].value, ip.Adt):
            raise ip.AnalysisError("constructor has %d outcomes" % len(outs))
        v0 = outs[0].value
        v0 = ip.Adt(v0.ty, v0.variant, tuple(ip.Opq("vec", ("acc",)) if (isinstance(f, ip.Opq) and f.kind == "vec") else f for f in v0.fields))
        init = ac.Shape(v0, {"N": (0, 0)})
        udata_fields = prog.adts[UDATA]["variants"][0]["fields"]
        bad = []

        def make_args(sh, kind, st0):
            n = ip.Sym("N", "u32")
            first = lf.from_lf({"N": 1, "G": 1}, 0)
            last = lf.from_lf({"N": 1, "G": 1, "W": 1}, 0)
            entry = ac.single(first) if kind == "single" else ac.range_(first, last)
            ud = ip.Adt(UDATA, 0, tuple([entry] + [ty_.fresh(prog, f["ty"], ("ud", i)) for i, f in enumerate(udata_fields[1:])]))
            return [ip.Ref(("heap", ("arg", 0), ())), ip.Ref(("val", ud))]

        def new_n(kind):
            return ({"N": 1, "G": 1}, 1) if kind == "single" else ({"N": 1, "G": 1, "W": 1}, 1)

        def on_path(sh, kind, o):
            v = o.value
            if isinstance(v, ip.Adt) and v.ty == ip.RESULT and v.variant == 1:
                if not any(e[0] == "rejects-input" for e in o.state.events):
                    bad.append("a well-formed %s entry is rejected from state %s" % (kind, sh.describe()))
                return None
            em = ac.emissions(o.state, ("acc",))
            r = ac.check_gap(o.state.facts, em, ({"N": 1}, 0), ({"N": 1, "G": 1}, -1))
            if r is not None:
                bad.append("%s entry starting G code points after the last one, state %s: %s" % (kind, sh.describe(), r))
            return o.state.heap[("arg", 0)]

        shapes, n_paths = ac.explore(prog, world, step_key, make_args, init, new_n, on_path)
        rep.ob(rule, "every step emits exactly the code points skipped since the previous entry (%d state shapes, %d paths)" % (len(shapes), n_paths), not bad, "; ".join(sorted(set(bad))[:2]), where, key="%s|step" % rule, sample=True)
        # finish: everything from N to U+10FFFF
        fbad = []
        n_fin = 0
        for sh in shapes:
            st0 = ip.State()
            st0.facts.update(ac.facts_of(sh))
            st0.heap[("arg", 0)] = sh.value
            outs = m.run(m.start(fin_key, [ip.Ref(("heap", ("arg", 0), ())), ip.Ref(("val", ip.Opq("file", ())))], st0), max_paths=2000)
            for o in outs:
                n_fin += 1
                if o.kind != "return":
                    fbad.append("finishing from %s ends with %s" % (sh.describe(), o.kind))
                    continue
                v = o.value
                if isinstance(v, ip.Adt) and v.ty == ip.RESULT and v.variant == 1:
                    continue
                writes = [e for e in o.state.events if e[0] == "write"]
                clones = {e[1]: e[2] for e in o.state.events if e[0] == "clone"}
                if len(writes) != 1:
                    fbad.append("the table is written %d times" % len(writes))
                    continue
                wid = writes[0][1]
                chain = [wid]
                while chain[-1] in clones:
                    chain.append(clones[chain[-1]])
                if ("acc",) not in chain:
                    fbad.append("the vector written is not (a copy of) the accumulated one")
                    continue
                em = [(e[2], e[3]) for e in o.state.events if e[0] == "emit" and e[1] in chain]
                r = ac.check_gap(o.state.facts, em, ({"N": 1}, 0), ({}, ac.MAXCP))
                if r is not None:
                    fbad.append("after the last entry, state %s: %s" % (sh.describe(), r))
        rep.ob(rule, "the code points after the last entry are emitted up to U+10FFFF (%d finishing paths)" % n_fin, not fbad, "; ".join(sorted(set(fbad))[:2]), prog.body(fin_key).where(), key="%s|finish" % rule, sample=True)
        rep.extra["gap_state_shapes"] = [sh.describe() for sh in shapes]
        return True
    except ip.AnalysisError as e:
        rep.undecided(rule, "UnassignedTableGen", e, where)
        return False


def world_sorted(shapes):
    return all(sh.st.ext.get("v:sorted") for sh in shapes)


def merge_semantics(prog, rep):
    """(vii) get_codepoints_vector turns any set of code points into entries that denote exactly that set:
    induction over the loop's state shapes with a coverage monitor (pv/accum.py)."""
    from .. import accum as ac
    from .. import linform as lf

    key = "precis_tools::common::get_codepoints_vector"
    rule = "merge-semantics"
    b = prog.body(key)
    if b is None:
        rep.ob(rule, key, False, "function not found", key="%s|anchor" % rule)
        return
    rep.fn(key)
    world = ac.AccWorld(prog)
    bad, ebad = [], []
    ret_vec = []

    def emitted(o):
        # entries pushed during this step, to whichever vector (the output vector is identified at the end)
        return [(e[1], e[2], e[3]) for e in o.state.events if e[0] == "emit"]

    def on_step(sh, o):
        em = emitted(o)
        u = lf.to_lf(o.state.ext["v:U"])
        first = ({"N": 1, "G": 1}, 0)
        err, leaves = ac.cover_step(o.state.facts, [(x[1], x[2]) for x in em], u, first, first)
        if err is not None:
            bad.append("%s  [state: %s]" % (err, sh.describe()))
            return None
        for x in em:
            ret_vec.append(x[0])
        return leaves

    def on_end(sh, o):
        em = emitted(o)
        u = lf.to_lf(o.state.ext["v:U"])
        n1 = ({"N": 1}, -1)

        def pred(f):
            ne = []
            for _, lo, hi in em:
                d = lf.add(lf.to_lf(hi), lf.to_lf(lo), -1)
                if lf.ask(f, "Ge", d):
                    ne.append((lf.to_lf(lo), lf.to_lf(hi)))
            empty = lf.ask(f, "Gt", lf.add(u, n1, -1))
            got = ["%s..=%s" % (lf.fmt(lf.simplify(f, a)), lf.fmt(lf.simplify(f, c))) for a, c in ne]
            if empty:
                return None if not ne else "emits %s after the last element although nothing is pending" % got
            want = "%s..=%s" % (lf.fmt(lf.simplify(f, u)), lf.fmt(lf.simplify(f, n1)))
            if len(ne) != 1 or not lf.ask(f, "Eq", lf.add(ne[0][0], u, -1)) or not lf.ask(f, "Eq", lf.add(ne[0][1], n1, -1)):
                return "when the input is exhausted the pending elements %s are emitted as %s" % (want, got or "nothing")
            return None

        r = lf.forall(o.state.facts, pred)
        if r is not None:
            ebad.append("%s  [state: %s]" % (r, sh.describe()))
        v = o.value
        if not (isinstance(v, ip.Opq) and v.kind == "vec"):
            ebad.append("returns %r, not the vector of entries" % (v,))
        else:
            for x in em:
                ret_vec.append(x[0])
            ids = {x for x in ret_vec}
            if ids - {v.data}:
                ebad.append("entries are pushed into a vector other than the returned one")

    try:
        shapes, n_paths, errors = ac.explore_loop(prog, world, key, [ip.Ref(("val", ip.Opq("fresh", ("HashSet<u32>", "arg"))))], on_step, on_end)
    except ip.AnalysisError as e:
        rep.undecided(rule, key, e, b.where())
        return False
    if errors and not bad and not ebad:
        rep.undecided(rule, key, errors[0], b.where())
        return False
    if not world_sorted(shapes):
        bad.append("the merge loop runs over a vector that was not sorted first (HashSet iteration order is arbitrary)")
    rep.ob(rule, "every loop step keeps `emitted ∪ pending = elements consumed` (%d state shapes, %d paths)" % (len(shapes), n_paths), not bad, "; ".join(sorted(set(bad))[:2]), b.where(), key="%s|step" % rule, sample=True)
    rep.ob(rule, "the pending run is emitted, whole and once, when the input is exhausted", not ebad, "; ".join(sorted(set(ebad))[:2]), b.where(), key="%s|finish" % rule, sample=True)
    rep.extra["merge_state_shapes"] = [sh.describe() for sh in shapes]
    return True


BIDIGEN = "precis_tools::generators::bidi_class::BidiClassGen"


def bidi_run_semantics(prog, rep):
    """(viii) BidiClassGen::compress_into_ranges: for every ascending sequence of (entry, class) pairs — single
    code points and First/Last ranges, any run structure of classes — the emitted (range, class) rows cover
    exactly the input entries, each code point once, with its own class."""
    from .. import accum as ac
    from .. import linform as lf

    key = BIDIGEN + "::compress_into_ranges"
    rule = "bidi-run-semantics"
    b = prog.body(key)
    a = prog.adts.get(BIDIGEN)
    if b is None or a is None:
        rep.ob(rule, key, False, "function or type not found", key="%s|anchor" % rule)
        return
    rep.fn(key)
    fields = a["variants"][0]["fields"]
    vec_i = [i for i, f in enumerate(fields) if f["ty"].startswith("alloc::vec::Vec<(")]
    if len(vec_i) != 1:
        rep.ob(rule, "BidiClassGen has one vector of (entry, class) pairs", False, "fields: %s" % [f["ty"] for f in fields], key="%s|anchor" % rule)
        return
    from .. import types as ty_

    world = ac.AccWorld(prog)
    bad, ebad = [], []

    def init_state():
        st0 = ip.State()
        vals = []
        for i, f in enumerate(fields):
            vals.append(ip.Opq("vec", ("input",)) if i == vec_i[0] else ty_.fresh(prog, f["ty"], ("self", i)))
        st0.heap[("arg", 0)] = ip.Adt(BIDIGEN, 0, tuple(vals))
        return st0

    def letters_for(sh):
        if sh.st.ext.get("v:C") is None:
            return [("single", "new"), ("range", "new")]
        return [("single", "same"), ("single", "new"), ("range", "same"), ("range", "new")]

    def new_n(letter):
        return ({"N": 1, "G": 1}, 1) if letter[0] == "single" else ({"N": 1, "G": 1, "W": 1}, 1)

    def emitted(o):
        return [(e[2], e[3], e[4] if len(e) > 4 else None) for e in o.state.events if e[0] == "emit"]

    def on_step(sh, o):
        letter = world.cur_letter
        em = emitted(o)
        u = lf.to_lf(o.state.ext["v:U"])
        vv = o.state.ext.get("v:V")
        cc = o.state.ext.get("v:C")
        first = ({"N": 1, "G": 1}, 0)
        last = first if letter[0] == "single" else ({"N": 1, "G": 1, "W": 1}, 0)
        err, leaves = ac.cover_step_valued(o.state.facts, em, u, vv.tag if vv is not None else None, first, last, cc.tag)
        if err is not None:
            bad.append("%s entry of %s: %s  [state: %s]" % (letter[0], "the same class as the previous entry" if letter[1] == "same" else "a new class", err, sh.describe()))
            return None
        return leaves

    def on_end(sh, o):
        em = emitted(o)
        u = lf.to_lf(o.state.ext["v:U"])
        vv = o.state.ext.get("v:V")
        n1 = ({"N": 1}, -1)

        def pred(f):
            ne = []
            for lo, hi, cls in em:
                d = lf.add(lf.to_lf(hi), lf.to_lf(lo), -1)
                if lf.ask(f, "Ge", d):
                    ne.append((lf.to_lf(lo), lf.to_lf(hi), cls))
            empty = lf.ask(f, "Gt", lf.add(u, n1, -1))
            got = ["%s..=%s" % (lf.fmt(lf.simplify(f, x)), lf.fmt(lf.simplify(f, y))) for x, y, _ in ne]
            if empty:
                return None if not ne else "emits %s after the last entry although nothing is pending" % got
            want = "%s..=%s" % (lf.fmt(lf.simplify(f, u)), lf.fmt(lf.simplify(f, n1)))
            if len(ne) != 1 or not lf.ask(f, "Eq", lf.add(ne[0][0], u, -1)) or not lf.ask(f, "Eq", lf.add(ne[0][1], n1, -1)):
                return "when the input is exhausted the pending entries %s are emitted as %s" % (want, got or "nothing")
            if vv is None or ne[0][2] != vv.tag:
                return "the last run %s is emitted with another class" % want
            return None

        r = lf.forall(o.state.facts, pred)
        if r is not None:
            ebad.append("%s  [state: %s]" % (r, sh.describe()))
        # the compressed rows must replace the generator's vector
        me = o.state.heap.get(("arg", 0))
        outv = me.fields[vec_i[0]] if isinstance(me, ip.Adt) else None
        ids = {e[1] for e in o.state.events if e[0] == "emit"}
        if not (isinstance(outv, ip.Opq) and outv.kind == "vec" and outv.data != ("input",)):
            ebad.append("the generator's vector is not replaced by the compressed rows")
        elif ids - {outv.data}:
            ebad.append("rows are pushed into a vector other than the one stored back")

    try:
        shapes, n_paths, errors = ac.explore_loop(prog, world, key, [ip.Ref(("heap", ("arg", 0), ()))], on_step, on_end, letters_for=letters_for, new_n_of=new_n, init_state=init_state)
    except ip.AnalysisError as e:
        rep.undecided(rule, key, e, b.where())
        return False
    if errors and not bad and not ebad:
        rep.undecided(rule, key, errors[0], b.where())
        return False
    rep.ob(rule, "every loop step keeps `rows ∪ pending run = entries consumed`, each code point once and with its own class (%d state shapes, %d paths)" % (len(shapes), n_paths), not bad, "; ".join(sorted(set(bad))[:2]), b.where(), key="%s|step" % rule, sample=True)
    rep.ob(rule, "the pending run is emitted, whole, once and with its class, when the input is exhausted", not ebad, "; ".join(sorted(set(ebad))[:2]), b.where(), key="%s|finish" % rule, sample=True)
    rep.extra["bidi_state_shapes"] = [sh.describe() for sh in shapes]
    return True


RAW_UD = "ucd_parse::unicode_data::UnicodeData"


def pairing_semantics(prog, rep):
    """(iv) ucd_parsers::UnicodeData::parse: for every ascending sequence of plain / <.., First> / <.., Last>
    lines, a plain line yields Single(c), a First line yields nothing and opens a range, the Last line that
    follows yields Range(first, last); a Last without First, and anything but a Last after a First, is an
    error. Induction over the loop's state shapes (one ghost: the open range's start, if any)."""
    from .. import accum as ac
    from .. import linform as lf

    key = "precis_tools::ucd_parsers::UnicodeData::parse"
    rule = "first-last-pairing"
    b = prog.body(key)
    if b is None:
        rep.ob(rule, key, False, "function not found", key="%s|anchor" % rule)
        return
    rep.fn(key)

    class PairWorld(ac.AccWorld):
        def call(self, m, st, callee, args, term):
            p = callee["path"]
            if p in ("ucd_parse::parse", "ucd_parse::common::parse"):
                return ip.ok(ip.Opq("vec", ("input",)))
            if p == "std::path::Path::to_str":
                return ip.some(ip.Str(("path",)))  # error messages only; a non-UTF-8 directory name is out of scope
            if callee["name"] in ("is_range_start", "is_range_end") and args:
                from ..models import deref_all

                v = deref_all(m, st, args[0])
                if isinstance(v, ip.Adt) and v.ty == RAW_UD:
                    kind = v.fields[-1].data[0]
                    return ip.boolean(kind == ("first" if callee["name"] == "is_range_start" else "last"))
            return ac.AccWorld.call(self, m, st, callee, args, term)

        def make_element(self, st, letter):
            c = lf.from_lf({"N": 1, "G": 1}, 0)
            fields = [ac.cp(c)] + [ip.Opq("raw-field", (i,)) for i in range(1, 15)] + [ip.Opq("kind", (letter[0],))]
            return ip.Adt(RAW_UD, 0, tuple(fields))

    world = PairWorld(prog)
    bad = []

    def emitted(o):
        return [(e[2], e[3]) for e in o.state.events if e[0] == "emit"]

    def is_err(o):
        v = o.value
        return isinstance(v, ip.Adt) and v.ty == ip.RESULT and v.variant == 1

    def expect(sh, o, returned):
        kind = world.cur_letter[0]
        open_ = sh.st.ext.get("v:OPEN")
        is_open = isinstance(open_, ip.I) and open_.v == 1
        start = lf.to_lf(sh.st.ext["v:U"])
        c = ({"N": 1, "G": 1}, 0)
        em = emitted(o)
        where = "%s line %s" % (kind, "while the range starting at %s is open" % lf.fmt(start) if is_open else "with no range open")
        must_fail = (is_open and kind != "last") or (not is_open and kind == "last")
        if must_fail:
            if not (returned and is_err(o)):
                bad.append("%s: accepted (must be an error)" % where)
            return None
        if returned:
            bad.append("%s: the parser stops (%s)" % (where, "error" if is_err(o) else "early return"))
            return None
        want = [] if kind == "first" else [(c, c)] if kind == "plain" else [(start, c)]

        def pred(f):
            got = [(lf.to_lf(x), lf.to_lf(y)) for x, y in em]
            if len(got) != len(want):
                return "%s: yields %d entr%s, expected %d" % (where, len(got), "y" if len(got) == 1 else "ies", len(want))
            for (gl, gh), (wl, wh) in zip(got, want):
                if not lf.ask(f, "Eq", lf.add(gl, wl, -1)) or not lf.ask(f, "Eq", lf.add(gh, wh, -1)):
                    return "%s: yields %s..=%s, expected %s..=%s" % (where, lf.fmt(lf.simplify(f, gl)), lf.fmt(lf.simplify(f, gh)), lf.fmt(lf.simplify(f, wl)), lf.fmt(lf.simplify(f, wh)))
            return None

        r = lf.forall(o.state.facts, pred)
        if r is not None:
            bad.append(r)
            return None
        if kind == "first":
            return [(dict(o.state.facts), {"v:U": c, "v:OPEN": ip.I(1, "u32")})]
        return [(dict(o.state.facts), {"v:U": ({}, 0), "v:OPEN": ip.I(0, "u32")})]

    def on_step(sh, o):
        return expect(sh, o, False)

    def on_return(sh, o):
        expect(sh, o, True)

    def on_end(sh, o):
        pass  # a file that ends inside a First/Last pair is not well-formed: outside the quantifier

    def init_state():
        st0 = ip.State()
        st0.ext["v:OPEN"] = ip.I(0, "u32")
        return st0

    try:
        shapes, n_paths, errors = ac.explore_loop(prog, world, key, [ip.Ref(("val", ip.Opq("path", ())))], on_step, on_end, letters_for=lambda sh: [("plain", None), ("first", None), ("last", None)], init_state=init_state, on_return=on_return)
    except ip.AnalysisError as e:
        rep.undecided(rule, key, e, b.where())
        return False
    if errors and not bad:
        rep.undecided(rule, key, errors[0], b.where())
        return False
    rep.ob(rule, "plain ↦ Single, First+Last ↦ Range(first, last), every other arrangement is an error (%d state shapes, %d paths)" % (len(shapes), n_paths), not bad, "; ".join(sorted(set(bad))[:3]), b.where(), key="%s|step" % rule, sample=True)
    rep.extra["pairing_state_shapes"] = [sh.describe() for sh in shapes]
    return True


def pairing_bounded(prog, rep, max_len=4):
    """Fallback for (iv) when the inductive rule cannot follow a restructured parser: every sequence of line
    kinds (plain / First / Last) up to length 4 is fed as a vector of known length with ascending representative
    code points, and the parser's result is compared with the reference pairing. Justified like C18's order
    types: the parser may touch a line only through is_range_start / is_range_end, copies of its fields and
    comparisons of code points (arithmetic on a code point makes this fallback stand down too). It is a bounded
    argument (lengths 0..4, all 3^n kind sequences), stated as such in the evidence."""
    import itertools

    from .. import accum as ac
    from ..models import deref_all, _innermost_ref

    key = "precis_tools::ucd_parsers::UnicodeData::parse"
    rule = "first-last-pairing"
    b = prog.body(key)
    if b is None:
        return False
    # side condition: no arithmetic in the parser on anything but loop counters of std (checked on its own MIR)
    for bl in b.blocks:
        for st_ in bl["stmts"]:
            if st_["k"] == "assign" and st_["rv"]["k"] == "binop" and st_["rv"]["op"].replace("WithOverflow", "") in ("Add", "Sub", "Mul", "Div", "Rem", "Shl", "Shr", "BitAnd", "BitOr", "BitXor"):
                rep.undecided(rule + " (bounded)", key, "the parser computes with values (binop %s): representatives are not justified" % st_["rv"]["op"], b.where())
                return False

    def element(i, kind):
        fields = [ac.cp(ip.I(0x100 * (i + 1), "u32"))] + [ip.Opq("raw-field", (i, j)) for j in range(1, 15)] + [ip.Opq("kind", (kind,))]
        return ip.Adt(RAW_UD, 0, tuple(fields))

    class W(ac.AccWorld):
        def call(self, m, st, callee, args, term):
            p = callee["path"]
            name = callee["name"]
            if p in ("ucd_parse::parse", "ucd_parse::common::parse"):
                return ip.ok(ip.Opq("cvec", tuple(st.ext["elems"])))
            if p == "std::path::Path::to_str":
                return ip.some(ip.Str(("path",)))
            if name in ("is_range_start", "is_range_end") and args:
                v = deref_all(m, st, args[0])
                if isinstance(v, ip.Adt) and v.ty == RAW_UD:
                    return ip.boolean(v.fields[-1].data[0] == ("first" if name == "is_range_start" else "last"))
            v0 = deref_all(m, st, args[0]) if args else None
            if isinstance(v0, ip.Opq) and v0.kind == "cvec":
                elems = v0.data
                if name == "len":
                    return ip.I(len(elems), "usize")
                if name == "is_empty":
                    return ip.boolean(not elems)
                if name in ("deref", "as_slice", "as_ref", "borrow"):
                    return args[0]
                if name in ("iter", "into_iter"):
                    return ip.Opq("cvec-iter", (elems, 0, 1))
                if name == "windows" and isinstance(args[1], ip.I):
                    return ip.Opq("cvec-iter", (elems, 0, args[1].v))
                if name == "first":
                    return ip.some(ip.Ref(("val", elems[0]))) if elems else ip.none()
                if name == "last":
                    return ip.some(ip.Ref(("val", elems[-1]))) if elems else ip.none()
                if name == "get" and isinstance(args[1], ip.I):
                    return ip.some(ip.Ref(("val", elems[args[1].v]))) if args[1].v < len(elems) else ip.none()
            if isinstance(v0, ip.Opq) and v0.kind == "cvec-iter":
                if name in ("into_iter", "by_ref", "peekable", "fuse"):
                    return args[0] if name != "peekable" else None
                if name == "next" and isinstance(args[0], ip.Ref):
                    ref, it = _innermost_ref(m, st, args[0])
                    elems, pos, width = it.data
                    if pos + width > len(elems):
                        return ip.none()
                    m.store(st, ref.loc, ip.Opq("cvec-iter", (elems, pos + 1, width)))
                    if width == 1:
                        return ip.some(ip.Ref(("val", elems[pos])))
                    return ip.some(ip.Ref(("val", ip.Opq("array", tuple(elems[pos : pos + width])))))
            return ac.AccWorld.call(self, m, st, callee, args, term)

        def index_hook(self, st, base, idx):
            if isinstance(base, ip.Opq) and base.kind in ("array", "cvec") and isinstance(idx, ip.I) and idx.v < len(base.data):
                return base.data[idx.v]
            raise ip.AnalysisError("indexing of %r with %r" % (base, idx))

        def len_hook(self, st, a):
            v = a
            if isinstance(v, ip.Ref) and v.loc[0] == "val":
                v = v.loc[1]
            if isinstance(v, ip.Opq) and v.kind in ("array", "cvec"):
                return ip.I(len(v.data), "usize")
            return ip.Top("usize")

    def reference(kinds):
        out, open_ = [], None
        for i, k in enumerate(kinds):
            c = 0x100 * (i + 1)
            if open_ is not None:
                if k != "last":
                    return "Err", out
                out.append((open_, c))
                open_ = None
            elif k == "last":
                return "Err", out
            elif k == "first":
                open_ = c
            else:
                out.append((c, c))
        return "Ok", out  # (a file ending inside a pair: the open range is dropped, as the original does)

    world = W(prog)
    m = ip.Machine(prog, world)
    bad = []
    n = 0
    try:
        for ln in range(max_len + 1):
            for kinds in itertools.product(("plain", "first", "last"), repeat=ln):
                if kinds and kinds[-1] == "first":
                    continue  # a file that ends inside a pair is not well-formed
                st0 = ip.State()
                st0.ext["elems"] = [element(i, k) for i, k in enumerate(kinds)]
                outs = [o for o in m.run(m.start(key, [ip.Ref(("val", ip.Opq("path", ())))], st0), max_paths=200) if o.kind != "closed"]
                n += 1
                if len(outs) != 1 or outs[0].kind != "return":
                    bad.append("lines %s: %d outcomes (%s)" % (list(kinds), len(outs), [o.kind for o in outs][:3]))
                    continue
                o = outs[0]
                v = o.value
                got_res = "Ok" if isinstance(v, ip.Adt) and v.ty == ip.RESULT and v.variant == 0 else "Err"
                got = [(e[2].v, e[3].v) for e in o.state.events if e[0] == "emit" and isinstance(e[2], ip.I) and isinstance(e[3], ip.I)]
                want_res, want = reference(kinds)
                if got_res != want_res or (want_res == "Ok" and got != want):
                    bad.append("lines %s: parser gives %s %s, the pairing rule gives %s %s" % (list(kinds), got_res, [("%04X" % a, "%04X" % c) for a, c in got], want_res, [("%04X" % a, "%04X" % c) for a, c in want]))
    except ip.AnalysisError as e:
        rep.undecided(rule + " (bounded)", key, e, b.where())
        return False
    rep.ob(rule, "bounded fallback: all %d sequences of plain/First/Last lines up to length %d are paired as the reference pairs them" % (n, max_len), not bad, "; ".join(bad[:3]), b.where(), key="%s|bounded" % rule, sample=True)
    rep.extra["pairing_bounded_sequences"] = n
    return True


def run(tier):
    rep = Report("C15", tier, __doc__)
    prog = Program()
    res = tablecheck.get(prog)
    n = tablecheck.report_tables(rep, res, None, rule="L5")
    rep.floor("table statics folded and compared", n, 47)
    rep.extra["table_rows"] = res["n_rows"]
    rep.extra["exhaustive"] = False
    rep.extra["code_points_compared_per_table"] = 0x110000
    for f, v in sorted(res["versions"].items()):
        rep.ob("ucd-version", f, v == "6.3.0", "header says %s, precis-core/build.rs reads it as 6.3.0" % v)
    # the inductive rules decide the accumulators' semantics when they can follow the code; where one stands down
    # (an algorithm restructured beyond its reach) the structural necessary conditions take over for that function
    decided = set()
    if gap_semantics(prog, rep):
        decided.add("UnassignedTableGen")
    if merge_semantics(prog, rep):
        decided.add("precis_tools::common::get_codepoints_vector")
    if bidi_run_semantics(prog, rep):
        decided.add(BIDIGEN + "::compress_into_ranges")
    if pairing_semantics(prog, rep):
        decided.add("precis_tools::ucd_parsers::UnicodeData::parse")
    else:
        pairing_bounded(prog, rep)
    rep.extra["decided_by_induction"] = sorted(decided)
    run_loops(prog, rep, skip=decided)
    if "precis_tools::common::get_codepoints_vector" not in decided:
        sort_before_merge(prog, rep)
    accumulators(prog, rep)
    entry_kind_agreement(prog, rep)
    rep.not_decided += [
        "ucd-parse's own line grammar; inputs whose entries are not in ascending order; the per-entry set generators beyond entry-kind agreement",
    ]
    if len(decided) < 4:
        rep.not_decided.append("accumulator semantics for arbitrary entry sequences of the functions on which the inductive rules stood down (see stood_down)")
    rep.assumptions += ["pv/ucd.py reads UAX #44 files correctly (cross-checked against the IANA registry in C14)"]
    return rep
