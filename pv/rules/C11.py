"""C11 — width mapping replaces exactly the wide/narrow compatibility characters.

Data (L5): WIDE_NARROW_MAPPING = {cp ↦ m} for exactly the 16.0.0 UnicodeData entries whose decomposition
is tagged <wide> or <narrow>, each with a single-code-point mapping; every value is a Unicode scalar
value; no value is itself a key (applying the map twice = once); table order (L2), lookup shape (L3) and
lookup semantics (found ⇒ that row's value, miss ⇒ None).
Code: copy-on-first-change discipline over the alphabet {M (has a table entry), O (has none)}: trigger set
= {M} and computed from the mapper itself (has_width_mapping = get_decomposition_mapping(..).is_some(),
inlined), untouched input when no M, prefix/suffix meet at find's position, one-state loop emitting the
table value for M and the character itself for O. Both profiles' width_mapping_rule resolve to it."""
from spec import tables_spec as ts

from .. import automaton as au
from .. import fcd
from .. import interp as ip
from .. import tablecheck
from .. import totality as tt
from ..interp import AnalysisError, Str, Sym
from ..mir import Program
from ..report import Report
from . import common

U = "precis_profiles::usernames::"
ALPHA = ["M", "O"]


def lookup_semantics(prog, rep):
    key = U + "get_decomposition_mapping"
    b = prog.body(key)
    if b is None:
        rep.ob("lookup", key, False, "not found")
        return
    rep.fn(key)
    w = tt.TotalWorld(prog, set(), key)
    m = ip.Machine(prog, w)
    try:
        outs = m.run(m.start(key, [Sym("cp", "u32")]))
    except AnalysisError as e:
        rep.analysis_error("lookup", key, e, b.where())
        return
    from .. import tables

    tabs, _ = tables.all_tables(prog)
    rows = tabs.get(ts.P + "usernames::WIDE_NARROW_MAPPING")
    if rows is None:
        rep.ob("lookup", "get_decomposition_mapping", False, "WIDE_NARROW_MAPPING not folded", b.where(), key="lookup|semantics")
        return

    def decode(o):
        v = o.value
        if isinstance(v, ip.Adt) and v.ty == ip.OPTION:
            if v.variant == 0:
                return ("const", None)
            x = v.fields[0]
            if isinstance(x, ip.I):
                return ("const", x.v)
            if isinstance(x, Sym):
                return ("row",)
        return ("other", repr(v))

    try:
        err = common.exact_lookup(outs, "cp", "u32", rows, None, decode)
    except AnalysisError as e:
        rep.analysis_error("lookup", key, e, b.where())
        return
    if err is None and (w.findings or w.probe_panics):
        err = "; ".join([f["detail"] for f in w.findings[:2]] + [str(p) for p in w.probe_panics[:1]])
    rep.ob("lookup", "get_decomposition_mapping(cp) = Some(the table's mapping of cp), None when not listed — for every code point (%d paths)" % len(outs), err is None, err or "", b.where(), key="lookup|semantics", sample=True)


def run(tier):
    rep = Report("C11", tier, __doc__)
    prog = Program()
    res = tablecheck.get(prog)
    path = ts.P + "usernames::WIDE_NARROW_MAPPING"
    tablecheck.report_tables(rep, res, {path}, rule="L5")
    t = res["tables"].get(path, {})
    rep.ob("data", "idempotent: no mapping value is itself mapped", t.get("idempotent") is True, "; ".join(t.get("notes", [])), path)
    rep.ob("data", "every mapping value is a Unicode scalar value", t.get("values_scalar") is True, "", path)
    rep.ob("data", "single-code-point mappings", not any("multi" in n for n in t.get("notes", [])), "; ".join(t.get("notes", [])), path)
    rep.extra["table_rows"] = t.get("rows")
    common.lookup_sites(prog, rep)
    lookup_semantics(prog, rep)
    # ---- discipline
    key = U + "width_mapping_rule"

    def gdm(w, m, st, callee, args, term):
        c = args[0]
        if not (isinstance(c, Sym) and au.is_ch(Sym(c.name, "char"))):
            raise AnalysisError("get_decomposition_mapping is asked about %r, not about a character of the string" % (c,))
        if c.name[2] == "M":
            return ip.some(Sym(("mapped", c.name[1], "M"), "u32"))
        return ip.none()

    w = fcd.FcdWorld(prog, ALPHA, {}, extra_oracles={U + "get_decomposition_mapping": gdm})
    info = fcd.analyse(prog, rep, "discipline", key, w)
    if info is not None:
        b = info["body"]
        rep.ob("discipline", "trigger set", info["trig"] == {"M"}, "find() stops at class %s; must stop exactly at characters with a width mapping" % sorted(info["trig"]), b.where(), key="discipline|trigger")
        rep.ob("discipline", "no mapped character ⇒ input returned unchanged", info["none_result"] == ("Ok", ("input",)) and not info["none_events"], "returns %s" % (info["none_result"],), b.where())
        aut = info["aut"]
        rep.ob("discipline", "mapping loop is stateless", fcd.behavioural_states(aut, ALPHA) == 1, "%d behaviourally different loop states: the result for a character depends on what precedes it" % fcd.behavioural_states(aut, ALPHA), b.where(), key="discipline|stateless")
        try:
            per, q0, end_ev, end_res = fcd.letter_outputs(aut, ALPHA)
            want = {"M": [("push", "mapped", 0, "M")], "O": [("push", "char", 0, "O")]}
            for a in ALPHA:
                got = list(per[a][0])
                rep.ob("discipline", "letter %s" % a, got == want[a] and per[a][1] == q0, "loop emits %s, required %s" % (got, want[a]), b.where(), key="discipline|map|%s" % a, sample=True)
            rep.ob("discipline", "end of input", end_res == ("Ok", "buffer") and not end_ev, "at end: %s %s" % (end_ev, end_res), b.where())
        except AnalysisError as e:
            rep.analysis_error("discipline", key, e, b.where())
        rep.extra["states"] = aut.nstates()
        rep.extra["transitions"] = len(aut.delta)
    # both profiles' Rules::width_mapping_rule forward to this function
    from .. import pipeline as pl

    for prof in ("UsernameCaseMapped", "UsernameCasePreserved"):
        mk = "<%s as precis_core::profile::Rules>::width_mapping_rule" % pl.PROFILES[prof][0]
        b = prog.body(mk)
        if b is None:
            rep.ob("binding", prof, False, "Rules::width_mapping_rule not implemented by the profile")
            continue
        rep.fn(mk)
        try:
            paths = pl.extract(prog, mk, [ip.Ref(("val", pl.profile_value(prof))), Str(("input",))])
            want = [(ev, r) for ev, r, n in pl.spec_paths([("leaf", "width")], ("input",))]
            d = pl.diff_paths(paths, want)
            rep.ob("binding", "%s::width_mapping_rule = usernames::width_mapping_rule" % prof, not d, "; ".join(d), b.where())
        except AnalysisError as e:
            rep.analysis_error("binding", prof, e, b.where())
    rep.extra["exhaustive"] = True
    rep.assumptions += ["str::find, String::push as documented"]
    return rep
