"""C05 — OpaqueString applies RFC 8265 §4.2 exactly.

Rule: pipeline extraction of OpaqueString::prepare / ::enforce. prepare = [non-empty; FreeformClass
accepts] and returns the *input's own content tag* (unchanged); enforce = prepare; space mapping (the
profile's own additional_mapping_rule); NFC; non-empty. No other transforming call may appear (any
unlisted call yielding a new string is an unmodelled call = analysis error), so case, width and every
other character are preserved by construction. The space mapping's own semantics are C12."""
from ..mir import Program
from ..report import Report
from . import profiles


def run(tier):
    rep = Report("C05", tier, __doc__)
    prog = Program()
    n = 0
    for op in ("prepare", "enforce"):
        if profiles.check_single(prog, rep, "OpaqueString", op) is not None:
            n += 1
    rep.floor("OpaqueString pipelines extracted", n, 2)
    # the static forms (PrecisFastInvocation) are part of the public operations: they must forward to these
    rep.floor("static-form methods checked", profiles.fast_invocation(prog, rep, "OpaqueString"), 3)
    profiles.normalizer_shape(prog, rep, "normalization_form_nfc", "nfc")
    profiles.include_leaves(rep, [("C12", "space mapping (additional mapping rule)"), ("C14", "derived property behind FreeformClass"), ("C02", "FreeformClass::allows")])
    rep.extra["exhaustive"] = True
    rep.assumptions += ["semantics of the leaves: C12 (space mapping), C02/C14 (FreeformClass) adopted as dependencies; unicode-normalization implements NFC"]
    return rep
