"""C16 — results depend only on the arguments, not on API form, history or threads.

Rule (effect / ownership analysis over the type-checked program):
 (a) no hidden state: every static of the two library crates is immutable and Freeze, except the four
     lazy_static cells whose payload is a profile type; no `static mut`, thread-local, unsafe code,
     `unsafe impl Send/Sync`, or interior-mutability / raw-pointer field in any library type;
 (b) one value per type: the four profile types and the two class types are zero-sized, Copy, Send and
     Sync (the type checker's own verdict, exported by the driver), and every trait method takes &self;
 (c) effects: the resolved call-graph closure of the public API contains no callee from the deny-list
     (fs, io, env, time, thread, process, net, atomics, locks, cells, hash-randomised collections, rand,
     FFI); external crates reached are core/alloc/std, unicode-normalization and lazy_static only;
 (d) API forms: each static-form function forwards the same arguments, in order, to the same method of
     the lazily created profile and returns that result unchanged; generic string arguments are
     converted by content-preserving calls only (pipeline extraction: the content tag that reaches the
     first rule is the input's own).
Each zero-count rule must also match its instance in the positive-control crate on every run."""
import re

from .. import interp as ip
from .. import mir
from ..mir import Program
from ..report import Report
from . import common, profiles

LIB = ("precis_core", "precis_profiles")
PROFILE_TYPES = [
    "precis_profiles::nicknames::Nickname",
    "precis_profiles::passwords::OpaqueString",
    "precis_profiles::usernames::UsernameCaseMapped",
    "precis_profiles::usernames::UsernameCasePreserved",
]
CLASS_TYPES = ["precis_core::stringclasses::IdentifierClass", "precis_core::stringclasses::FreeformClass"]

DENY = [
    ("std::fs::", "file system"),
    ("std::io::", "I/O"),
    ("std::env::", "process environment"),
    ("std::time::", "clock"),
    ("std::thread::", "threads / thread-local storage"),
    ("std::process::", "process control"),
    ("std::net::", "network"),
    ("std::os::", "OS interfaces"),
    ("core::sync::atomic::", "atomics (shared mutable state)"),
    ("std::sync::", "locks / once cells (shared mutable state)"),
    ("core::cell::", "interior mutability"),
    ("std::collections::hash::", "hash-randomised collection (iteration order differs between runs)"),
    ("std::hash::random::", "random hasher state"),
    ("rand::", "random numbers"),
    ("core::intrinsics::", "intrinsics"),
    ("core::ptr::", "raw pointer access"),
    ("std::alloc::", "manual allocation"),
    ("core::mem::transmute", "transmute"),
]
# deny-listed callees that are accepted, each with the reason it cannot carry state between calls
_ONCE = "Once-guarded initialisation of a zero-sized profile: every initialisation yields the type's single value"
ALLOW = {
    "lazy_static::lazy::Lazy::<T>::get": _ONCE,
    "std::sync::once_lock::OnceLock::<T>::get_or_init": _ONCE,
    "std::sync::once_lock::OnceLock::<T>::new": _ONCE,
    "<std::sync::lazy_lock::LazyLock<T, F> as core::ops::deref::Deref>::deref": _ONCE,
    "std::sync::lazy_lock::LazyLock::<T, F>::force": _ONCE,
    "std::sync::lazy_lock::LazyLock::<T, F>::new": _ONCE,
}
ALLOWED_CRATES = {"core", "alloc", "std", "unicode_normalization", "lazy_static", "precis_core", "precis_profiles"}
INTERIOR = re.compile(r"(\bCell<|RefCell<|Mutex<|RwLock<|\bAtomic[A-Z]|UnsafeCell<|OnceCell<|OnceLock<|LazyLock<|LazyCell<|\*mut |\*const |Rc<|Arc<)")


def roots(prog, crates=LIB):
    out = []
    for c in crates:
        for b in prog.by_crate[c]:
            if b.kind != "fn" or b.d.get("in_test"):
                continue
            if b.d.get("exported"):
                out.append(b.key)
    return out


def static_rules(prog, rep, crates, positive=False):
    n_bad = 0
    n = 0
    for path, s in sorted(prog.statics.items()):
        if s["crate"] not in crates:
            continue
        n += 1
        okk = True
        why = ""
        if s["mutable"]:
            okk, why = False, "`static mut`: shared mutable state"
        elif not s["freeze"]:
            from .. import oncecell

            if oncecell.payload_type(s["ty"]) not in PROFILE_TYPES:
                okk, why = False, "static with interior mutability of type %s (only the once-initialised cells — lazy_static, OnceLock, LazyLock — of the zero-sized profiles are accepted)" % s["ty"]
        if positive:
            n_bad += 0 if okk else 1
        else:
            rep.ob("no-hidden-state", "static %s" % path.split("::")[-1], okk, why, path, key="no-hidden-state|static|%s" % path)
    return n, n_bad


def type_rules(prog, rep, crates, positive=False):
    n = n_bad = 0
    for path, a in sorted(prog.adts.items()):
        if a["crate"] not in crates:
            continue
        n += 1
        bad = []
        for v in a["variants"]:
            for f in v["fields"]:
                if INTERIOR.search(f["ty"]):
                    bad.append("%s: %s" % (f["name"], f["ty"]))
        if a.get("freeze") is False:
            bad.append("type is not Freeze (contains an UnsafeCell)")
        for tr in ("send", "sync"):
            if a.get(tr) is False:
                bad.append("type is not %s" % tr.capitalize())
        if positive:
            n_bad += 1 if bad else 0
        else:
            rep.ob("no-hidden-state", "type %s" % path, not bad, "; ".join(bad), path, key="no-hidden-state|type|%s" % path)
    for im in prog.impls:
        if im["crate"] not in crates:
            continue
        if im["safety"] != "Safe" and not (im["span"]["exp"] and im["trait"] and im["trait"].endswith("TrivialClone")):
            if positive:
                n_bad += 1
            else:
                rep.ob("no-hidden-state", "unsafe impl %s" % im["path"], False, "unsafe impl of %s" % im["trait"], im["path"])
    return n, n_bad


def body_rules(prog, rep, keys, positive=False):
    """Effects of the bodies `keys`: deny-listed callees, thread-locals, unsafe, foreign crates."""
    hits = []
    sites = 0
    crates_reached = set()
    for k in keys:
        b = prog.bodies[k]
        if b.d["unsafe"]:
            hits.append((k, "unsafe fn", b.where()))
        if b.d.get("unsafe_blocks"):
            hits.append((k, "unsafe block (%d)" % b.d["unsafe_blocks"], b.where()))
        for bl in b.blocks:
            if bl["cleanup"]:
                continue
            for st in bl["stmts"]:
                if st["k"] == "assign":
                    rv = st["rv"]
                    if rv["k"] == "thread_local_ref":
                        hits.append((k, "thread-local %s" % rv["path"], common.where(st)))
                    if rv["k"] == "cast" and rv["kind"] == "Transmute" and not st["span"]["exp"]:
                        hits.append((k, "transmute", common.where(st)))
                    for o in mir.operands_of_rvalue(rv):
                        if o and o.get("k") == "static_ref" and prog.statics.get(o["static"], {}).get("mutable"):
                            hits.append((k, "access to static mut %s" % o["static"], common.where(st)))
            t = bl["term"]
            if t["k"] != "call":
                continue
            sites += 1
            c = t["callee"]
            if c is None:
                continue
            crates_reached.add(c["crate"])
            for p in {c["path"], c["orig"]}:
                ext = prog.externs.get(p)
                if ext and ext.get("unsafe") and not t["span"]["exp"]:
                    hits.append((k, "call of unsafe fn %s" % p, common.where(t)))
                if ext and ext.get("kind", "").startswith("ForeignItem"):
                    hits.append((k, "FFI call %s" % p, common.where(t)))
                if p in ALLOW:
                    continue
                for pref, what in DENY:
                    if p.startswith(pref) or ("<" + pref) in p or (" " + pref) in p:
                        hits.append((k, "%s: %s" % (what, p), common.where(t)))
                        break
    return hits, sites, crates_reached


COW_STR = re.compile(r"^alloc::borrow::Cow<('[A-Za-z_0-9]+, )?str>$")


def representation_sites(prog, keys):
    """(function, where) for every read of the discriminant of a Cow<str> in the given bodies: `match cow
    { Borrowed.. / Owned.. }`, `matches!`, `if let Cow::Owned(..)`. Deref, `into_owned`, `to_mut`, `==` go
    through std and are content functions; drop elaboration of a *moved-from* Cow also reads the
    discriminant, but only after a user-written match on it."""
    out = []
    seen = set()
    for k in keys:
        b = prog.bodies[k]
        for bl in b.blocks:
            if bl["cleanup"]:
                continue
            for st in bl["stmts"]:
                if st["k"] == "assign" and st["rv"]["k"] == "discriminant" and COW_STR.match(st["rv"].get("ty", "")) and k not in seen:
                    seen.add(k)
                    out.append((k, common.where(st)))
    return out


def variant_independent(prog, key):
    """Try to show that a body which inspects a Cow's variant returns the same content either way:
    interpret it with strings as content terms (Borrowed(x) and Owned(x) carry the same term x), every
    external call an uninterpreted function of its argument terms, and the variant an oracle. Paths that
    agree on every other decision must return the same term. Anything the interpreter cannot follow
    (loops over characters, unmodelled mutation) means "not shown"."""
    from .. import types as ty_
    from ..worlds import OracleWorld

    from ..interp import Adt, I, Opq, Ref, Str, Sym, Tup
    from ..models import deref_all, _innermost_ref
    from ..worlds import arg_key

    EXTEND = "<alloc::string::String as core::iter::traits::collect::Extend<char>>::extend"
    FROM_ITER = "<alloc::string::String as core::iter::traits::collect::FromIterator<char>>::from_iter"
    COLLECT = "core::iter::traits::iterator::Iterator::collect"

    def nf(v):
        """A string value as a concatenation of atoms: ('sl', base, lo, hi) slices of a base string,
        ('drain', iterator term), ('ch', char term), ('uf', ...) uninterpreted string results."""
        if not isinstance(v, Str):
            raise ip.AnalysisError("string content of %r" % (v,))
        if isinstance(v.tag, tuple) and v.tag and v.tag[0] == "cat":
            return list(v.tag[1])
        if v.tag == ("lit", ""):
            return []
        return [("sl", v.tag, 0, "end")]

    def mk(atoms):
        out = []
        for a in atoms:
            if a[0] == "sl" and a[2] == a[3]:
                continue
            if out and a[0] == "sl" and out[-1][0] == "sl" and out[-1][1] == a[1] and out[-1][3] == a[2]:
                out[-1] = ("sl", a[1], out[-1][2], a[3])
            else:
                out.append(a)
        if len(out) == 1 and out[0][0] == "sl" and out[0][2] == 0 and out[0][3] == "end":
            return Str(out[0][1])
        return Str(("cat", tuple(out)))

    def bound(v):
        if isinstance(v, I):
            return v.v
        if isinstance(v, Sym):
            return ("v", v.name)
        raise ip.AnalysisError("slice bound %r" % (v,))

    def cut(atoms, lo, hi):
        """atoms[lo..hi] for a string that is one slice atom."""
        if len(atoms) != 1 or atoms[0][0] != "sl":
            raise ip.AnalysisError("slice of a string that is not a plain slice of an input")
        _, base, a, b = atoms[0]
        if a != 0 and lo is not None or b != "end" and hi is not None:
            raise ip.AnalysisError("slice of a slice")
        return ("sl", base, a if lo is None else lo, b if hi is None else hi)

    def rng_bounds(m, st, rng):
        r = rng if isinstance(rng, Adt) else deref_all(m, st, rng)
        kind = r.ty.rsplit("::", 1)[1]
        if kind == "RangeTo":
            return None, bound(r.fields[0])
        if kind == "RangeFrom":
            return bound(r.fields[0]), None
        if kind == "Range":
            return bound(r.fields[0]), bound(r.fields[1])
        if kind == "RangeFull":
            return None, None
        raise ip.AnalysisError("slice with %s" % r.ty)

    class W(OracleWorld):
        """Strings as concatenations of content atoms (a small string algebra): slicing, split_at, push_str,
        extend/collect of an iterator term and replace_range are computed on the terms; everything else is an
        uninterpreted function of its argument terms."""

        max_steps = 20000

        def call(self, m, st, callee, args, term):
            p = callee["path"]
            if self.prog.is_ws(p):
                return None
            if p == EXTEND and isinstance(args[0], Ref):
                r, cur = _innermost_ref(m, st, args[0])
                m.store(st, r.loc, mk(nf(cur) + [("drain", arg_key(m, st, deref_all(m, st, args[1])))]))
                return ip.UNIT
            fr = st.frames[-1]
            dty = fr.body.locals[term["dest"]["l"]]["ty"] if not term["dest"]["p"] else "?"
            if p == FROM_ITER or (p == COLLECT and dty == "alloc::string::String"):
                return mk([("drain", arg_key(m, st, deref_all(m, st, args[0])))])
            if p in m.models:
                try:
                    r = m.models[p](m, st, callee, args, term)
                except ip.AnalysisError as e:
                    if "no model in W" not in str(e):
                        raise
                    r = None
                if r is not None:
                    return r
            if callee.get("virtual") or not callee["resolved"]:
                if callee.get("trait") in ("core::convert::Into", "core::convert::From", "core::convert::AsRef", "core::ops::deref::Deref"):
                    return None
            return self.uf_result(m, st, p, callee, args, term)

        def str_find(self, m, st, s, pred):
            key = ("find", arg_key(m, st, s), arg_key(m, st, pred))
            if st.choose(key, ["None", "Some"]) == "None":
                return ip.none()
            return ip.some(Sym(key, "usize"))

        def str_slice(self, m, st, s, rng, callee):
            lo, hi = rng_bounds(m, st, rng)
            return mk([cut(nf(s), lo, hi)])

        def split_at(self, m, st, s, mid):
            b = bound(mid)
            return Tup((Ref(("val", mk([cut(nf(s), None, b)]))), Ref(("val", mk([cut(nf(s), b, None)])))))

        def str_split_off(self, m, st, s, at):
            b = bound(at)
            return mk([cut(nf(s), None, b)]), mk([cut(nf(s), b, None)])

        def replace_range(self, m, st, s, rng, content, callee):
            lo, hi = rng_bounds(m, st, rng)
            atoms = nf(s)
            out = []
            if lo is not None:
                out.append(cut(atoms, None, lo))
            out += nf(content)
            if hi is not None:
                out.append(cut(atoms, hi, None))
            return mk(out)

        def new_buf(self, st, content):
            return mk(nf(content))

        def buf_push_str(self, m, st, bufref, content):
            r, cur = _innermost_ref(m, st, bufref)
            m.store(st, r.loc, mk(nf(cur) + nf(content)))
            return ip.UNIT

        def buf_push(self, m, st, bufref, chv):
            r, cur = _innermost_ref(m, st, bufref)
            m.store(st, r.loc, mk(nf(cur) + [("ch", arg_key(m, st, chv))]))
            return ip.UNIT

        def str_len(self, st, s):
            return Sym(("len", repr(s.tag)), "usize")

    f = prog.fns.get(key)
    if f is None:
        return False, "no signature"
    m = ip.Machine(prog, W(prog))
    st0 = ip.State()
    try:
        outs = m.run(m.start(key, ty_.fresh_args(prog, st0, f["inputs"]), st0), max_paths=2000)
    except ip.AnalysisError as e:
        return False, "not followed: %s" % str(e)[:120]
    groups = {}
    for o in outs:
        if o.kind == "closed":
            return False, "loop"
        rest = tuple((k, v) for k, v in o.state.log if not (isinstance(k, tuple) and k and k[0] == "cow-variant"))
        groups.setdefault(repr(rest), set()).add((o.kind, repr(o.value)))
    for g, res in groups.items():
        if len(res) != 1:
            return False, "results differ by variant: %s" % sorted(res)[:2]
    return True, "%d paths" % len(outs)


def run(tier):
    rep = Report("C16", tier, __doc__)
    prog = Program()
    # ---------------- (a) state
    ns, _ = static_rules(prog, rep, LIB)
    nt, _ = type_rules(prog, rep, LIB)
    # 55 on the pinned tree, of which four are the wrapper statics lazy_static! adds next to each profile singleton
    rep.floor("library statics examined", ns, 51)
    # 15 on the pinned tree, of which four are the unit structs lazy_static! declares for the profile singletons
    rep.floor("library types examined", nt, 11)
    from .. import oncecell

    lazies = [s for p, s in prog.statics.items() if s["crate"] in LIB and oncecell.payload_type(s["ty"]) is not None]
    rep.ob("no-hidden-state", "lazy_static cells", len(lazies) == 4, "expected the four profile singletons, found %d" % len(lazies))
    # ---------------- (b) single-valued types
    for ty in PROFILE_TYPES + CLASS_TYPES:
        a = prog.adts.get(ty)
        if a is None:
            rep.ob("single-valued", ty, False, "type not found")
            continue
        okk = a["size"] == 0 and a["copy"] and a["send"] and a["sync"] and a["freeze"]
        rep.ob("single-valued", ty.split("::")[-1], okk, "size=%s copy=%s send=%s sync=%s freeze=%s: a profile/class must be a zero-sized Copy+Send+Sync value (a fresh, a long-lived and the lazily created instance are then indistinguishable)" % (a["size"], a["copy"], a["send"], a["sync"], a["freeze"]), ty, key="single-valued|%s" % ty, sample=True)
    n_self = 0
    for path, f in sorted(prog.fns.items()):
        if f["crate"] not in LIB or not f["inputs"]:
            continue
        first = f["inputs"][0]
        for ty in PROFILE_TYPES + CLASS_TYPES:
            if ty in first and first.startswith("&"):
                n_self += 1
                rep.ob("shared-self", path, not first.startswith("&mut") and "&'a mut" not in first, "method takes %s" % first, path)
    rep.floor("methods taking &self on profile/class types", n_self, 40)
    # ---------------- (c) effects
    rts = roots(prog)
    reach = prog.reachable(rts, crates=LIB)
    rep.fn(*reach.keys())
    hits, sites, crates_reached = body_rules(prog, rep, reach.keys())
    seen = set()
    for k, what, where in hits:
        key = "effects|%s|%s" % (k, what)
        if key in seen:
            continue
        seen.add(key)
        rep.ob("effects", "%s: %s" % (k, what), False, "reached via %s" % " → ".join(prog.path_to(reach, k)[-4:]), where, key=key)
    rep.ob("effects", "deny-list over %d reachable bodies / %d call sites" % (len(reach), sites), not hits, "%d hit(s)" % len(hits), sample=True)
    foreign = crates_reached - ALLOWED_CRATES
    rep.ob("effects", "external crates reached", not foreign, "unexpected crate(s) %s (allowed: %s)" % (sorted(foreign), sorted(ALLOWED_CRATES)))
    rep.floor("public-API roots", len(rts), 60)
    rep.floor("reachable library bodies", len(reach), 150)
    rep.floor("call sites examined", sites, 500)
    rep.extra["crates_reached"] = sorted(crates_reached)
    # ---------------- (c') representation-blindness: borrowed / owned / Cow arguments give the same content
    rsites = representation_sites(prog, reach.keys())
    n_bad = 0
    for k, where in rsites:
        same, why = variant_independent(prog, k)
        n_bad += 0 if same else 1
        rep.ob("representation", k, same, "inspects whether a Cow<str> is Borrowed or Owned: the result may then differ between a borrowed slice, a String and a Cow of the same content, and the two branches could not be shown to return the same content (%s)" % why, where, key="representation|%s" % k)
    rep.ob("representation", "no library body reachable from the public API lets a result depend on the Cow variant of a string (%d bodies, %d inspecting site(s))" % (len(reach), len(rsites)), n_bad == 0, "%d function(s)" % n_bad, sample=True, key="representation|summary")
    # ---------------- (d) API forms
    k = 0
    for prof in ("UsernameCaseMapped", "UsernameCasePreserved", "OpaqueString", "Nickname"):
        k += profiles.fast_invocation(prog, rep, prof)
        # prepare/enforce on the input's own content tag: the pipeline checks of C04-C06 establish that the
        # first rule receives ("input",); here: the generic argument is converted by Into/AsRef only
    rep.floor("static-form methods checked", k, 12)
    into_sites = 0
    for key in reach:
        b = prog.bodies[key]
        if b.crate != "precis_profiles":
            continue
        for bb, t in b.calls():
            c = t["callee"]
            if c and c["orig"] in ("core::convert::Into::into", "core::convert::AsRef::as_ref"):
                into_sites += 1
    rep.floor("Into/AsRef conversion sites", into_sites, 15)
    # ---------------- positive controls
    pos = [b.key for b in prog.by_crate.get("pv_positive", [])]
    phits, _, _ = body_rules(prog, rep, pos, positive=True)
    kinds = {h[1].split(":")[0] for h in phits}
    for want in ("clock", "process environment", "atomics (shared mutable state)", "process control"):
        rep.ob("positive-control", "effects rule fires on `%s`" % want, want in kinds, "rule did not match its positive control (fired: %s)" % sorted(kinds))
    rep.ob("positive-control", "Cow-variant inspection detected", bool(representation_sites(prog, pos)), "rule did not match `by_representation`")
    rep.ob("positive-control", "unsafe block detected", any(h[1].startswith("unsafe block") for h in phits), "fired: %s" % sorted({h[1][:30] for h in phits}))
    rep.ob("positive-control", "thread-local / static mut detected", any(h[1].startswith("thread-local") for h in phits) and any("static mut" in h[1] for h in phits), "fired: %s" % sorted({h[1][:30] for h in phits}))
    _, sb = static_rules(prog, rep, ("pv_positive",), positive=True)
    _, tb = type_rules(prog, rep, ("pv_positive",), positive=True)
    rep.ob("positive-control", "state rules fire", sb >= 2 and tb >= 3, "statics flagged %d (want ≥2), types/impls flagged %d (want ≥3)" % (sb, tb))
    rep.assumptions += [
        "std, alloc and unicode-normalization functions outside the deny-list are pure functions of their arguments",
        "lazy_static's Once gives every caller the fully initialised value",
        "allocation failure is out of scope",
    ]
    rep.extra["exhaustive"] = True
    return rep
