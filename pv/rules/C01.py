"""C01 — every public operation returns; no input can make it panic; no mid-character slice.

Rule (panic-site discharge). (1) Inventory, by scanning the exported MIR of every library body reachable
from the public API: Assert terminators, calls of externals that can panic (rustdoc `# Panics` or the
hand table in pv/totality.py), unsafe, process::abort/exit, recursion (SCCs of the resolved call graph),
loops. (2) Discharge, by A4 (TotalWorld): every root is interpreted with unconstrained arguments;
private callees are inlined, roots and non-panicking externals answer with unconstrained values; loops
are widened. An overflow / bounds assert must be *proved* from the path's facts (interval facts from
dominating branches and from the Some-summaries of inlined helpers, `v < chars().count()` from a
successful nth/enumerate, `pos <= len` from find/char_indices, index = Ok payload of a binary search on
the same static); a str slice bound must have byte-offset provenance of the sliced string; an unwrap
must be unreachable on None. (3) Coverage: every inventoried site must have been visited by some run
(or be size-class); an unvisited site fails closed. (4) Termination: every loop is iterator-controlled,
or has a counter that steps by a constant with every decrement proved / the `< count` invariant held."""
from .. import interp as ip
from .. import totality as tt
from .. import types as ty_
from ..mir import Program, norm_file
from ..report import Report
from . import C16, common

LIB = ("precis_core", "precis_profiles")


def inventory(prog, keys):
    sites = {}
    for k in keys:
        b = prog.bodies[k]
        for i, bl in enumerate(b.blocks):
            if bl["cleanup"]:
                continue
            t = bl["term"]
            if t["k"] == "assert":
                sites[(k, i)] = ("assert", t["msg"], common.where(t))
            elif t["k"] == "call" and t["callee"] is not None:
                c = t["callee"]
                if c["name"] in ("index", "index_mut") and any("RangeFull" in str(a) for a in (c.get("orig_args") or []) + (c.get("args") or [])):
                    continue  # `x[..]`: the whole slice, no bound to violate
                for p in {c["path"], c["orig"]}:
                    if prog.is_ws(p):
                        continue
                    if tt.may_panic(prog, p):
                        kind = "size-class" if p in tt.SIZE_CLASS else "may-panic"
                        sites[(k, i)] = (kind, p, common.where(t))
            # indexing projections have their own Assert(BoundsCheck) in MIR: covered by "assert"
    return sites


def sccs(prog, keys):
    """Recursion: SCCs of size > 1 or self loops in the resolved call graph restricted to keys."""
    graph = {}
    for k in keys:
        outs = set()
        for kind, tgt, t, bb in prog.call_edges(prog.bodies[k]):
            if kind in ("call", "closure", "fnptr") and tgt in keys:
                outs.add(tgt)
        graph[k] = outs
    index, low, stack, on, out, counter = {}, {}, [], set(), [], [0]

    def strong(v):
        work = [(v, iter(graph[v]))]
        index[v] = low[v] = counter[0]
        counter[0] += 1
        stack.append(v)
        on.add(v)
        while work:
            node, it = work[-1]
            adv = False
            for w in it:
                if w not in index:
                    index[w] = low[w] = counter[0]
                    counter[0] += 1
                    stack.append(w)
                    on.add(w)
                    work.append((w, iter(graph[w])))
                    adv = True
                    break
                elif w in on:
                    low[node] = min(low[node], index[w])
            if adv:
                continue
            work.pop()
            if work:
                low[work[-1][0]] = min(low[work[-1][0]], low[node])
            if low[node] == index[node]:
                comp = []
                while True:
                    w = stack.pop()
                    on.discard(w)
                    comp.append(w)
                    if w == node:
                        break
                if len(comp) > 1 or node in graph[node]:
                    out.append(comp)

    for v in graph:
        if v not in index:
            strong(v)
    return out


def iterator_controlled(body, blocks):
    """A loop with an exit edge taken when an Iterator::next result is None."""
    from .. import prov
    from .C15 import exhaustion_exits

    return bool(exhaustion_exits(body, blocks))


def const_guarded(body, blocks, local_name):
    """`while counter < CONST { … }`: a block of the loop computes `Lt/Le(counter, constant)` from a plain copy of the
    counter and switches on it, the false edge leaving the loop. With the counter stepping up by a positive constant
    every round (observed separately) at most CONST rounds run."""
    def is_counter(op, blk):
        if op.get("k") not in ("copy", "move") or op["place"]["p"]:
            return False
        l = op["place"]["l"]
        if body.local_name(l) == local_name:
            return True
        # a temporary that is a plain copy of the counter, made in the same block
        for s_ in blk["stmts"]:
            if s_["k"] == "assign" and s_["place"] == {"l": l, "p": []} and s_["rv"]["k"] == "use":
                o = s_["rv"]["op"]
                if o.get("k") in ("copy", "move") and not o["place"]["p"] and body.local_name(o["place"]["l"]) == local_name:
                    return True
        return False

    for i in blocks:
        blk = body.blocks[i]
        t = blk["term"]
        if t["k"] != "switch" or t["discr"].get("k") not in ("copy", "move"):
            continue
        d = t["discr"]["place"]
        for s_ in blk["stmts"]:
            if s_["k"] != "assign" or s_["place"] != d or s_["rv"]["k"] != "binop" or s_["rv"]["op"] not in ("Lt", "Le"):
                continue
            if not (is_counter(s_["rv"]["a"], blk) and s_["rv"]["b"].get("k") == "int"):
                continue
            # false (0) leaves the loop, true stays
            exits = [tgt for val, tgt in t["targets"] if val == 0]
            if exits and all(e not in blocks for e in exits) and t["otherwise"] in blocks:
                return s_["rv"]["b"]["v"]
    return None


def analyse_roots(prog, rep, roots, reach, crate_filter=LIB):
    findings = []
    visited = set()
    size_sites = set()
    loop_ev = {}
    panics = []
    n_paths = 0
    n_roots = 0
    for r in sorted(roots):
        b = prog.bodies[r]
        f = prog.fns.get(r)
        if f is None:
            continue
        w = tt.TotalWorld(prog, roots, r)
        m = ip.Machine(prog, w)
        st0 = ip.State()
        args = ty_.fresh_args(prog, st0, f["inputs"])
        try:
            outs = m.run(m.start(r, args, st0))
        except ip.AnalysisError as e:
            rep.analysis_error("totality", r, e, b.where())
            continue
        n_roots += 1
        n_paths += len(outs)
        for o in outs:
            if o.kind == "panic":
                panics.append((r, o.info, [fr.body.id for fr in o.state.frames]))
            elif o.kind == "diverge":
                rep.ob("totality", r, False, "analysis did not finish: %s" % o.info, b.where(), key="analysis-error|totality|%s" % r)
        for info, stack in w.probe_panics:
            panics.append((r, info, stack))
        findings += [dict(x, root=r) for x in w.findings]
        visited |= w.visited_sites
        size_sites |= w.size_class_sites
        for k, v in w.loop_evidence.items():
            loop_ev.setdefault(k, []).extend(v)
    return findings, visited, size_sites, loop_ev, panics, n_paths, n_roots


def run(tier):
    rep = Report("C01", tier, __doc__)
    prog = Program()
    roots = C16.roots(prog)
    reach = prog.reachable(roots, crates=LIB)
    rep.fn(*reach.keys())
    rep.floor("public-API roots", len(roots), 60)
    rep.floor("reachable library bodies", len(reach), 150)
    sites = inventory(prog, reach.keys())
    kinds = {}
    for s in sites.values():
        kinds[s[0]] = kinds.get(s[0], 0) + 1
    rep.extra["site_inventory"] = kinds
    rep.floor("assert sites", kinds.get("assert", 0), 4)
    rep.floor("may-panic call sites", kinds.get("may-panic", 0), 6)
    # ---- structural: unsafe / abort / recursion
    for k in reach:
        b = prog.bodies[k]
        if b.d["unsafe"]:
            rep.ob("no-unsafe", k, False, "unsafe fn reachable from the public API", b.where())
    hits, _, _ = C16.body_rules(prog, rep, reach.keys())
    for k, what, where in hits:
        if what.startswith(("process control", "call of unsafe fn", "unsafe block", "unsafe fn", "transmute", "FFI")):
            rep.ob("no-abort-no-unsafe", "%s: %s" % (k, what), False, "", where, key="no-abort-no-unsafe|%s|%s" % (k, what))
    rec = sccs(prog, set(reach.keys()))
    rep.ob("no-recursion", "call graph of %d bodies" % len(reach), not rec, "recursive component(s): %s" % rec[:3])
    # ---- A4 totality of every root
    findings, visited, size_sites, loop_ev, panics, n_paths, n_roots = analyse_roots(prog, rep, roots, reach)
    rep.extra["paths_explored"] = n_paths
    rep.extra["roots_interpreted"] = n_roots
    rep.floor("roots interpreted", n_roots, 60)
    seen = set()
    for f in findings:
        key = "%s|%s|%s" % (f["kind"], f["fn"], f["detail"][:80])
        if key in seen:
            continue
        seen.add(key)
        via = " → ".join(f["via"][-4:])
        rep.ob(f["kind"], "%s (%s)" % (f["fn"], f["where"]), False, "%s; reached via %s from root %s" % (f["detail"], via, f["root"]), f["where"], key="%s|%s|%s" % (f["kind"], f["fn"], f["detail"][:60]))
    for r, info, stack in panics:
        key = "panic|%s|%s" % (stack[-1], str(info)[:60])
        if key in seen:
            continue
        seen.add(key)
        rep.ob("panic-path", "%s" % stack[-1], False, "a path reaches %s (root %s, via %s)" % (info, r, " → ".join(stack[-4:])), key=key)
    # ---- coverage of the inventory
    n_cov = 0
    for (k, bb), (kind, what, where) in sorted(sites.items()):
        if kind == "size-class":
            rep.ob("site", "%s bb%d %s" % (k, bb, what), True, "out of scope: %s" % tt.SIZE_CLASS[what], where)
            continue
        cov = (k, bb) in visited
        n_cov += 1 if cov else 0
        bad = [f for f in findings if f["fn"] == prog.bodies[k].id and f["bb"] == bb]
        # an undischarged site is already reported by its finding above; here only coverage can fail
        rep.ob("site", "%s bb%d %s" % (k, bb, what), cov, ("undischarged (see finding)" if bad else "discharged on every visiting path") if cov else "site never visited by the interpretation of any root (analysis-error: coverage)", where, key="analysis-error|coverage|%s|bb%d" % (k, bb), sample=(n_cov % 6 == 1))
    # ---- termination
    n_loops = 0
    for k in sorted(reach):
        b = prog.bodies[k]
        for head, blocks in sorted(b.loops().items()):
            n_loops += 1
            if iterator_controlled(b, blocks):
                rep.ob("termination", "%s loop@bb%d" % (k, head), True, "iterator-controlled (exit on next() = None)", b.where())
                continue
            ev = loop_ev.get((b.id, head), [])
            okk = False
            why = "no stepping counter observed"
            # per counter (a loop may step one variable down on some paths and up on others, e.g. a scan whose
            # direction is a parameter): every downward step must be proved not to wrap, every upward step needs
            # `counter < chars().count()` re-established each round
            no_wrap = not any(f["fn"] == b.id and f["kind"] == "unproved-assert" for f in findings)
            for loc in sorted({e["local"] for e in ev if e.get("step") not in (None, 0)}, key=str):
                steps = {e["step"] for e in ev if e.get("local") == loc and e.get("step") not in (None, 0)}
                inv = any("ltc" in (e.get("invariants_hold") or []) for e in ev if e.get("local") == loc)
                down, up = [s for s in steps if s < 0], [s for s in steps if s > 0]
                bound = const_guarded(b, blocks, loc) if (up and not down and not inv) else None
                if (not down or no_wrap) and (not up or inv or bound is not None):
                    okk = True
                    parts = []
                    if down:
                        parts.append("decreases by %s each round and every decrement is proved not to wrap: at most `initial value` rounds" % sorted(down))
                    if up and bound is not None and not inv:
                        parts.append("increases by %s each round and the loop is entered only while `counter < %d` (a constant): at most %d rounds" % (sorted(up), bound + 1, bound + 1))
                    elif up:
                        parts.append("increases by %s each round and `counter < chars().count()` is re-established every round" % sorted(up))
                    why = "counter `%s` %s" % (loc, "; on other paths it ".join(parts))
                    break
            rep.ob("termination", "%s loop@bb%d" % (k, head), okk, why, b.where(), key="termination|%s" % k, sample=True)
    rep.floor("loops examined", n_loops, 8)
    # ---- positive controls
    pos_keys = [b.key for b in prog.by_crate.get("pv_positive", []) if b.kind == "fn"]
    pos_roots = [k for k in pos_keys if prog.bodies[k].d["vis"] == "pub"]
    pf, pv_, ps, ple, pp, _, _ = analyse_roots(prog, Report("C01", tier, "positive"), pos_roots, None)
    kinds_fired = {f["kind"] for f in pf}
    rep.ob("positive-control", "unproved overflow fires", "unproved-assert" in kinds_fired, "fired: %s" % sorted(kinds_fired))
    rep.ob("positive-control", "slice-bound fires", "slice-bound" in kinds_fired, "fired: %s" % sorted(kinds_fired))
    rep.ob("positive-control", "unwrap-on-None path found", any("unwrap" in str(p[1]) for p in pp), "panic paths: %s" % [p[1] for p in pp][:4])
    prec = sccs(prog, set(pos_keys))
    rep.ob("positive-control", "recursion detected", bool(prec), "")
    rep.not_decided += ["panics inside std / unicode-normalization that their documentation does not declare", "stack exhaustion, allocation failure"]
    rep.assumptions += ["externals without a documented panic are total", "a str has at most isize::MAX bytes, hence fewer than usize::MAX chars"]
    return rep
