"""Shared machinery of C04-C08: extraction of the four profiles' pipelines and their comparison with
the RFC pipelines (spec/profiles_spec.py)."""
from spec import profiles_spec as sp

from .. import interp as ip
from .. import pipeline as pl
from ..interp import Ref, Str
from ..worlds import OracleWorld

PROFILE_TRAIT = "precis_core::profile::Profile"
FAST_TRAIT = "precis_core::profile::PrecisFastInvocation"


def method_key(profile, trait, name):
    return "<%s as %s>::%s" % (pl.PROFILES[profile][0], trait, name)


def self_ref(profile):
    return Ref(("val", pl.profile_value(profile)))


def check_single(prog, rep, profile, op, rule="pipeline"):
    """prepare / enforce of one profile against its specification."""
    key = method_key(profile, PROFILE_TRAIT, op)
    b = prog.body(key)
    inst = "%s::%s" % (profile, op)
    if b is None:
        rep.ob(rule, inst, False, "method %s not found" % key)
        return None
    rep.fn(key)
    try:
        paths = pl.extract(prog, key, [self_ref(profile), Str(("input",))])
    except pl.UnexpectedCall as e:
        rep.ob(rule, inst, False, str(e), b.where(), key="%s|%s|unexpected-call" % (rule, inst))
        return []
    except ip.AnalysisError as e:
        rep.analysis_error(rule, inst, e, b.where())
        return []
    want = [(ev, r) for ev, r, n in pl.spec_paths(sp.SPECS[(profile, op)], ("input",))]
    d = pl.diff_paths(pl.commute_empty(paths), want)
    rep.ob(rule, inst, not d, "; ".join(d), b.where(), key="%s|%s" % (rule, inst), sample=True)
    rep.sample({"pipeline": inst, "extracted": pl.steps_of(paths), "paths": len(paths)})
    return paths


def check_compare(prog, rep, profile, rule="compare"):
    key = method_key(profile, PROFILE_TRAIT, "compare")
    b = prog.body(key)
    inst = "%s::compare" % profile
    if b is None:
        rep.ob(rule, inst, False, "method %s not found" % key)
        return None
    rep.fn(key)
    try:
        paths = pl.extract(prog, key, [self_ref(profile), Str(("input", 1)), Str(("input", 2))])
    except pl.UnexpectedCall as e:
        rep.ob(rule, inst, False, str(e), b.where(), key="%s|%s|unexpected-call" % (rule, inst))
        return []
    except ip.AnalysisError as e:
        rep.analysis_error(rule, inst, e, b.where())
        return []
    want = pl.spec_compare_paths(sp.SPECS[(profile, "enforce")])
    d = pl.diff_paths(pl.commute_empty(paths), want)
    rep.ob(rule, inst, not d, "; ".join(d), b.where(), key="%s|%s" % (rule, inst), sample=True)
    rep.sample({"pipeline": inst, "paths": len(paths)})
    return paths


def closure_pipeline(prog, rep, closure_def, profile, rule, inst, caps=None):
    """The body of a closure handed to stabilize, as a pipeline over its argument."""
    b = prog.body(closure_def)
    if b is None:
        rep.ob(rule, inst, False, "closure body %s not exported" % closure_def)
        return None
    rep.fn(closure_def)
    # closure env: what the call site captured (by default (&self,) — the closure borrows the profile)
    captured = []
    ups = b.d.get("upvars") or []
    for i, c in enumerate(caps or ()):
        if isinstance(c, (ip.Adt, ip.I)) and i < len(ups):
            # the captured place's type says how many references sit between the closure field and the value
            fty = next((pj.get("ty", "") for pj in ups[i]["place"]["p"] if pj.get("k") == "field"), "")
            v = c
            for _ in range(len(fty) - len(fty.lstrip("&"))):
                v = Ref(("val", v))
            captured.append(v)
        else:
            captured = None
            break
    if not captured:
        captured = [self_ref(profile)]
    env = Ref(("val", ip.Clo(closure_def, tuple(captured))))
    try:
        return pl.extract(prog, closure_def, [env, Str(("input",))])
    except ip.AnalysisError as e:
        rep.analysis_error(rule, inst, e, b.where())
        return None


def nickname_enforce(prog, rep, rule="pipeline"):
    """Nickname::enforce = stabilize(input, |s| apply_enforce_rules(s)), result returned unchanged."""
    key = method_key("Nickname", PROFILE_TRAIT, "enforce")
    b = prog.body(key)
    if b is None:
        rep.ob(rule, "Nickname::enforce", False, "method not found")
        return
    rep.fn(key)
    try:
        paths = pl.extract(prog, key, [self_ref("Nickname"), Str(("input",))])
    except ip.AnalysisError as e:
        rep.analysis_error(rule, "Nickname::enforce", e, b.where())
        return
    clos = {(e[3], e[4] if len(e) > 4 else None) for p in paths if isinstance(p[0], tuple) for e in p[0] if e[0] == "stabilize"}
    shape = sorted((tuple((e[0], e[1], e[2]) for e in p[0]), p[1]) for p in paths if isinstance(p[0], tuple))
    want = sorted([((("stabilize", ("input",), "Err"),), ("Err", ("leaf", 1))), ((("stabilize", ("input",), "Ok"),), ("Ok", ("out", 1)))])
    rep.ob(rule, "Nickname::enforce = stabilize(input, rules)", shape == want and len(clos) == 1, "extracted %s" % (shape,), b.where(), key="%s|Nickname::enforce|stabilize" % rule, sample=True)
    for c, caps in sorted(clos, key=repr):
        cp = closure_pipeline(prog, rep, c, "Nickname", rule, "Nickname::enforce closure", caps)
        if cp is None:
            continue
        want = [(ev, r) for ev, r, n in pl.spec_paths(sp.NICK_ENFORCE_RULES, ("input",))]
        d = pl.diff_paths(cp, want)
        rep.ob(rule, "Nickname enforcement rules (closure passed to stabilize)", not d, "; ".join(d), prog.body(c).where(), key="%s|Nickname::enforce|rules" % rule, sample=True)
        rep.sample({"pipeline": "Nickname enforce rules", "extracted": pl.steps_of(cp)})


def nickname_compare(prog, rep, rule="compare"):
    key = method_key("Nickname", PROFILE_TRAIT, "compare")
    b = prog.body(key)
    if b is None:
        rep.ob(rule, "Nickname::compare", False, "method not found")
        return
    rep.fn(key)
    try:
        paths = pl.extract(prog, key, [self_ref("Nickname"), Str(("input", 1)), Str(("input", 2))])
    except ip.AnalysisError as e:
        rep.analysis_error(rule, "Nickname::compare", e, b.where())
        return
    # outer shape: stabilize(in1) ; stabilize(in2) ; eq
    stripped = [(tuple(e[:3] if e[0] == "stabilize" else e for e in p[0]), p[1]) if isinstance(p[0], tuple) else p for p in paths]
    want = pl.spec_compare_paths([("leaf", "stabilize")])
    d = pl.diff_paths(stripped, want)
    rep.ob(rule, "Nickname::compare = stabilize(a)? == stabilize(b)?", not d, "; ".join(d), b.where(), key="%s|Nickname::compare|outer" % rule, sample=True)
    clos = []
    for p in paths:
        if isinstance(p[0], tuple):
            for e in p[0]:
                if e[0] == "stabilize" and (e[1], e[3], e[4] if len(e) > 4 else None) not in clos:
                    clos.append((e[1], e[3], e[4] if len(e) > 4 else None))
    rep.ob(rule, "Nickname::compare closures", len(clos) == 2, "expected one closure per operand, found %s" % (clos,), b.where())
    for intag, c, caps in clos:
        cp = closure_pipeline(prog, rep, c, "Nickname", rule, "Nickname::compare closure for %s" % pl.fmt_tag(intag), caps)
        if cp is None:
            continue
        w1 = [(ev, r) for ev, r, n in pl.spec_paths(sp.NICK_COMPARE_RULES, ("input",))]
        w2 = [(ev, r) for ev, r, n in pl.spec_paths(sp.NICK_COMPARE_RULES_ALT, ("input",))]
        d1 = pl.diff_paths(cp, w1)
        d2 = pl.diff_paths(cp, w2)
        rep.ob(rule, "Nickname comparison rules (closure for %s)" % pl.fmt_tag(intag), (not d1) or (not d2), "; ".join(d1), prog.body(c).where(), key="%s|Nickname::compare|rules|%s" % (rule, pl.fmt_tag(intag)), sample=True)
        rep.sample({"pipeline": "Nickname compare rules", "extracted": pl.steps_of(cp)})


def fast_invocation(prog, rep, profile, rule="fast-invocation"):
    """Each PrecisFastInvocation method is get_X_profile().same_method(args in order)."""
    n = 0
    for op, nargs in (("prepare", 1), ("enforce", 1), ("compare", 2)):
        key = method_key(profile, FAST_TRAIT, op)
        b = prog.body(key)
        inst = "%s::%s (static form)" % (profile, op)
        if b is None:
            rep.ob(rule, inst, False, "method not found")
            continue
        rep.fn(key)
        seen = []

        def make(opname):
            def h(world, m, st, callee, args, term):
                recv = args[0]
                while isinstance(recv, Ref):
                    recv = m.load(st, recv.loc)
                seen.append((opname, recv.ty if isinstance(recv, ip.Adt) else repr(recv), tuple(a.tag if isinstance(a, Str) else repr(a) for a in args[1:])))
                return ip.Sym(("forwarded", opname), "result!opaque")

            return h

        intercept = {method_key(profile, PROFILE_TRAIT, o): make(o) for o in ("prepare", "enforce", "compare")}
        ins = [Str(("input", i + 1)) for i in range(nargs)]
        try:
            m = ip.Machine(prog, pl.PipeWorld(prog, intercept=intercept))
            outs = m.run(m.start(key, ins))
        except ip.AnalysisError as e:
            rep.analysis_error(rule, inst, e, b.where())
            continue
        n += 1
        want = [(op, pl.PROFILES[profile][0], tuple(("input", i + 1) for i in range(nargs)))]
        okk = seen == want and len(outs) == 1 and isinstance(outs[0].value, ip.Sym) and outs[0].value.name == ("forwarded", op)
        if not okk and (profile, op) in sp.SPECS and nargs == 1:
            # not a forwarder: the static form is then judged like the method itself — its own pipeline must be
            # the operation's specified pipeline (e.g. it calls the helper the method is built from)
            try:
                paths = pl.extract(prog, key, [Str(("input",))])
                want_p = [(ev, r) for ev, r, n_ in pl.spec_paths(sp.SPECS[(profile, op)], ("input",))]
                d = pl.diff_paths(pl.commute_empty(paths), want_p)
                rep.ob(rule, inst + " = the operation's pipeline", not d, "; ".join(d), b.where(), key="%s|%s" % (rule, inst))
                continue
            except ip.AnalysisError:
                pass
        rep.ob(rule, inst, okk, "forwards %s; must forward %s and return that result unchanged" % (seen, want), b.where(), key="%s|%s" % (rule, inst))
    return n


def normalizer_shape(prog, rep, fn, form, rule="normalizer"):
    """normalization_form_X: `if is_X(&s) { Ok(s) } else { Ok(s.X().collect()) }` with sibling callees."""
    key = "precis_profiles::common::" + fn
    b = prog.body(key)
    if b is None:
        rep.ob(rule, fn, False, "not found")
        return
    rep.fn(key)
    U = "<&'a str as unicode_normalization::UnicodeNormalization<core::str::iter::Chars<'a>>>::"
    uf = {U + f: f for f in ("nfc", "nfkc", "nfd", "nfkd")}
    uf.update({"unicode_normalization::quick_check::is_" + f: "is_" + f for f in ("nfc", "nfkc", "nfd", "nfkd")})
    uf.update({"unicode_normalization::quick_check::is_%s_quick" % f: "is_%s_quick" % f for f in ("nfc", "nfkc", "nfd", "nfkd")})
    uf["core::iter::traits::iterator::Iterator::collect"] = "collect"
    m = ip.Machine(prog, OracleWorld(prog, uf=uf))
    try:
        outs = m.run(m.start(key, [Str(("input",))]))
    except ip.AnalysisError as e:
        msg = str(e)
        if "unicode_normalization::" in msg and "unmodelled call" in msg:
            what = msg.split("unmodelled call to ", 1)[1].split(" ", 1)[0]
            rep.ob(rule, "%s uses only is_%s / %s of unicode-normalization" % (fn, form, form), False, "calls %s: another normalisation process than %s (its result differs from %s for some strings)" % (what, form.upper(), form.upper()), b.where(), key="%s|%s|other-process" % (rule, fn))
            return
        if "next" in msg or "iteration" in msg:
            rep.ob(rule, "%s decides from is_%s(s) / the quick check alone whether s is returned unchanged" % (fn, form), False, "the function examines the string's characters itself (%s): a hand-written shortcut or scan is a second definition of 'already in %s', which this analysis cannot confirm" % (msg[:100], form.upper()), b.where(), key="%s|%s|own-scan" % (rule, fn))
            return
        rep.analysis_error(rule, fn, e, b.where())
        return
    # Semantics, not shape: returning `s.X().collect()` is always right; returning the argument itself is right
    # exactly on paths where the code has established that it is normalized — is_X(s) answered true, or the
    # quick check answered Yes. Every other result (another form, a part of the string, ...) is wrong.
    s_in = ("str", ("input",))
    full = ("Ok", ("uf", "collect", ("opq", "uf", (form, s_in))))
    bad = []
    n_id = n_full = 0
    for o in outs:
        r = pl.describe_result(prog, o.value)
        dec = {k[1]: v for k, v in o.state.log if isinstance(k, tuple) and k[0] in ("bool", "uf-variant")}
        if r == full:
            n_full += 1
            continue
        if r == ("Ok", ("input",)):
            n_id += 1
            known = dec.get(("uf", "is_" + form, s_in)) is True or any(isinstance(k, tuple) and len(k) == 2 and k[0] == "is_%s_quick" % form and "('input',)" in repr(k[1]) and v == "Yes" for k, v in dec.items())
            if not known:
                bad.append("returns its argument unchanged on a path that has not established that it is in %s (decisions: %s)" % (form.upper(), sorted(map(repr, dec.items()))[:3]))
            continue
        bad.append("returns %r: neither the argument nor %s of the whole argument" % (r, form.upper()))
    if not bad and not n_full:
        bad.append("no path returns the normalized copy s.%s().collect()" % form)
    rep.ob(rule, "%s: returns s when known to be in %s, else s.%s().collect()" % (fn, form.upper(), form), not bad, "; ".join(sorted(set(bad))[:2]), b.where(), key="%s|%s" % (rule, fn), sample=True)


_LEAF_CACHE = {}


def include_leaves(rep, leaves):
    """The profile properties are stated over the behaviour of whole operations: the pipeline shape decided
    here and the semantics of every leaf rule on it. The leaves have their own properties; their (quick)
    obligations are adopted here, so a defect in a leaf is a violation of each profile property built on it
    (keys `dep|<leaf>|…`)."""
    import importlib

    for pid, why in leaves:
        sub = _LEAF_CACHE.get(pid)
        if sub is None:
            mod = importlib.import_module("pv.rules." + pid)
            sub = mod.run("quick")
            _LEAF_CACHE[pid] = sub
        rep.include(sub, pid)
        rep.extra.setdefault("leaf_dependencies", []).append({"property": pid, "role": why, "obligations": len(sub.obligations), "violations": len(sub.violations)})
