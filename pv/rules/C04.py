"""C04 — username profiles apply the RFC 8265 rules, all of them, in the specified order.

Rule: pipeline extraction (A4 with the rule implementations as Ok/Err oracles, content tags for
strings) of prepare and enforce of UsernameCaseMapped and UsernameCasePreserved. The extracted set of
paths (which leaf ran on which string, every failure exit with the error it returns, the string
returned on success) must equal the path set of the RFC pipeline: width → non-empty → IdentifierClass
for prepare; prepare → (case) → NFC → non-empty → directionality for enforce. Every trait method is
inlined through its resolved impl, so a profile that does not define a rule reaches the trait's
default (an error) and differs. The NFC leaf must pair is_nfc with nfc."""
from ..mir import Program
from ..report import Report
from . import profiles


def run(tier):
    rep = Report("C04", tier, __doc__)
    prog = Program()
    n = 0
    for prof in ("UsernameCaseMapped", "UsernameCasePreserved"):
        for op in ("prepare", "enforce"):
            if profiles.check_single(prog, rep, prof, op) is not None:
                n += 1
    rep.floor("username pipelines extracted", n, 4)
    # the static forms (PrecisFastInvocation) are part of the public operations: they must forward to these
    k = sum(profiles.fast_invocation(prog, rep, prof) for prof in ("UsernameCaseMapped", "UsernameCasePreserved"))
    rep.floor("static-form methods checked", k, 6)
    profiles.normalizer_shape(prog, rep, "normalization_form_nfc", "nfc")
    # the directionality step is `has_rtl(s) ? Bidi rule : ok`; when it applies is part of "all rules, in order"
    # (the Bidi rule's own language is C09)
    profiles.include_leaves(rep, [("C11", "width mapping rule"), ("C10", "case mapping rule"), ("C09", "directionality rule: has_rtl gate and the Bidi rule"), ("C14", "derived property behind IdentifierClass"), ("C02", "IdentifierClass::allows")])
    rep.extra["exhaustive"] = True
    rep.assumptions += ["the leaf rules' own semantics are the obligations of C09 (directionality), C10 (case), C11 (width), C02/C14 (IdentifierClass), adopted here as dependencies"]
    return rep
