"""L4 — predicate ↔ table binding: each common::is_* predicate is exactly the spec's formula over
`is_in_table(cp, &T)`, extracted as a truth table with one oracle per table static."""
import itertools

from spec import precis_spec as ps

from .. import interp as ip
from ..worlds import OracleWorld

COMMON = "precis_core::common::"
IN_TABLE = COMMON + "is_in_table"


def _in_table(m, st, callee, args, term):
    cp, tab = args
    if not (isinstance(cp, ip.Sym) and cp.name == "cp"):
        raise ip.AnalysisError("is_in_table is not asked about the predicate's own argument: %r" % (cp,))
    if not (isinstance(tab, ip.Ref) and tab.loc[0] == "static" and not tab.loc[2]):
        raise ip.AnalysisError("is_in_table on something that is not a table static: %r" % (tab,))
    name = tab.loc[1]
    return ip.boolean(st.choose(("in", name), [True, False]))


def formula_value(f, member):
    if f[0] == "or":
        return any(member[t] for t in f[1])
    if f[0] == "andnot":
        return member[f[1]] and not member[f[2]]
    raise KeyError(f)


def formula_tables(f):
    return list(f[1]) if f[0] == "or" else [f[1], f[2]]


def check_predicates(prog, rep, names):
    world = OracleWorld(prog, {IN_TABLE: _in_table})
    m = ip.Machine(prog, world)
    n = 0
    for name in names:
        f = ps.PREDICATES[name]
        key = COMMON + name
        b = prog.body(key)
        if b is None:
            rep.ob("L4", name, False, "predicate %s not found" % key)
            continue
        rep.fn(key)
        try:
            outs = m.run(m.start(key, [ip.Sym("cp", "u32")]))
        except ip.AnalysisError as e:
            rep.analysis_error("L4", name, e, b.where())
            continue
        tabs = formula_tables(f)
        used = set()
        okk = True
        detail = ""
        rows = []
        for o in outs:
            if o.kind != "return" or not isinstance(o.value, ip.I):
                okk, detail = False, "path ends with %s %r" % (o.kind, o.value)
                break
            asg = {k[1].split("::")[-1]: v for k, v in o.state.log if k[0] == "in"}
            used |= set(asg)
            rows.append((asg, bool(o.value.v)))
        if okk:
            extra = used - set(tabs)
            missing = set(tabs) - used
            if extra or missing:
                okk, detail = False, "tables consulted %s; specification %s" % (sorted(used), sorted(tabs))
        if okk:
            # every total assignment must agree with the (unique) partial path it extends
            for bits in itertools.product([False, True], repeat=len(tabs)):
                member = dict(zip(tabs, bits))
                got = [res for asg, res in rows if all(member[t] == v for t, v in asg.items())]
                if len(got) != 1 or got[0] != formula_value(f, member):
                    okk, detail = False, "for membership %s the predicate yields %s, the RFC category %s" % ({t: v for t, v in member.items() if v}, got, formula_value(f, member))
                    break
        n += 1
        rep.ob("L4", "%s = %s" % (name, _fmt(f)), okk, detail, b.where(), key="L4|%s" % name, sample=(n % 7 == 1))
    return n


def _fmt(f):
    if f[0] == "or":
        return " | ".join(f[1])
    return "%s & !%s" % (f[1], f[2])
