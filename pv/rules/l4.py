"""L4 — predicate ↔ table binding: each common::is_* predicate is exactly the spec's formula over
`is_in_table(cp, &T)`, extracted as a truth table with one oracle per table static."""
import itertools

from spec import precis_spec as ps

from .. import interp as ip
from ..worlds import OracleWorld

COMMON = "precis_core::common::"
IN_TABLE = COMMON + "is_in_table"


def _in_table(m, st, callee, args, term):
    cp, tab = args
    if not (isinstance(cp, ip.Sym) and cp.name == "cp"):
        raise ip.AnalysisError("is_in_table is not asked about the predicate's own argument: %r" % (cp,))
    if not (isinstance(tab, ip.Ref) and tab.loc[0] == "static" and not tab.loc[2]):
        raise ip.AnalysisError("is_in_table on something that is not a table static: %r" % (tab,))
    name = tab.loc[1]
    return ip.boolean(st.choose(("in", name), [True, False]))


def formula_value(f, member):
    if f[0] == "or":
        return any(member[t] for t in f[1])
    if f[0] == "andnot":
        return member[f[1]] and not member[f[2]]
    raise KeyError(f)


def formula_tables(f):
    return list(f[1]) if f[0] == "or" else [f[1], f[2]]


def _bitmask(rows):
    m = 0
    for r in rows:
        lo, hi = r[0], min(r[1], 0x10FFFF)
        if lo <= hi:
            m |= (1 << (hi + 1)) - (1 << lo)
    return m


def check_predicates(prog, rep, names):
    """Exact, per code point: every path of the predicate fixes an interval set for cp (its own comparisons with
    constants) and an answer for each table it searched; for all code points of the path whose real
    memberships (folded tables) agree with those answers, the returned boolean must be the specification's
    formula over the real memberships. Range shortcuts that agree with the tables are fine; the paths must
    cover every code point."""
    from .. import tables
    from spec import tables_spec as ts

    world = OracleWorld(prog, {IN_TABLE: _in_table})
    m = ip.Machine(prog, world)
    tabs, _errs = tables.all_tables(prog)
    FULL = (1 << 0x110000) - 1
    masks = {}

    def mask(tname):
        if tname not in masks:
            rows = tabs.get(ts.C + tname)
            masks[tname] = None if rows is None else _bitmask(rows)
        return masks[tname]

    n = 0
    for name in names:
        f = ps.PREDICATES[name]
        key = COMMON + name
        b = prog.body(key)
        if b is None:
            rep.ob("L4", name, False, "predicate %s not found" % key)
            continue
        rep.fn(key)
        try:
            outs = m.run(m.start(key, [ip.Sym("cp", "u32")]))
        except ip.AnalysisError as e:
            rep.analysis_error("L4", name, e, b.where())
            continue
        ftabs = formula_tables(f)
        if any(mask(t) is None for t in ftabs):
            rep.ob("L4", "%s = %s" % (name, _fmt(f)), False, "table(s) of the specification not folded: %s" % [t for t in ftabs if mask(t) is None], b.where(), key="L4|%s" % name)
            continue
        if f[0] == "or":
            expect = 0
            for t in f[1]:
                expect |= mask(t)
        else:
            expect = mask(f[1]) & ~mask(f[2]) & FULL
        detail = ""
        covered = 0
        for o in outs:
            if o.kind != "return" or not isinstance(o.value, ip.I):
                detail = "path ends with %s %r" % (o.kind, o.value)
                break
            other = [k for k, v in o.state.log if isinstance(k, tuple) and k[0] in ("ord", "bool")]
            if other:
                detail = "the result depends on %r, not only on cp and the tables" % (other[0],)
                break
            s_mask = 0
            for lo, hi in ip.rng_get(o.state, ip.Sym("cp", "u32")):
                lo, hi = max(lo, 0), min(hi, 0x10FFFF)
                if lo <= hi:
                    s_mask |= (1 << (hi + 1)) - (1 << lo)
            bad_tab = None
            for k, v in o.state.log:
                if isinstance(k, tuple) and k[0] == "in":
                    tname = k[1].split("::")[-1]
                    tm = mask(tname)
                    if tm is None:
                        bad_tab = tname
                        break
                    s_mask &= tm if v else (~tm & FULL)
            if bad_tab:
                detail = "searches %s, which is not a folded table" % bad_tab
                break
            covered |= s_mask
            res = bool(o.value.v)
            # values that are no code points (above U+10FFFF): no table holds them, so a path on which no search
            # succeeded and whose key may be such a value must answer false
            above = [(lo, hi) for lo, hi in ip.rng_get(o.state, ip.Sym("cp", "u32")) if hi > 0x10FFFF]
            if above and res and not any(v for k, v in o.state.log if isinstance(k, tuple) and k[0] == "in"):
                detail = "value 0x%X (not a code point): the predicate answers True, the specification (%s over the folded tables) says False for every value above U+10FFFF" % (max(above[0][0], 0x110000), _fmt(f))
                break
            wrong = s_mask & (~expect & FULL) if res else s_mask & expect
            if wrong:
                cp = (wrong & -wrong).bit_length() - 1
                detail = "U+%04X: the predicate answers %s, the specification (%s over the folded tables) says %s" % (cp, res, _fmt(f), not res)
                break
        if not detail and covered != FULL:
            missing = FULL & ~covered
            detail = "no path covers U+%04X" % ((missing & -missing).bit_length() - 1)
        n += 1
        rep.ob("L4", "%s = %s" % (name, _fmt(f)), not detail, detail, b.where(), key="L4|%s" % name, sample=(n % 7 == 1))
    return n


def _fmt(f):
    if f[0] == "or":
        return " | ".join(f[1])
    return "%s & !%s" % (f[1], f[2])


BSEARCH = "core::slice::<impl [T]>::binary_search_by"
MAXCP = 0x10FFFF


def check_lookup_predicate(prog, rep, key, table, arg_ty="char", rule="L4"):
    """A predicate written as an inline table search — `T.binary_search_by(cmp).is_ok()`, possibly behind range
    shortcuts — must be *exactly* membership of its own argument in T. Every path of the predicate is
    described by an interval set R of its argument (from its comparisons with constants; `x >> k` is
    translated back to x) and by the answer of the search (found / missed / not asked). With the table
    folded from its initialiser, the path's code points are S = R ∩ (T | ¬T | everything) and the returned
    boolean must equal membership for *all* of S: true ⇒ S ⊆ T, false ⇒ S ∩ T = ∅."""
    from .. import tables, ucd

    b = prog.body(key)
    name = key.rsplit("::", 1)[1]
    inst = "%s = membership in %s" % (name, table.rsplit("::", 1)[1])
    if b is None:
        rep.ob(rule, name, False, "predicate %s not found" % key)
        return False
    rep.fn(key)
    tabs, errs = tables.all_tables(prog)
    if table not in tabs:
        rep.ob(rule, inst, False, "table %s not folded: %s" % (table, errs.get(table, "no such static")), b.where(), key="%s|%s" % (rule, name))
        return False
    tmask = ucd.mask_from_rows(tabs[table])

    def bsearch(m, st, callee, args, term):
        from ..models import deref_all

        sl, clo = args
        if not (isinstance(sl, ip.Ref) and sl.loc[0] == "static" and not sl.loc[2]):
            raise ip.AnalysisError("binary search on something that is not a table static: %r" % (sl,))
        c = clo
        if isinstance(c, ip.Ref):
            c = m.load(st, c.loc)
        caps = [deref_all(m, st, x) for x in c.captures] if isinstance(c, ip.Clo) else []
        if not any(isinstance(x, ip.Sym) and x.name == "arg" for x in caps):
            raise ip.AnalysisError("the search key is not the predicate's own argument: captures %r" % (caps,))
        if st.choose(("in", sl.loc[1]), [True, False]):
            return ip.ok(ip.Sym(("idx", sl.loc[1]), "usize"))
        return ip.err(ip.Sym(("ins", sl.loc[1]), "usize"))

    def split(st, lo, hi):
        """Decide lo <= arg <= hi on the argument's interval set."""
        x = ip.Sym("arg", "u32")
        return ip.decide_cmp_const(st, "Ge", x, lo) and ip.decide_cmp_const(st, "Le", x, hi)

    class W(OracleWorld):
        def cast_hook(self, st, v, from_ty, to_ty):
            if isinstance(v, ip.Sym) and v.name == "arg":
                return ip.Sym("arg", to_ty)  # `c as u32`: the same code point
            return None

        def binop_hook(self, st, op, a, b):
            if op in ("Shr", "ShrUnchecked") and isinstance(a, ip.Sym) and a.name == "arg" and isinstance(b, ip.I) and 0 <= b.v < 32:
                return ip.Sym(("arg>>", b.v), a.ty)
            if op in ("Lt", "Le", "Gt", "Ge") and (isinstance(a, ip.Top) or isinstance(b, ip.Top)):
                # a bounds check on the found index (C01 decides those): it passes
                return ip.boolean(op in ("Lt", "Le")) if isinstance(b, ip.Top) else ip.boolean(op in ("Gt", "Ge"))
            return None

        def len_hook(self, st, a):
            return ip.Top("usize")

        def static_value(self, st, path):
            return ip.Opq("static", (path,))

        def index_hook(self, st, base, idx):
            from .. import types as ty_
            import re as _re

            ety = "?"
            if isinstance(base, ip.Opq) and base.kind == "static":
                mm = _re.match(r"^\[(.*);\s*\d+\]$", prog.statics.get(base.data[0], {}).get("ty", ""))
                ety = mm.group(1) if mm else "?"
            return ty_.fresh(prog, ety, ("row", st.fresh()))

        def compare_hook(self, st, op, a, b):
            if isinstance(a, ip.Sym) and isinstance(a.name, tuple) and a.name[0] == "arg>>" and isinstance(b, ip.I):
                k, c = a.name[1], b.v
                lo, hi = c << k, ((c + 1) << k) - 1
                x = ip.Sym("arg", "u32")
                if op in ("Eq", "Ne"):
                    r = split(st, lo, hi)
                    return r if op == "Eq" else not r
                if op == "Lt":
                    return ip.decide_cmp_const(st, "Lt", x, lo)
                if op == "Le":
                    return ip.decide_cmp_const(st, "Le", x, hi)
                if op == "Gt":
                    return ip.decide_cmp_const(st, "Gt", x, hi)
                if op == "Ge":
                    return ip.decide_cmp_const(st, "Ge", x, lo)
            return None

    from . import common as _common

    def edge(m, st, callee, args, term):
        return _common.slice_edge(prog, m, st, callee, args)

    world = W(prog, {BSEARCH: bsearch, _common.SLICE_EDGE[0]: edge, _common.SLICE_EDGE[1]: edge})
    m = ip.Machine(prog, world)
    try:
        outs = m.run(m.start(key, [ip.Sym("arg", arg_ty)]), max_paths=2000)
    except ip.AnalysisError as e:
        rep.analysis_error(rule, name, e, b.where())
        return False
    bad = None
    covered = bytearray(MAXCP + 1)
    for o in outs:
        if o.kind != "return" or not isinstance(o.value, ip.I):
            bad = "path ends with %s %r" % (o.kind, o.value)
            break
        undecided = [k for k, v in o.state.log if isinstance(k, tuple) and k[0] in ("ord", "bool")]
        if undecided:
            bad = "the result depends on something other than the argument's value and the table (%r)" % (undecided[0],)
            break
        ins = [v for k, v in o.state.log if isinstance(k, tuple) and k[0] == "in"]
        searched = {k[1] for k, v in o.state.log if isinstance(k, tuple) and k[0] == "in"}
        if searched - {table}:
            bad = "searches %s, not %s" % (sorted(searched), table)
            break
        r = ip.rng_get(o.state, ip.Sym("arg", "u32"))
        res = bool(o.value.v)
        for lo, hi in r:
            lo, hi = max(lo, 0), min(hi, MAXCP)
            for cp in range(lo, hi + 1):
                if ins and bool(tmask[cp]) != ins[0]:
                    continue  # not a code point of this path
                covered[cp] = 1
                if res != bool(tmask[cp]):
                    bad = "U+%04X: the predicate answers %s, the table says %s (path: argument in %04X..%04X, search %s)" % (cp, res, bool(tmask[cp]), lo, hi, "not made" if not ins else "found" if ins[0] else "missed")
                    break
            if bad:
                break
        if bad:
            break
    if bad is None:
        miss = covered.find(0)
        if miss != -1 and not (0xD800 <= miss <= 0xDFFF and arg_ty == "char"):
            bad = "no path covers U+%04X" % miss
    rep.ob(rule, inst, bad is None, bad or "", b.where(), key="%s|%s" % (rule, name), sample=True)
    rep.extra.setdefault("lookup_predicates", {})[name] = {"paths": len(outs), "table_rows": len(tabs[table])}
    return bad is None
