"""C17 — the PRECIS registry CSV parser reads back exactly what a row says (partly claimed).

Decided (structural): (i) field wiring of parse_precis_table_line / PrecisDerivedProperty::from_str
(A4 with the field parsers as oracles): splitn(3, ',') with those constants, fewer than three fields ⇒
error, code points ← parser of field 0, properties ← parser of field 1, description ← field 2 verbatim
(to_string, no trim; a comma inside the description stays in it); (ii) name table of
DerivedProperty::from_str (A4 over the string-literal comparisons): exactly the seven registry names
map to the seven variants, anything else is an error; " or " selects the pair form and the pair is
(p1, p2) in textual order; the range form is selected by '-' and is (start, end) in textual order;
(iii) every caps["name"] index names a group of the regex literal of the same function; the line
parser numbers physical lines from 1, skips exactly the first, and stamps every row error with
Some(its line number); (iv) panic-freedom of the parse paths (TotalWorld): v[0..=2] behind the length
test, regex group indexing discharged by (iii), constant-pattern Regex::new().unwrap() accepted with a
stated reason.
NOT decided: that the two regular expressions and ucd_parse::Codepoint::from_str accept exactly the
hexadecimal forms of the registry and reject every corrupted one (the language of a regex literal and
an external parser's behaviour on all strings are not facts about this code's shape)."""
import re

from .. import interp as ip
from .. import prov
from .. import totality as tt
from .. import types as ty_
from ..interp import AnalysisError, Adt, I, Opq, Ref, Str, Sym, Tup
from ..mir import Program
from ..models import deref_all
from ..report import Report
from ..worlds import OracleWorld
from . import common

CSV = "precis_tools::csv_parser::"
ERR = "precis_tools::error::Error"
NAMES = {"PVALID": "PValid", "FREE_PVAL": "FreePVal", "CONTEXTJ": "ContextJ", "CONTEXTO": "ContextO", "DISALLOWED": "Disallowed", "ID_DIS": "IdDis", "UNASSIGNED": "Unassigned"}
STR_EQ = "core::str::traits::<impl core::cmp::PartialEq for str>::eq"


def name_table(prog, rep):
    key = "<%sDerivedProperty as core::str::traits::FromStr>::from_str" % CSV
    b = prog.body(key)
    if b is None:
        rep.ob("name-table", key, False, "not found")
        return
    rep.fn(key)
    variants = [v["name"] for v in prog.adts[CSV + "DerivedProperty"]["variants"]]
    lits = set()

    class W(OracleWorld):
        def str_eq(self, st, a, b_):
            if isinstance(a, Str) and isinstance(b_, Str):
                lit = b_ if b_.tag[0] == "lit" else a
                other = a if lit is b_ else b_
                if lit.tag[0] != "lit" or other.tag != ("word",):
                    raise AnalysisError("comparison of %r with %r" % (a.tag, b_.tag))
                lits.add(lit.tag[1])
                return st.ext["word"] == lit.tag[1]
            raise AnalysisError("str eq of %r %r" % (a, b_))

        def call(self, m, st, callee, args, term):
            p = callee["path"]
            if p == STR_EQ:
                a, b_ = deref_all(m, st, args[0]), deref_all(m, st, args[1])
                return ip.boolean(self.str_eq(st, a, b_))
            if callee["crate"] not in ("precis_tools",) and p not in m.models:
                # error-message formatting etc.: irrelevant to the mapping, total
                return ty_.fresh(self.prog, st.frames[-1].body.locals[term["dest"]["l"]]["ty"], ("ext", callee["name"], st.fresh()))
            return OracleWorld.call(self, m, st, callee, args, term)

        def opaque_const(self, st, c):
            return Opq("const", (c.get("ty"),))

    w = W(prog)
    m = ip.Machine(prog, w)
    got = {}
    for word in list(NAMES) + ["<anything else>"]:
        st = m.start(key, [Str(("word",))])
        st.ext["word"] = word
        try:
            outs = m.run(st)
        except AnalysisError as e:
            rep.analysis_error("name-table", word, e, b.where())
            return
        if len(outs) != 1 or not isinstance(outs[0].value, Adt):
            got[word] = "?"
            continue
        v = outs[0].value
        got[word] = variants[v.fields[0].variant] if v.variant == 0 and isinstance(v.fields[0], Adt) else "Err"
    for word, want in list(NAMES.items()) + [("<anything else>", "Err")]:
        rep.ob("name-table", "%s ↦ %s" % (word, want), got.get(word) == want, "parser yields %s" % got.get(word), b.where(), key="name-table|%s" % word, sample=(word in ("PVALID", "<anything else>")))
    rep.ob("name-table", "literals compared", lits == set(NAMES), "the parser compares against %s; the registry names are %s" % (sorted(lits ^ set(NAMES)), sorted(NAMES)), b.where())


LINE_TAG = ("line",)


class WireWorld(OracleWorld):
    """Leaf parsers answer Ok(fresh atom)/Err(fresh error); strings are terms."""

    def __init__(self, prog, leaves, typed_values=False):
        OracleWorld.__init__(self, prog)
        self.leaves = leaves
        self.typed_values = typed_values

    def error_conversion(self, st, val, from_ty, to_ty):
        return val  # `?` with From::from: the error is passed on (its conversion is total)

    def call(self, m, st, callee, args, term):
        p = callee["path"]
        if p in self.leaves:
            name = self.leaves[p]
            a = deref_all(m, st, args[0])
            tag = a.tag if isinstance(a, Str) else repr(a)
            n = st.ext.get("n", 0) + 1
            ans = st.choose(("leaf", n), ["Ok", "Err"])
            st.ext["n"] = n
            st.emit(("leaf", name, tag, ans))
            if ans == "Ok":
                if self.typed_values:
                    dty = st.frames[-1].body.locals[term["dest"]["l"]]["ty"]
                    okty = ty_.generic_args(dty)[1][0]
                    return ip.ok(ty_.fresh(self.prog, okty, ("value-of", name, tag)))
                return ip.ok(Sym(("value-of", name, tag), "opaque!"))
            return ip.err(Sym(("error-of", name, tag), ERR + "!opaque"))
        if p == "core::str::<impl str>::splitn":
            s, n, pat = args
            st.emit(("splitn", deref_all(m, st, s).tag, n.v if isinstance(n, I) else repr(n), pat.v if isinstance(pat, I) else repr(pat)))
            return Opq("splitn", (deref_all(m, st, s).tag,))
        if p in ("core::str::<impl str>::split", "core::str::<impl str>::rsplitn", "core::str::<impl str>::rsplit", "core::str::<impl str>::split_terminator"):
            s, pat = args[0], args[-1]
            st.emit((callee["name"], deref_all(m, st, s).tag, "unbounded" if len(args) == 2 else (args[1].v if isinstance(args[1], I) else "?"), pat.v if isinstance(pat, I) else repr(pat)))
            return Opq("splitn", (deref_all(m, st, s).tag, "unbounded"))
        if p == "core::iter::traits::iterator::Iterator::collect":
            it = args[0]
            if isinstance(it, Opq) and it.kind == "splitn":
                if isinstance(it.data[-1], int):
                    raise AnalysisError("collect of a field iterator that was already advanced")
                return Opq("fields", it.data)
            raise AnalysisError("collect of %r" % (it,))
        if callee["name"] == "next" and args and isinstance(args[0], Ref):
            # fields taken one by one: the k-th next() yields field k while the line has that many
            from ..models import _innermost_ref

            ref, it = _innermost_ref(m, st, args[0])
            if isinstance(it, Opq) and it.kind == "splitn":
                pos = it.data[-1] if isinstance(it.data[-1], int) else 0
                base = it.data[:-1] if isinstance(it.data[-1], int) else it.data
                n = st.choose(("nfields",), [1, 2, 3] if len(base) == 1 else [1, 2, 3, 4])
                if pos >= n:
                    return ip.none()
                m.store(st, ref.loc, Opq("splitn", base + (pos + 1,)))
                return ip.some(Ref(("val", Str(("field", pos)))))
        if p in ("core::str::<impl str>::split_once",) and len(args) == 2:
            # the line cut at its first comma, and the rest cut at its first comma again: the same three fields
            # splitn(3, ',') gives (the third keeps any further commas)
            s = deref_all(m, st, args[0])
            pat = args[1]
            if isinstance(s, Str) and isinstance(pat, I) and (s.tag == LINE_TAG or (isinstance(s.tag, tuple) and s.tag and s.tag[0] == "rest")):
                k = 0 if s.tag == LINE_TAG else s.tag[1]
                if k >= 2:
                    raise AnalysisError("the third field is split again: it may contain commas of its own")
                n = st.choose(("nfields",), [1, 2, 3])
                # (decided before anything is recorded: a fork re-executes this call)
                if k == 0:
                    st.emit(("splitn", s.tag, 3, pat.v))
                if n < k + 2:
                    return ip.none()
                rest = Str(("field", 2)) if k == 1 else Str(("rest", k + 1))
                return ip.some(ip.Tup((Ref(("val", Str(("field", k)))), Ref(("val", rest)))))
        if p in ("<alloc::vec::Vec<T, A> as core::ops::index::Index<I>>::index", "<alloc::vec::Vec<T, A> as core::ops::deref::Deref>::deref", "alloc::vec::Vec::<T, A>::as_slice") and args:
            v = deref_all(m, st, args[0])
            r = deref_all(m, st, args[1]) if len(args) > 1 else None
            if isinstance(v, Opq) and v.kind == "fields" and (r is None or (isinstance(r, Adt) and r.ty.endswith("RangeFull"))):
                return Ref(("val", v))  # the whole vector as a slice (a slice pattern follows)
        if p == "alloc::vec::Vec::<T, A>::len":
            v = deref_all(m, st, args[0])
            if isinstance(v, Opq) and v.kind == "fields":
                return I(st.choose(("nfields",), [1, 2, 3] if len(v.data) == 1 else [1, 2, 3, 4]), "usize")
        if p == "<alloc::vec::Vec<T, A> as core::ops::index::Index<I>>::index":
            v = deref_all(m, st, args[0])
            i = args[1]
            if isinstance(v, Opq) and v.kind == "fields" and isinstance(i, I):
                n = st.facts.get(("nfields",))
                if n is None or i.v >= n:
                    return ip.Outcome("panic", None, st, "index %d of the field vector (length %s)" % (i.v, n))
                return Ref(("val", Str(("field", i.v))))
        if p == "<T as alloc::string::ToString>::to_string":
            a = deref_all(m, st, args[0])
            if isinstance(a, Str):
                return Str(("to_string", a.tag))
        if p in (CSV + "parse_precis_table_line",) or p in m.models:
            return None
        if callee["crate"] != "precis_tools":
            return ty_.fresh(self.prog, st.frames[-1].body.locals[term["dest"]["l"]]["ty"], ("ext", callee["name"], st.fresh()))
        return OracleWorld.call(self, m, st, callee, args, term)

    def opaque_const(self, st, c):
        return Opq("const", (c.get("ty"),))

    # a slice pattern `let [a, b, c] = v[..]` reads the length and then the elements
    def len_hook(self, st, a):
        if isinstance(a, Ref) and a.loc[0] == "val":
            a = a.loc[1]
        if isinstance(a, Opq) and a.kind == "fields":
            return I(st.choose(("nfields",), [1, 2, 3] if len(a.data) == 1 else [1, 2, 3, 4]), "usize")
        return ip.Top("usize")

    def index_hook(self, st, base, idx):
        if isinstance(base, Opq) and base.kind == "fields" and isinstance(idx, I):
            n = st.facts.get(("nfields",))
            if n is None or idx.v >= n:
                raise AnalysisError("element %d of the field vector (length %s)" % (idx.v, n))
            return Ref(("val", Str(("field", idx.v))))
        return None

    def enum_variants(self, ty):
        if ty.endswith("!opaque") or ty == "opaque!":
            raise AnalysisError("a field parser's value/error is inspected instead of passed on")
        return OracleWorld.enum_variants(self, ty)


def field_wiring(prog, rep):
    """The row parser as a whole: `<PrecisDerivedProperty as FromStr>::from_str`, with the two field parsers as
    oracles and the line split into at most three fields at the first two commas. Whether the splitting lives
    in a helper (parse_precis_table_line) or inline does not matter: helpers are interpreted in place."""
    key2 = "<%sPrecisDerivedProperty as core::str::traits::FromStr>::from_str" % CSV
    b2 = prog.body(key2)
    if b2 is None:
        rep.ob("field-wiring", key2, False, "not found")
        return
    rep.fn(key2)
    helper = prog.body(CSV + "parse_precis_table_line")
    if helper is not None:
        rep.fn(helper.key)
    w = WireWorld(prog, {CSV + "parse_codepoints": "codepoints", CSV + "parse_derived_properties": "properties"})
    m = ip.Machine(prog, w)
    try:
        outs = m.run(m.start(key2, [Str(("line",))]))
    except AnalysisError as e:
        rep.analysis_error("field-wiring", key2, e, b2.where())
        return
    fields = [f["name"] for f in prog.adts[CSV + "PrecisDerivedProperty"]["variants"][0]["fields"]]
    got = set()

    def nm(x):
        return x.name if isinstance(x, Sym) else x.tag if isinstance(x, Str) else repr(x)

    for o in outs:
        n = o.state.facts.get(("nfields",))
        evs = tuple(e for e in o.state.events if e[0] in ("leaf", "splitn", "split", "rsplitn", "rsplit", "split_terminator"))
        if o.kind != "return":
            got.add((n, evs, (o.kind, o.info)))
            continue
        v = o.value
        if isinstance(v, Adt) and v.variant == 0 and isinstance(v.fields[0], Adt):
            sv = v.fields[0]
            r = ("Ok",) + tuple("%s=%s" % (fn_, nm(x)) for fn_, x in zip(fields, sv.fields))
        elif isinstance(v, Adt) and v.variant == 1:
            x = v.fields[0]
            r = ("Err", x.name if isinstance(x, Sym) else "own-error")
        else:
            r = ("?", repr(v))
        got.add((n, evs, r))
    sp = ("splitn", ("line",), 3, ord(","))
    c_ok, c_err = ("leaf", "codepoints", ("field", 0), "Ok"), ("leaf", "codepoints", ("field", 0), "Err")
    p_ok, p_err = ("leaf", "properties", ("field", 1), "Ok"), ("leaf", "properties", ("field", 1), "Err")
    ok_struct = ("Ok", "codepoints=%s" % (("value-of", "codepoints", ("field", 0)),), "properties=%s" % (("value-of", "properties", ("field", 1)),), "description=%s" % (("to_string", ("field", 2)),))
    want = {
        (1, (sp,), ("Err", "own-error")),
        (2, (sp,), ("Err", "own-error")),
        (3, (sp, c_err), ("Err", ("error-of", "codepoints", ("field", 0)))),
        (3, (sp, c_ok, p_err), ("Err", ("error-of", "properties", ("field", 1)))),
        (3, (sp, c_ok, p_ok), ok_struct),
    }
    d = []
    for x in sorted(want - got, key=repr)[:3]:
        d.append("missing: %s" % (x,))
    for x in sorted(got - want, key=repr)[:3]:
        d.append("unexpected: %s" % (x,))
    rep.ob("field-wiring", "PrecisDerivedProperty::from_str: field 0 ↦ codepoints, field 1 ↦ properties, rest of the line ↦ description", not d, "; ".join(d), b2.where(), key="field-wiring|line", sample=True)


def selector_rules(prog, rep):
    """'-' selects the range form (start, end); ' or ' selects the pair form (p1, p2)."""
    for fn, pat, single, multi in (("parse_codepoints", "-", "core::str::<impl str>::parse", CSV + "parse_codepoint_range"), ("parse_derived_properties", " or ", "core::str::<impl str>::parse", CSV + "parse_derived_property_tuple")):
        key = CSV + fn
        b = prog.body(key)
        if b is None:
            rep.ob("selector", fn, False, "not found")
            continue
        rep.fn(key)
        seen = {}

        class W(WireWorld):
            def call(self, m, st, callee, args, term):
                p = callee["path"]
                if p == "core::str::<impl str>::contains":
                    a = args[1]
                    lit = a.tag[1] if isinstance(a, Str) and a.tag[0] == "lit" else (chr(a.v) if isinstance(a, I) else repr(a))
                    seen["pattern"] = lit
                    return ip.boolean(st.choose(("contains",), [True, False]))
                return WireWorld.call(self, m, st, callee, args, term)

        w = W(prog, {single: "single", multi: "multi"}, typed_values=True)
        m = ip.Machine(prog, w)
        try:
            outs = m.run(m.start(key, [Str(("field",))]))
        except AnalysisError as e:
            rep.analysis_error("selector", fn, e, b.where())
            continue
        table = set()
        for o in outs:
            c = o.state.facts.get(("contains",))
            leaves = tuple(e[1] for e in o.state.events if e[0] == "leaf")
            table.add((c, leaves))
        want = {(True, ("multi",)), (False, ("single",))}
        rep.ob("selector", "%s: contains(%r) ? multi-form : single-form" % (fn, pat), seen.get("pattern") == pat and table == want, "pattern %r, table %s" % (seen.get("pattern"), sorted(table, key=repr)), b.where(), key="selector|%s" % fn)
    # textual order of the two captures
    for fn, first, second in (("parse_codepoint_range", "start", "end"), ("parse_derived_property_tuple", "p1", "p2")):
        key = CSV + fn
        b = prog.body(key)
        if b is None:
            continue
        rep.fn(key)
        order = []
        for bb, t in b.calls():
            c = t["callee"]
            if c and c["path"].endswith("core::ops::index::Index<&'n str>>::index"):
                a = t["args"][1]
                order.append(a.get("v") if a.get("k") == "str" else "?")
        if not order:
            # always-on rule: fail closed. A hand-written splitter in place of the anchored regex is exactly where
            # "malformed rows are rejected" goes wrong (trailing words ignored, empty tokens accepted), and this
            # analysis has no string-language domain to decide it.
            rep.analysis_error("selector", "%s: the two parts are taken from an anchored regular expression" % fn, "the function does not read regex captures: which strings it accepts cannot be decided here", b.where())
            continue
        rep.ob("selector", "%s reads groups in textual order" % fn, order == [first, second], "groups read: %s" % order, b.where(), key="selector|order|%s" % fn)
        # and the result is built as (first, second): origin of the aggregate's operands
        defs = prov.Defs(b)
        agg = None
        for bl in b.blocks:
            for st in bl["stmts"]:
                if st["k"] == "assign" and st["rv"]["k"] == "aggregate" and (st["rv"].get("agg") == "tuple" or (st["rv"].get("agg") == "adt" and "CodepointRange" in st["rv"].get("adt", ""))) and len(st["rv"]["ops"]) == 2:
                    agg = st["rv"]
        if agg is not None:
            srcs = []
            for o in agg["ops"]:
                org = prov.operand_origin(b, o, defs)
                name = "?"
                seen_ = 0
                # follow `?` plumbing back to the parse() call and its argument's Index name
                while org and org[0] == "call" and seen_ < 8:
                    seen_ += 1
                    c = org[1]
                    if c and c["path"].endswith("core::ops::index::Index<&'n str>>::index"):
                        a = org[4]["args"][1]
                        name = a.get("v", "?")
                        break
                    org = prov.operand_origin(b, org[4]["args"][0], defs)
                srcs.append(name)
            rep.ob("selector", "%s builds (%s, %s)" % (fn, first, second), srcs == [first, second], "built from groups %s" % srcs, b.where(), key="selector|build|%s" % fn)


def regex_groups(prog, rep):
    n = 0
    for b in prog.by_crate["precis_tools"]:
        if not b.id.startswith(CSV) or b.kind != "fn" or b.d.get("in_test"):
            continue
        used = []
        for bb, t in b.calls():
            c = t["callee"]
            if c and c["path"].endswith("core::ops::index::Index<&'n str>>::index") and "Captures" in c["path"]:
                a = t["args"][1]
                used.append((a.get("v") if a.get("k") == "str" else None, common.where(t)))
        if not used:
            continue
        # the regex literal(s) of this function: Regex::new(<const str>) in bodies nested under it
        pats = []
        for k2, b2 in prog.bodies.items():
            if b2.crate == "precis_tools" and (b2.id.startswith(b.id + "::") or "<" + b.id + "::" in b2.id):
                for bb, t in b2.calls():
                    c = t["callee"]
                    if c and c["path"] == "regex::regex::string::Regex::new":
                        org = prov.operand_origin(b2, t["args"][0])
                        if org[0] == "const" and org[1].get("k") == "str":
                            pats.append(org[1]["v"])
        groups = set()
        for p in pats:
            groups |= set(re.findall(r"\(\?P<([A-Za-z_][A-Za-z0-9_]*)>", p))
        for name, where in used:
            n += 1
            rep.ob("regex-groups", "%s: caps[%r]" % (b.id.split("::")[-1], name), name in groups, "group not defined by the function's regex %s (indexing a missing group panics)" % pats, where, key="regex-groups|%s|%s" % (b.id, name))
    rep.floor("regex group references", n, 0)


READ_LINE = "std::io::BufRead::read_line"
STR_PARSE = "core::str::<impl str>::parse"


class LineWorld(OracleWorld):
    """CsvLineParser::next over an abstract reader: every read_line answers Err or Ok(n) (n unknown, so
    the code's own `n == 0` test decides end of file); the row parser answers Ok(row) or Err(error).
    `line_number` starts as an unknown count ln >= 0 of lines already read, so one interpretation covers
    every call of next() in the life of a parser."""

    def __init__(self, prog, ln_field):
        OracleWorld.__init__(self, prog)
        self.ln_field = ln_field

    def current_ln(self, m, st):
        me = st.heap[("arg", 0)]
        return me.fields[self.ln_field]

    # ---- the line buffer: Opq("linebuf", (k, removed)) = the k-th line as read, minus `removed` trailing bytes.
    # A line as read is body ++ terminator, terminator in {"", "\n", "\r\n"} (chosen per path when needed).
    TERMS = ["", "\n", "\r\n"]

    def term_of(self, st, k):
        t = st.choose(("term", k), self.TERMS)
        # the line as read is body ++ t: it has at least len(t) bytes, and an empty read has no terminator
        r = ip.rng_get(st, Sym(("nbytes", k), "usize"))
        _lt, ge = ip._rng_split(r, "Lt", len(t))
        if not ge:
            raise ip.Infeasible()
        st.facts[("rng", ("nbytes", k))] = tuple(ge)
        return t

    REPRESENTATIVES = (10, 13, 32, 9, 0x3000, 0xA0, ord("a"), ord("Z"), ord("0"), ord(";"), ord(","), ord("."), ord("#"))

    def pattern_chars(self, m, st, pat):
        """The subset of REPRESENTATIVES a char pattern (a char, or a closure over one char that compares it
        with constants) matches; None when the pattern cannot be evaluated here."""
        v = pat
        if isinstance(v, Ref):
            v = m.load(st, v.loc)
        if isinstance(v, I):
            return {v.v}
        if not isinstance(v, ip.Clo):
            return None
        out = set()
        for c in self.REPRESENTATIVES:
            sub = ip.State()
            sub.nuid = 20_000
            body = self.prog.body(v.defpath)
            fr = ip.Frame(body, sub.fresh())
            fr.locals[1] = Ref(("val", v))
            fr.locals[2] = I(c, "char")
            sub.frames.append(fr)
            try:
                outs = [o for o in m.run(sub) if o.kind != "closed"]
            except AnalysisError:
                return None
            if len(outs) != 1 or outs[0].kind != "return":
                return None
            r = outs[0].value
            if not isinstance(r, I):
                return None
            if r.v:
                out.add(c)
        return out

    def linebuf(self, m, st, v):
        v = deref_all(m, st, v)
        return v if isinstance(v, Opq) and v.kind == "linebuf" else None

    def removed_by(self, st, k, x):
        """x = (length of line k as read) - j  ->  j, for a constant j >= 0; else None."""
        if isinstance(x, Sym):
            b, off = ip.lin_parts(x)
            if b == ("nbytes", k) and off <= 0:
                return -off
        return None

    def call(self, m, st, callee, args, term):
        p = callee["path"]
        name = callee["name"]
        lb = self.linebuf(m, st, args[0]) if args else None
        if lb is not None and p != STR_PARSE and not (name == "from_str"):
            k, removed = lb.data
            if name in ("deref", "as_str", "as_ref", "borrow", "deref_mut", "as_mut_str"):
                return args[0] if isinstance(args[0], Ref) else Ref(("val", lb))
            if name == "len":
                if isinstance(removed, tuple):
                    return Sym(("trimmed-len", k), "usize")
                return ip.mk_lin(("nbytes", k), -removed, "usize")
            if name == "index" and len(args) == 2:
                # &line[..x] / &line[a..]: only a prefix keeps the row's beginning
                r = deref_all(m, st, args[1])
                if isinstance(r, Adt) and r.ty.endswith("RangeTo"):
                    j = self.removed_by(st, k, r.fields[0])
                    if j is not None and j >= removed:
                        return Ref(("val", Opq("linebuf", (k, j))))
                raise AnalysisError("the line buffer is sliced with %r" % (r,))
            if name == "truncate" and len(args) == 2:
                j = self.removed_by(st, k, args[1])
                if j is None or j < removed:
                    raise AnalysisError("the line buffer is truncated to %r" % (args[1],))
                if isinstance(args[0], Ref):
                    m.store(st, self._innermost(m, st, args[0]).loc, Opq("linebuf", (k, j)))
                return ip.UNIT
            if name == "pop":
                if isinstance(args[0], Ref):
                    m.store(st, self._innermost(m, st, args[0]).loc, Opq("linebuf", (k, removed + 1)))
                return ip.some(Sym(("popped", k, removed), "char"))
            if name in ("ends_with", "starts_with") and len(args) == 2 and name == "ends_with":
                pat = args[1]
                t = self.term_of(st, k)
                rest = t[: max(len(t) - removed, 0)]
                if isinstance(pat, I):
                    if rest:
                        return ip.boolean(ord(rest[-1]) == pat.v)
                    # the terminator is gone: the row's own last character (a row never ends in CR/LF)
                    if pat.v in (10, 13):
                        return ip.boolean(False)
                return ip.boolean(st.choose(("ends-with", k, removed, repr(pat)), [True, False]))
            if name in ("trim_end_matches", "trim_right_matches", "strip_suffix") and len(args) == 2 and not isinstance(removed, tuple):
                # a pattern that only matches CR / LF removes (part of) the terminator, nothing of the row
                cs = self.pattern_chars(m, st, args[1])
                if cs is not None and cs <= {10, 13}:
                    t = self.term_of(st, k)
                    rest = t[: max(len(t) - removed, 0)]
                    cut = 0
                    if name == "strip_suffix":
                        cut = 1 if rest and ord(rest[-1]) in cs else 0
                        if not cut:
                            return ip.none()
                    else:
                        while cut < len(rest) and ord(rest[len(rest) - 1 - cut]) in cs:
                            cut += 1
                    r = Ref(("val", Opq("linebuf", (k, removed + cut))))
                    return ip.some(r) if name == "strip_suffix" else r
            if name in ("trim_end", "trim_end_matches", "trim_right", "trim_right_matches", "trim", "trim_matches"):
                st.emit(("trimmed", k, name))
                return Ref(("val", Opq("linebuf", (k, ("trim", removed)))))
            if name == "clear":
                if isinstance(args[0], Ref):
                    m.store(st, self._innermost(m, st, args[0]).loc, Opq("linebuf-empty", ()))
                return ip.UNIT
        if p == READ_LINE or name == "read_line" and callee["crate"] != "precis_tools":
            k = st.ext.get("reads", 0) + 1
            ans = st.choose(("read", k), ["Err", "Ok"])
            st.ext["reads"] = k
            st.emit(("read", k, self.current_ln(m, st), ans))
            if ans == "Err":
                return ip.err(Opq("io-error", (k,)))
            # the buffer handed in now holds line k
            if len(args) >= 2 and isinstance(args[1], Ref):
                try:
                    m.store(st, self._innermost(m, st, args[1]).loc, Opq("linebuf", (k, 0)))
                except AnalysisError:
                    pass
            return ip.ok(Sym(("nbytes", k), "usize"))
        if p == STR_PARSE or (callee["name"] == "from_str" and not callee["resolved"]):
            k = st.ext.get("parses", 0) + 1
            ans = st.choose(("parse", k), ["Err", "Ok"])
            src = self.linebuf(m, st, args[0]) if args else None
            if src is None:
                text = ("parsed-text", k, "other", repr(deref_all(m, st, args[0]))[:80] if args else "?")
            else:
                lk, removed = src.data
                if isinstance(removed, tuple):
                    text = ("parsed-text", k, "trimmed", lk)
                else:
                    text = ("parsed-text", k, "line", lk, removed, self.term_of(st, lk))
            # (every decision above is taken before anything is recorded: a fork re-executes this call)
            st.ext["parses"] = k
            st.emit(("parse", k, self.current_ln(m, st), ans))
            st.emit(text)
            if ans == "Ok":
                return ip.ok(Sym(("row", k), "opaque!"))
            e = ty_.fresh(self.prog, ERR, ("row-error", k))
            return ip.err(e)
        if p in m.models:
            return None
        if callee["crate"] != "precis_tools":
            dl = term["dest"]
            return ty_.fresh(self.prog, st.frames[-1].body.locals[dl["l"]]["ty"] if not dl["p"] else "?", ("ext", callee["name"], st.fresh()))
        return OracleWorld.call(self, m, st, callee, args, term)

    def _innermost(self, m, st, r):
        from ..models import _innermost_ref

        ref, _ = _innermost_ref(m, st, r)
        return ref

    def opaque_const(self, st, c):
        return Opq("const", (c.get("ty"),))

    def enum_variants(self, ty):
        if ty == "opaque!":
            raise AnalysisError("the parsed row is inspected instead of passed on")
        return OracleWorld.enum_variants(self, ty)


def _bounds(st, v):
    if isinstance(v, I):
        return v.v, v.v
    if isinstance(v, Sym):
        bname, k = ip.lin_parts(v)
        r = ip.rng_get(st, Sym(bname, v.ty))
        return r[0][0] + k, r[-1][1] + k
    return None, None


def line_numbers(prog, rep):
    key = None
    for b in prog.by_crate["precis_tools"]:
        if b.id.startswith("<" + CSV + "CsvLineParser<R, D> as core::iter::traits::iterator::Iterator>::next") and b.kind == "fn":
            key = b.key
    b = prog.body(key) if key else None
    if b is None:
        rep.ob("line-numbers", "CsvLineParser::next", False, "not found")
        return
    rep.fn(key)
    adt = prog.adts[CSV + "CsvLineParser"]
    fidx = {f["name"]: i for i, f in enumerate(adt["variants"][0]["fields"])}
    ln = fidx["line_number"]
    lnty = adt["variants"][0]["fields"][ln]["ty"]
    # the constructor starts counting at 0
    nb = prog.body(CSV + "CsvLineParser::<R, D>::new")
    init_ok = False
    if nb is not None:
        rep.fn(nb.key)
        for bl in nb.blocks:
            for st_ in bl["stmts"]:
                if st_["k"] == "assign" and st_["rv"]["k"] == "aggregate" and st_["rv"].get("adt") == CSV + "CsvLineParser":
                    o = st_["rv"]["ops"][ln]
                    init_ok = o.get("k") == "int" and o.get("v") == 0
    rep.ob("line-numbers", "a new parser starts with line_number = 0", init_ok, "CsvLineParser::new does not initialise line_number with the constant 0", nb.where() if nb else b.where(), key="line-numbers|init")
    w = LineWorld(prog, ln)
    m = ip.Machine(prog, w)
    st0 = ip.State()
    args = ty_.fresh_args(prog, st0, prog.fns[key]["inputs"])
    me = st0.heap[("arg", 0)]
    if not (isinstance(me, Adt) and len(me.fields) > ln):
        rep.ob("line-numbers", "CsvLineParser::next", False, "analysis-error: cannot build an abstract parser value", b.where(), key="analysis-error|line-numbers")
        return
    st0.heap[("arg", 0)] = Adt(me.ty, me.variant, tuple(Sym("ln", lnty) if i == ln else f for i, f in enumerate(me.fields)))
    try:
        outs = m.run(m.start(key, args, st0), max_paths=4000)
    except AnalysisError as e:
        rep.analysis_error("line-numbers", key, e, b.where())
        return
    inc_bad, hdr_bad, stamp_bad = [], [], []
    n_paths = 0
    for o in outs:
        if o.kind == "diverge":
            hdr_bad.append("the read loop does not end (%s)" % o.info)
            continue
        if o.kind != "return":
            hdr_bad.append("path ends with %s: %s" % (o.kind, o.info))
            continue
        n_paths += 1
        st = o.state
        reads = [e for e in st.events if e[0] == "read"]
        parses = [e for e in st.events if e[0] == "parse"]
        desc = []
        for i, (_, k, val, ans) in enumerate(reads, 1):
            bname, off = ip.lin_parts(val) if isinstance(val, Sym) else (None, None)
            if not (bname == "ln" and off == i):
                inc_bad.append("read_line #%d of a call happens with line_number = %s (expected: previous count + %d)" % (i, ("ln%+d" % off) if bname == "ln" else repr(val), i))
            lo, hi = _bounds(st, val)
            nlo, nhi = _bounds(st, Sym(("nbytes", k), "usize")) if ans == "Ok" else (None, None)
            kind = "Err" if ans == "Err" else "EOF" if nhi == 0 else "Line" if nlo >= 1 else "untested"
            desc.append((kind, lo, hi))
        v = o.value
        res = "?"
        payload = None
        if isinstance(v, Adt) and v.ty == ip.OPTION:
            if v.variant == 0:
                res = "None"
            elif isinstance(v.fields[0], Adt) and v.fields[0].ty == ip.RESULT:
                res = "Some(Ok)" if v.fields[0].variant == 0 else "Some(Err)"
                payload = v.fields[0].fields[0]
        if not desc:
            hdr_bad.append("returns %s without reading a line" % res)
            continue
        for kind, lo, hi in desc[:-1]:
            if not (kind == "Line" and hi is not None and hi <= 1):
                hdr_bad.append("after a read (%s, line number in [%s, %s]) the loop reads again: only the header line (line 1) may be skipped" % (kind, lo, hi))
        kind, lo, hi = desc[-1]
        if kind == "untested":
            hdr_bad.append("the byte count returned by read_line is not tested against 0 (end of file)")
        elif kind == "Err":
            if res != "Some(Err)" or parses:
                hdr_bad.append("an IO error yields %s" % res)
        elif kind == "EOF":
            if res != "None" or parses:
                hdr_bad.append("end of file yields %s" % res)
        elif res == "None":
            hdr_bad.append("a read of at least one byte (a line, possibly empty before its terminator) makes next() return None: the rows after it are never produced")
        else:
            if lo is None or lo < 2:
                hdr_bad.append("a line whose number may be %s is parsed as a data row: the first physical line is the header" % lo)
            if len(parses) != 1:
                hdr_bad.append("a data line is parsed %d times (result %s)" % (len(parses), res))
            else:
                _, pk, pval, pans = parses[0]
                if pans == "Ok":
                    if not (res == "Some(Ok)" and isinstance(payload, Sym) and payload.name == ("row", pk)):
                        stamp_bad.append("a successfully parsed row is returned as %s" % res)
                else:
                    line = payload.fields[1] if (res == "Some(Err)" and isinstance(payload, Adt) and len(payload.fields) > 1) else None
                    efields = {f["name"]: i for i, f in enumerate(prog.adts[ERR]["variants"][0]["fields"])}
                    line = payload.fields[efields["line"]] if (res == "Some(Err)" and isinstance(payload, Adt) and payload.ty == ERR) else None
                    good = isinstance(line, Adt) and line.ty == ip.OPTION and line.variant == 1 and line.fields[0] == reads[-1][2]
                    if not good:
                        stamp_bad.append("a row error is returned with line = %s instead of Some(number of the line just read)" % (("Some(%r)" % (line.fields[0].name,)) if isinstance(line, Adt) and line.variant == 1 and isinstance(line.fields[0], Sym) else "None" if isinstance(line, Adt) and line.variant == 0 else "an unrelated value"))
    # what the row parser is given: the line just read, whole (at most its terminator removed)
    text_bad = []
    for o in outs:
        if o.kind != "return":
            continue
        reads = [e for e in o.state.events if e[0] == "read"]
        for e in o.state.events:
            if e[0] != "parsed-text":
                continue
            if e[2] == "other":
                text_bad.append("the row parser is given %s, not the line buffer filled by read_line" % e[3])
            elif e[2] == "trimmed":
                text_bad.append("the line is trimmed of white space before parsing: trailing blanks of a description are part of the row")
            else:
                _, _, _, lk, removed, t = e
                if reads and lk != reads[-1][1]:
                    text_bad.append("the row parser is given line %d of this call, the line just read is %d" % (lk, reads[-1][1]))
                if removed > len(t):
                    text_bad.append("when a line ends with %r, %d byte(s) are cut off before parsing: %d of them belong to the row (a last row without line terminator loses the end of its description)" % (t, removed, removed - len(t)))
    rep.ob("line-numbers", "the row parser receives the line just read, at most without its terminator", not text_bad and n_paths > 0, "; ".join(sorted(set(text_bad))[:2]), b.where(), key="line-numbers|text")
    rep.extra["line_number_paths"] = n_paths
    rep.ob("line-numbers", "line_number += 1 exactly once before every read_line", not inc_bad and n_paths > 0, "; ".join(sorted(set(inc_bad))[:2]), b.where(), key="line-numbers|increment")
    rep.ob("line-numbers", "first physical line (header) skipped: rows start at line_number > 1", not hdr_bad and n_paths > 0, "; ".join(sorted(set(hdr_bad))[:2]), b.where(), key="line-numbers|header")
    rep.ob("line-numbers", "row errors carry Some(line number)", not stamp_bad and n_paths > 0, "; ".join(sorted(set(stamp_bad))[:2]), b.where(), key="line-numbers|stamp")
    rep.floor("paths of CsvLineParser::next", n_paths, 5)


def panic_freedom(prog, rep):
    roots = [b.key for b in prog.by_crate["precis_tools"] if b.kind == "fn" and b.id.startswith(("<" + CSV, CSV)) and not b.d.get("in_test") and ("FromStr" in b.id or b.id.startswith(CSV + "parse_"))]
    accepted = {"regex::regex::string::Regex::new": "constant pattern: Regex::new(literal).unwrap() is deterministic and exercised by the unit tests"}
    n = 0
    for r in sorted(roots):
        b = prog.bodies[r]
        f = prog.fns.get(r)
        if f is None:
            continue

        class W(tt.TotalWorld):
            def len_hook(self, st, a):
                x = a.loc[1] if isinstance(a, Ref) and a.loc[0] == "val" else a
                if isinstance(x, Opq) and x.kind == "vec-slice":
                    return Sym(("veclen", x.data[0]), "usize")
                return tt.TotalWorld.len_hook(self, st, a)

            def call(self, m, st, callee, args, term):
                p = callee["path"]
                if p == "alloc::vec::Vec::<T, A>::len":
                    v = deref_all(m, st, args[0])
                    return Sym(("veclen", repr(v)[:40]), "usize")
                if p == "<alloc::vec::Vec<T, A> as core::ops::index::Index<I>>::index":
                    self.visited_sites.add(self.site(st))
                    v = deref_all(m, st, args[0])
                    i = args[1]
                    iv = deref_all(m, st, i)
                    if isinstance(iv, Adt) and iv.ty.endswith("RangeFull"):
                        # v[..]: the whole vector as a slice (cannot panic); its length is the vector's
                        return Ref(("val", Opq("vec-slice", (repr(v)[:40],))))
                    lb = self.lower_bound(st, Sym(("veclen", repr(v)[:40]), "usize"))
                    if not (isinstance(i, I) and lb is not None and i.v < lb):
                        self.finding(st, "index", "Vec index %r is not below a proven lower bound of the length (%s)" % (i, lb), term)
                    return self.fresh(st, self.dest_ty(st, term), "elem")
                if p.endswith("core::ops::index::Index<&'n str>>::index"):
                    self.visited_sites.add(self.site(st))
                    return self.fresh(st, self.dest_ty(st, term), "group")  # discharged by regex-groups
                if callee["name"] in ("deref", "get_or_init", "force") and "regex::regex::string::Regex" in (self.dest_ty(st, term) or ""):
                    # a once-initialised static regex (lazy_static!, LazyLock, OnceLock) under any name, see `accepted`
                    return self.fresh(st, self.dest_ty(st, term), "regex")
                return tt.TotalWorld.call(self, m, st, callee, args, term)

        w = W(prog, set(roots), r)
        m = ip.Machine(prog, w)
        try:
            st0 = ip.State()
            outs = m.run(m.start(r, ty_.fresh_args(prog, st0, f["inputs"]), st0))
        except AnalysisError as e:
            rep.analysis_error("panic-freedom", r, e, b.where())
            continue
        n += 1
        pan = [o.info for o in outs if o.kind == "panic"] + [p[0] for p in w.probe_panics]
        rep.ob("panic-freedom", r.replace(CSV, ""), not pan and not w.findings, "%s %s" % (pan[:2], [x["detail"] for x in w.findings][:2]), b.where(), key="panic-freedom|%s" % r)
    rep.floor("parse functions interpreted", n, 5)
    rep.extra["accepted_may_panic"] = accepted


def run(tier):
    rep = Report("C17", tier, __doc__)
    prog = Program()
    name_table(prog, rep)
    field_wiring(prog, rep)
    selector_rules(prog, rep)
    regex_groups(prog, rep)
    line_numbers(prog, rep)
    panic_freedom(prog, rep)
    rep.not_decided += ["the languages of the two regular expressions and of ucd_parse::Codepoint::from_str (hexadecimal forms accepted/rejected)"]
    rep.assumptions += ["str::splitn / contains / parse and regex captures behave as documented"]
    return rep
