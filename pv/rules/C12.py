"""C12 — space rules map, trim and collapse spaces without touching anything else.

Alphabet {N, S, Z} = non-space, U+0020, any other Zs — the only distinctions the code can make: a label
character reaches only `is_space_separator` and `== SPACE` (anything else is an analysis error).
Password rule: copy-on-first-change discipline (pv/fcd.py): trigger set = {Z}, untouched input when no
Z, prefix/suffix meet at find's position, one-state loop mapping Z→U+0020 and everything else to itself.
Nickname rule: A4 extracts (1) the scan DFA of find_disallowed_space with the position it returns,
(2) the rebuild transducer of trim_spaces for each possible last character of the copied prefix;
their composition is compared, by product exploration with bounded output lag, with the reference
transducer of RFC 8266 §2.3 (map Z→S, drop leading and trailing S, collapse runs) — for all words.
Data: SPACE_SEPARATOR = Zs of Unicode 16.0.0 (L5), searchable (L2), lookup shape (L3)."""
import collections

from spec import tables_spec as ts

from .. import automaton as au
from .. import fcd
from .. import interp as ip
from .. import tablecheck
from ..interp import AnalysisError, Adt, I, Opq, Ref, Str, Sym, Top
from ..mir import Program
from ..report import Report
from . import common, l4

COMMON = "precis_profiles::common::"
NK = "precis_profiles::nicknames::"
ALPHA = ["N", "S", "Z"]
SPACE = 0x20


def space_oracles():
    return {COMMON + "is_space_separator": lambda cls, c: ip.boolean(cls in ("S", "Z"))}


def token(ev):
    """push event -> output letter"""
    if ev[0] == "push":
        if ev[1] == "char":
            return ("cur" if ev[2] == 0 else "old%d" % ev[2], ev[3])
        if ev[1] == "const":
            return ("const", "S" if ev[2] == SPACE else "?%x" % ev[2])
        if ev[1] == "popped":
            return ("popped", ev[2])
    if ev[0] == "pop":
        return ("pop",)
    return ("?", ev)


# ---------------------------------------------------------------------------- password rule
def password_rule(prog, rep):
    key = "<precis_profiles::passwords::OpaqueString as precis_core::profile::Rules>::additional_mapping_rule"
    w = fcd.FcdWorld(prog, ALPHA, space_oracles(), const_eq={SPACE: {"S"}})
    selfv = Ref(("val", Adt("precis_profiles::passwords::OpaqueString", 0, (Adt("precis_core::stringclasses::FreeformClass", 0, ()),))))
    info = fcd.analyse(prog, rep, "password-rule", key, w, [selfv, Str(("input",))])
    if info is None:
        return
    b = info["body"]
    rep.ob("password-rule", "trigger set", info["trig"] == {"Z"}, "find() stops at a character of class %s; must stop exactly at non-ASCII spaces {Z}" % sorted(info["trig"]), b.where(), key="password-rule|trigger")
    rep.ob("password-rule", "no non-ASCII space ⇒ input returned unchanged", info["none_result"] == ("Ok", ("input",)) and not info["none_events"], "returns %s" % (info["none_result"],), b.where())
    aut = info["aut"]
    rep.ob("password-rule", "mapping loop is stateless", fcd.behavioural_states(aut, ALPHA) == 1, "%d behaviourally different loop states: the result for a character depends on what precedes it" % fcd.behavioural_states(aut, ALPHA), b.where(), key="password-rule|stateless")
    try:
        per, q0, end_ev, end_res = fcd.letter_outputs(aut, ALPHA)
    except AnalysisError as e:
        rep.analysis_error("password-rule", key, e, b.where())
        return
    want = {"N": [("cur", "N")], "S": [("cur", "S")], "Z": [("const", "S")]}
    alt = {"S": [("const", "S")]}
    for a in ALPHA:
        got = [token(e) for e in per[a][0]]
        okk = (got == want[a] or got == alt.get(a)) and per[a][1] == q0
        rep.ob("password-rule", "letter %s ↦ %s" % (a, want[a]), okk, "loop emits %s" % got, b.where(), key="password-rule|map|%s" % a, sample=True)
    rep.ob("password-rule", "end of input", end_res == ("Ok", "buffer") and not end_ev, "at end: %s %s" % (end_ev, end_res), b.where())
    rep.extra["password_rule"] = {"trigger": sorted(info["trig"]), "loop_states": aut.nstates()}


# ---------------------------------------------------------------------------- nickname rule
class ScanWorld(fcd.FcdWorld):
    def __init__(self, prog):
        fcd.FcdWorld.__init__(self, prog, ALPHA, space_oracles(), const_eq={SPACE: {"S"}})
        self.input_tag = ("label",)

    # what the scan may ask about the whole label once it has read it to the end: whether it ends with
    # U+0020 (the class of the last character read) and where that last character starts (len - 1, U+0020
    # being one byte long)
    def _deliver(self, m, st, itref, enumerate_):
        letter = st.ext.get("letter")
        r = fcd.FcdWorld._deliver(self, m, st, itref, enumerate_)
        if not isinstance(r, ip.Outcome) and letter is not None and letter != au.END:
            st.ext["v:lastcls"] = letter
            st.ext["v:nread"] = min(st.ext.get("v:nread", 0) + 1, 2)
        return r

    def str_ends_with(self, m, st, s, pat):
        if not (isinstance(s, Str) and s.tag == self.input_tag and isinstance(pat, I) and pat.v == SPACE):
            raise AnalysisError("ends_with(%r) on %r" % (pat, s))
        if not st.ext.get("v:ended"):
            raise AnalysisError("the scan asks how the label ends before it has read it to the end")
        return ip.boolean(st.ext.get("v:lastcls") == "S")

    def str_strip_suffix(self, m, st, s, pat):
        if not (isinstance(s, Str) and s.tag == self.input_tag and isinstance(pat, I) and pat.v == SPACE):
            raise AnalysisError("strip_suffix(%r) on %r" % (pat, s))
        if not st.ext.get("v:ended"):
            raise AnalysisError("the scan asks how the label ends before it has read it to the end")
        if st.ext.get("v:lastcls") != "S":
            return ip.none()
        return ip.some(Ref(("val", Str(("label-before-last",)))))

    def str_len(self, st, s):
        if isinstance(s, Str) and s.tag == self.input_tag:
            return Sym(("len",), "usize")
        if isinstance(s, Str) and s.tag == ("label-before-last",):
            return Sym(("boff", 0), "usize")  # where the last character (the one just read) starts
        return fcd.FcdWorld.str_len(self, st, s)

    def compare_hook(self, st, op, a, b):
        # `index == 0`: the byte offset of the character just read is 0 exactly for the first character read
        if isinstance(a, Sym) and a.name == ("boff", 0) and isinstance(b, I) and b.v == 0 and not st.ext.get("v:ended"):
            first = st.ext.get("v:nread", 0) <= 1
            return {"Eq": first, "Ne": not first, "Gt": not first, "Le": first, "Ge": True, "Lt": False}[op]
        return fcd.FcdWorld.compare_hook(self, st, op, a, b)

    def binop_hook(self, st, op, a, b):
        base = op.replace("WithOverflow", "").replace("Unchecked", "")
        if base == "Sub" and isinstance(a, Sym) and a.name == ("len",) and isinstance(b, I) and b.v == 1 and st.ext.get("v:ended") and st.ext.get("v:lastcls") == "S":
            # the label ends with U+0020 (one byte): len - 1 is the byte offset of that last character
            r = Sym(("boff", 0), "usize")
            return ip.Tup((r, ip.boolean(False))) if op.endswith("WithOverflow") else r
        return fcd.FcdWorld.binop_hook(self, st, op, a, b)


def scan_result(o):
    v = o.value
    if isinstance(v, Adt) and v.ty == ip.OPTION:
        if v.variant == 0:
            return ("None",)
        x = v.fields[0]
        if isinstance(x, Sym) and isinstance(x.name, tuple) and x.name[0] in ("boff", "idx") and len(x.name) == 2:
            return ("Some", x.name[0], x.name[1])
        if isinstance(x, I):
            return ("Some", "const", x.v)
        return ("Some", "?", repr(x))
    return ("?", repr(v))


class RebuildWorld(fcd.FcdWorld):
    """trim_spaces with find_disallowed_space as an oracle answering Some(pos)."""

    def __init__(self, prog, prefix_last):
        fcd.FcdWorld.__init__(self, prog, ALPHA, space_oracles(), const_eq={SPACE: {"S"}})
        self.prefix_last = prefix_last
        self.track_last = True
        self.extra = {NK + "find_disallowed_space": self.find_oracle}
        self.trig = set()

    def find_oracle(self, w, m, st, callee, args, term):
        from ..models import deref_all

        s = deref_all(m, st, args[0])
        if not (isinstance(s, Str) and s.tag == ("input",)):
            raise AnalysisError("find_disallowed_space is applied to %r, not to the rule's own argument" % (s,))
        if st.ext.get("scenario") == "none":
            return ip.none()
        return ip.some(Sym(("pos",), "usize"))

    def last_desc(self, st):
        d = st.ext.get("v:last")
        if d is not None:
            return d
        if self.prefix_last == "EMPTY":
            return None
        return ("char", au.MAX_AGE, self.prefix_last)

    def buf_pop(self, m, st, bufref):
        d = self.last_desc(st)
        if d == ("unknown",):
            raise AnalysisError("a second pop reads a character the abstraction no longer tracks")
        st.emit(("pop",))
        if d is None:
            return ip.none()
        st.ext["v:last"] = ("unknown",)
        if d[0] == "char":
            return ip.some(Sym(("popped", d[2]), "char"))
        if d[0] == "const":
            return ip.some(Sym(("popped", "S" if d[1] == SPACE else "?"), "char"))
        if d[0] == "popped":
            return ip.some(Sym(("popped", d[1]), "char"))
        raise AnalysisError("pop of %r" % (d,))

    def call(self, m, st, callee, args, term):
        if callee["path"].startswith("core::str::<impl str>::trim") or callee["name"] in ("split_whitespace", "is_whitespace"):
            raise fcd.ClassRefinement("the rebuilt string is trimmed with %s: Unicode White_Space is not the Zs set of the rule (it also contains TAB, LF, CR, U+0085, U+2028, U+2029, which are not space separators and must be kept)" % callee["path"].rsplit("::", 1)[1])
        return fcd.FcdWorld.call(self, m, st, callee, args, term)

    def buf_is_empty(self, m, st, buf):
        if st.ext.get("v:last") is not None:
            return ip.boolean(False)
        return ip.boolean(self.prefix_last == "EMPTY")

    def iter_next_back(self, m, st, ref, it):
        # head.chars().next_back(): the last character of the unchanged prefix (its class is this world's case)
        if isinstance(it, Opq) and it.kind == "chars" and isinstance(it.data[0], Str) and it.data[0].tag == ("prefix",):
            if self.prefix_last == "EMPTY":
                return ip.none()
            return ip.some(au.ch(au.MAX_AGE, self.prefix_last))
        if isinstance(it, Opq) and it.kind == "chars" and isinstance(it.data[0], Str) and it.data[0].tag == ("bufcontent",):
            # res.chars().next_back(): the last character of the output so far
            d = self.last_desc(st)
            if d is None:
                return ip.none()
            if d[0] == "char":
                return ip.some(au.ch(d[1], d[2]))
            if d[0] == "const":
                return ip.some(I(d[1], "char"))
            raise AnalysisError("last character of the output after a pop is not tracked")
        return None

    def str_is_empty(self, st, s):
        if isinstance(s, Str) and s.tag == ("prefix",):
            return ip.boolean(self.prefix_last == "EMPTY")
        if isinstance(s, Str) and s.tag == ("bufcontent",):
            if st.ext.get("v:last") is not None:
                return ip.boolean(False)
            return ip.boolean(self.prefix_last == "EMPTY")
        raise AnalysisError("is_empty of %r" % (s,))

    def str_ends_with(self, m, st, s, pat):
        if isinstance(s, Str) and s.tag == ("prefix",) and isinstance(pat, I) and pat.v == SPACE:
            # prefix.ends_with(SPACE): the last character of the unchanged prefix is this world's case
            return ip.boolean(self.prefix_last == "S")
        if not (isinstance(s, Opq) and s.kind == "buf") and not (isinstance(s, Str) and s.tag == ("bufcontent",)):
            raise AnalysisError("ends_with on %r" % (s,))
        if not (isinstance(pat, I) and pat.v == SPACE):
            raise AnalysisError("ends_with(%r)" % (pat,))
        d = self.last_desc(st)
        if d is None:
            return ip.boolean(False)
        if d == ("unknown",):
            raise AnalysisError("ends_with after pop")
        if d[0] == "char":
            return ip.boolean(d[2] == "S")
        return ip.boolean(d[1] == SPACE)


def extract_nickname(prog, rep):
    fkey = NK + "find_disallowed_space"
    tkey = NK + "trim_spaces"
    fb, tb = prog.body(fkey), prog.body(tkey)
    if fb is None or tb is None:
        rep.ob("nickname-rule", "anchors", False, "find_disallowed_space / trim_spaces not found")
        return None
    rep.fn(fkey, tkey)
    try:
        scan = au.extract(prog, ScanWorld(prog), fkey, [Str(("label",))], ALPHA, result_of=scan_result)
    except AnalysisError as e:
        rep.analysis_error("nickname-rule", fkey, e, fb.where())
        return None
    rebuilds = {}
    none_ok = None
    for pl_ in ("EMPTY", "N", "S"):
        w = RebuildWorld(prog, pl_)
        info = fcd.analyse(prog, rep, "nickname-rule", tkey, w)
        if info is None:
            return None
        rebuilds[pl_] = info["aut"]
        none_ok = info["none_result"] == ("Ok", ("input",)) and not info["none_events"]
    rep.ob("nickname-rule", "no disallowed space ⇒ input returned unchanged", bool(none_ok), "", tb.where())
    return scan, rebuilds


# reference transducer of RFC 8266 §2.3 over {N,S,Z}
def ref_step(q, a):
    begin, pend = q
    if a == "N":
        return (False, False), (["S"] if pend else []) + ["N"]
    return (begin, pend or not begin), []


REF_INIT = (True, False)


class Mismatch(Exception):
    pass


def apply_events(out, events, cur_cls):
    popped = None
    for e in events:
        if e[0] not in ("push", "pop"):
            continue
        t = token(e)
        if t == ("pop",):
            if not out:
                continue  # pop on an empty string is a no-op (String::pop returns None)
            popped = out.pop()
        elif t[0] == "popped":
            # the character just popped is pushed back
            out.append(popped if popped is not None and popped == t[1] else "?popped:%s" % t[1])
        elif t[0] == "cur":
            out.append(cur_cls if t[1] == cur_cls else "?%s" % t[1])
        elif t[0] == "const":
            out.append(t[1])
        elif t[0].startswith("old"):
            out.append("old:" + t[1])
        else:
            raise Mismatch("unknown output event %r" % (e,))
    return out


def impl_outputs(scan, rebuilds, word):
    """Denotation of the composed implementation on a class word (used for witnesses and samples)."""
    t = scan.initial
    q = t.target
    res = t.result
    split = None
    if q is not None:
        for i, a in enumerate(list(word) + [au.END]):
            t = scan.delta[(q, a)]
            if t.target is None:
                res = t.result
                if res[0] == "Some":
                    if res[1] != "boff":
                        raise Mismatch("scan returns a %s, not the byte offset of a character" % (res[1],))
                    n_read = i if a == au.END else i + 1
                    split = n_read - 1 - res[2]
                break
            q = t.target
    if res == ("None",):
        return list(word)
    if split is None or split < 0:
        raise Mismatch("scan result %r" % (res,))
    prefix = list(word[:split])
    pl_ = "EMPTY" if not prefix else prefix[-1]
    if pl_ == "Z":
        raise Mismatch("prefix ends with a non-ASCII space: the scan did not stop at the first one")
    aut = rebuilds[pl_]
    out = list(prefix)
    tt = aut.initial
    apply_events(out, tt.events, None)
    rq = tt.target
    for a in list(word[split:]) + [au.END]:
        tt = aut.delta[(rq, a)]
        apply_events(out, tt.events, a if a != au.END else None)
        if tt.target is None:
            if tt.result != ("Ok", "buffer"):
                raise Mismatch("rebuild returns %r" % (tt.result,))
            break
        rq = tt.target
    return out


def ref_outputs(word):
    q = REF_INIT
    out = []
    for a in word:
        q, o = ref_step(q, a)
        out += o
    return out


def compare_all(scan, rebuilds):
    """Exhaustive comparison over the product of (scan state, two last letters, rebuild state, reference
    state): the outputs of implementation and reference are compared on every word that reaches a new
    product state plus every one-letter extension, which covers all words because both machines are
    deterministic and their future behaviour depends only on the product state and a bounded output tail."""
    # BFS over abstract product states; each is represented by its shortest word
    def key_of(word):
        # implementation side
        t = scan.initial
        q = t.target
        phase = ("A", q)
        split = None
        rq = None
        pl_ = None
        for i, a in enumerate(word):
            if phase[0] == "A":
                t = scan.delta[(phase[1], a)]
                if t.target is None:
                    res = t.result
                    if res[0] == "Some" and res[1] == "boff":
                        split = i - res[2]
                        prefix = word[:split]
                        pl_ = "EMPTY" if not prefix else prefix[-1]
                        if pl_ == "Z" or split < 0:
                            return ("bad",)
                        aut = rebuilds[pl_]
                        rq = aut.initial.target
                        for b_ in word[split : i + 1]:
                            rq = aut.delta[(rq, b_)].target
                        phase = ("B", pl_, rq)
                    else:
                        phase = ("R", res)
                else:
                    phase = ("A", t.target)
            elif phase[0] == "B":
                rq = rebuilds[phase[1]].delta[(phase[2], a)].target
                phase = ("B", phase[1], rq)
        rq_ = REF_INIT
        for a in word:
            rq_, _ = ref_step(rq_, a)
        tail = tuple(word[-2:])
        io, ro = impl_outputs(scan, rebuilds, word), ref_outputs(word)
        # output tails relative to the common prefix (bounded lag)
        k = 0
        while k < len(io) and k < len(ro) and io[k] == ro[k]:
            k += 1
        return (phase, rq_, tail, tuple(io[k:]), tuple(ro[k:]), tuple(io[-2:]), tuple(ro[-2:]))

    seen = {}
    dq = collections.deque([()])
    seen[key_of(())] = ()
    checked = 0
    while dq:
        w = dq.popleft()
        for a in ALPHA:
            w2 = w + (a,)
            try:
                io, ro = impl_outputs(scan, rebuilds, w2), ref_outputs(w2)
            except Mismatch as e:
                return (list(w2), "implementation: %s" % e, None), checked, len(seen)
            checked += 1
            if io != ro:
                return (list(w2), io, ro), checked, len(seen)
            k = key_of(w2)
            if len(k) > 3 and (len(k[3]) > 3 or len(k[4]) > 3):
                return (list(w2), "output lag exceeds 3 (analysis-error)", None), checked, len(seen)
            if k not in seen:
                seen[k] = w2
                dq.append(w2)
    return None, checked, len(seen)


def run(tier):
    rep = Report("C12", tier, __doc__)
    prog = Program()
    res = tablecheck.get(prog)
    tablecheck.report_tables(rep, res, {ts.P + "common::SPACE_SEPARATOR"}, rule="L5")
    common.lookup_sites(prog, rep)
    # is_space_separator is exactly membership in the Zs table (L4); is_non_ascii_space binds to it and to SPACE
    l4.check_lookup_predicate(prog, rep, COMMON + "is_space_separator", ts.P + "common::SPACE_SEPARATOR")
    nas = prog.body(COMMON + "is_non_ascii_space")
    if nas is None:
        rep.ob("password-rule", "is_non_ascii_space", False, "not found")
    else:
        w = fcd.FcdWorld(prog, ALPHA, space_oracles(), const_eq={SPACE: {"S"}})
        m = ip.Machine(prog, w)
        got = {}
        try:
            for cls in ALPHA:
                outs = m.run(m.start(nas.key, [au.ch(0, cls)]))
                got[cls] = bool(outs[0].value.v) if len(outs) == 1 and isinstance(outs[0].value, I) else None
        except AnalysisError as e:
            rep.analysis_error("password-rule", "is_non_ascii_space", e, nas.where())
        rep.ob("password-rule", "is_non_ascii_space = Zs \\ {U+0020}", got == {"N": False, "S": False, "Z": True}, "per class: %s" % got, nas.where())
    password_rule(prog, rep)
    ex = extract_nickname(prog, rep)
    if ex is not None:
        scan, rebuilds = ex
        rep.extra["scan_states"] = scan.nstates()
        rep.extra["rebuild_states"] = {k: v.nstates() for k, v in rebuilds.items()}
        rep.extra["states"] = scan.nstates() + sum(v.nstates() for v in rebuilds.values())
        rep.extra["transitions"] = len(scan.delta) + sum(len(v.delta) for v in rebuilds.values())
        try:
            wit, checked, nprod = compare_all(scan, rebuilds)
        except (Mismatch, KeyError) as e:
            wit, checked, nprod = ([], "analysis-error: %r" % (e,), None), 0, 0
        rep.extra["product_states"] = nprod
        rep.extra["words_compared"] = checked
        rep.extra["exhaustive"] = True
        if wit is None:
            rep.ob("nickname-rule", "trim_spaces = RFC 8266 §2.3 mapping on every class word", True, "%d product states, %d words compared" % (nprod, checked), sample=True)
        else:
            w_, io, ro = wit
            rep.ob("nickname-rule", "trim_spaces = RFC 8266 §2.3 mapping on every class word", False, "shortest distinguishing class word %s: implementation yields %s, RFC %s" % (w_, io, ro), key="nickname-rule|word|%s" % "".join(w_), sample=True)
        rep.floor("scan DFA states", scan.nstates(), 3)
        samples = []
        for w_ in (("N", "S", "N"), ("S", "N"), ("N", "Z", "N"), ("N", "S", "S", "N", "S"), ("Z", "Z", "N", "Z")):
            try:
                samples.append(("".join(w_), "".join(impl_outputs(scan, rebuilds, w_)), "".join(ref_outputs(w_))))
            except Mismatch as e:
                samples.append(("".join(w_), "mismatch: %s" % e, "".join(ref_outputs(w_))))
        rep.sample({"word → implementation, RFC": samples})
    rep.assumptions += ["String::push/pop, str::find, chars/char_indices as documented", "byte-offset provenance of the split position is C01's B-OFFSET obligation"]
    return rep
