"""C18 — Codepoints entries compare consistently with code points.

Rule: abstract interpretation of the hand-written comparison methods over the *order-type domain*.
Side condition (checked first): in every body reachable from the methods, the values `cp`, `c`,
`start`, `end` flow only into comparisons (no arithmetic, no casts, no unlisted callee), so each
method's result is a function of the relative order of those values alone. The 11 order types
(Single: cp<c, cp=c, cp>c; Range start<end: 5 positions of cp; Range start=end: 3 positions) are
then enumerated exhaustively, each by one representative, and every method must return what the
trichotomy `Less iff end<cp, Greater iff start>cp, else Equal` dictates, in both directions."""
import re

from .. import interp as ip
from ..mir import Program
from ..report import Report
from . import common

CP = "precis_core::Codepoints"

ORDER_TYPES = []
for c, cps in ((10, (5, 10, 15)),):
    for cp in cps:
        ORDER_TYPES.append(("Single(c) cp%sc" % ("<" if cp < c else "=" if cp == c else ">"), ("single", c), cp))
for cp, nm in ((5, "cp<start"), (10, "cp=start"), (15, "start<cp<end"), (20, "cp=end"), (25, "cp>end")):
    ORDER_TYPES.append(("Range(start<end) %s" % nm, ("range", 10, 20), cp))
for cp, nm in ((5, "cp<start"), (10, "cp=start=end"), (15, "cp>end")):
    ORDER_TYPES.append(("Range(start=end) %s" % nm, ("range", 10, 10), cp))

ARITH = {"Add", "Sub", "Mul", "Div", "Rem", "BitAnd", "BitOr", "BitXor", "Shl", "Shr", "Offset"}

ALLOWED_CALLEES = {
    "core::ops::range::RangeInclusive::<Idx>::contains",
    "core::ops::range::RangeInclusive::<Idx>::start",
    "core::ops::range::RangeInclusive::<Idx>::end",
    "core::cmp::impls::<impl core::cmp::Ord for u32>::cmp",
}
ALLOWED_PREFIX = (
    "core::cmp::impls::<impl core::cmp::PartialOrd<&B> for &A>::",
    "core::cmp::impls::<impl core::cmp::PartialEq<&B> for &A>::",
    "core::cmp::impls::<impl core::cmp::PartialOrd for u32>::",
    "core::cmp::impls::<impl core::cmp::PartialEq for u32>::",
)


INTEGER = re.compile(r"\b([ui](8|16|32|64|128|size)|f32|f64|char)\b|\?")


def operand_ty(b, o):
    if o["k"] in ("copy", "move"):
        return b.locals[o["place"]["l"]]["ty"]  # the base local's type: a superset of what a projection can reach
    return str(o.get("ty", "?"))


def entry_value(spec):
    if spec[0] == "single":
        return ip.Adt(CP, 0, (ip.I(spec[1], "u32"),))
    return ip.Adt(CP, 1, (ip.Adt("core::ops::range::RangeInclusive", 0, (ip.I(spec[1], "u32"), ip.I(spec[2], "u32"), ip.boolean(False))),))


def rel_of(spec, cp):
    lo, hi = (spec[1], spec[1]) if spec[0] == "single" else (spec[1], spec[2])
    if hi < cp:
        return -1  # entry Less than cp
    if lo > cp:
        return 1
    return 0


def expected(method, mirrored, rel):
    r = -rel if mirrored else rel  # relation of the left operand to the right operand
    if method == "partial_cmp":
        return ("some", r)
    if method == "eq":
        return rel == 0
    return {"lt": r < 0, "gt": r > 0, "le": r <= 0, "ge": r >= 0}[method]


def decode(v):
    if isinstance(v, ip.I) and v.ty == "bool":
        return bool(v.v)
    if isinstance(v, ip.Adt) and v.ty == ip.OPTION:
        if v.variant == 0:
            return ("none",)
        o = v.fields[0]
        if isinstance(o, ip.Adt) and o.ty == ip.ORDERING:
            return ("some", o.variant - 1)
    return ("?", repr(v))


def find_methods(prog):
    """(method, mirrored) -> body, located by impl trait/self type, not by source position."""
    out = {}
    for b in prog.by_crate["precis_core"]:
        d = b.d
        if d["kind"] != "fn" or d["impl_trait"] not in ("core::cmp::PartialOrd", "core::cmp::PartialEq"):
            continue
        name = b.id.rsplit("::", 1)[1]
        f = prog.fns.get(b.id)
        if f is None:
            continue
        ins = f["inputs"]
        if d["impl_self"] == CP and len(ins) == 2 and ins[1] == "&u32":
            out[(name, False)] = b
        elif d["impl_self"] == "u32" and len(ins) == 2 and ins[1] == "&" + CP:
            out[(name, True)] = b
    return out


def run(tier):
    rep = Report("C18", tier, __doc__)
    prog = Program()
    methods = find_methods(prog)
    want = [(m, mir) for mir in (False, True) for m in ("eq", "partial_cmp", "lt", "le", "gt", "ge")]
    defaulted = []
    for w in want:
        if w[0] in ("lt", "le", "gt", "ge") and w not in methods and ("partial_cmp", w[1]) in methods:
            # not overridden: the trait's provided method, defined by std in terms of partial_cmp
            # (lt = Some(Less), le = Some(Less | Equal), gt = Some(Greater), ge = Some(Greater | Equal))
            defaulted.append(w)
            continue
        rep.ob("method-present", "%s%s" % (w[0], " (u32 on the left)" if w[1] else ""), w in methods, "comparison method not found in precis-core: neither written by hand nor derivable from a hand-written partial_cmp")
    rep.extra["defaulted_methods"] = ["%s%s" % (w[0], " (u32 on the left)" if w[1] else "") for w in defaulted]
    # `ne` must stay the trait default (= !eq): no impl item named ne
    for (name, mir), b in methods.items():
        rep.ob("no-override", "ne/%s" % ("u32" if mir else "Codepoints"), name != "ne", "ne overridden; not covered by the order-type table", b.where())
    # ---- side condition: order invariance of everything reachable
    roots = [b.key for b in methods.values()]
    reach = prog.reachable(roots, crates=("precis_core",))
    n_sites = 0
    for k in reach:
        b = prog.bodies[k]
        rep.fn(k)
        for bl in b.blocks:
            if bl["cleanup"]:
                continue
            for st in bl["stmts"]:
                if st["k"] != "assign":
                    continue
                rv = st["rv"]
                if rv["k"] == "binop" and rv["op"].replace("WithOverflow", "").replace("Unchecked", "") in ARITH:
                    rep.ob("order-invariance", "%s arithmetic %s" % (k, rv["op"]), False, "arithmetic on a compared value: result no longer a function of the order type", "%s:%d" % (st["span"]["file"], st["span"]["line"]))
                if rv["k"] == "cast" and rv["kind"] == "IntToInt":
                    rep.ob("order-invariance", "%s cast" % k, False, "integer cast on a compared value", "%s:%d" % (st["span"]["file"], st["span"]["line"]))
            t = bl["term"]
            if t["k"] == "call":
                n_sites += 1
                c = t["callee"]
                p = c["path"] if c else "<indirect>"
                okc = c is not None and (p in ALLOWED_CALLEES or p.startswith(ALLOWED_PREFIX) or (c["resolved"] and prog.is_ws(p)))
                if c is not None and not okc:
                    # a callee that is handed no integer at all (Option<Ordering>::map(Ordering::reverse), bool::then, ...)
                    # cannot compute with a compared value
                    okc = all(not INTEGER.search(operand_ty(b, a)) for a in t["args"])
                rep.ob("order-invariance", "%s calls %s" % (k, p), okc, "callee outside the comparison whitelist", "%s:%d" % (t["span"]["file"], t["span"]["line"]))
    rep.analysed["call_sites"] = n_sites
    rep.floor("comparison methods (hand-written + provided)", len(methods) + len(defaulted), 12)
    rep.floor("call sites in comparison methods", n_sites, 4)

    # ---- exhaustive enumeration of order types
    world = ip.World(prog)
    m = ip.Machine(prog, world)
    n = 0
    table = {}
    for (name, mirrored), b in sorted(methods.items(), key=lambda x: (x[0][1], x[0][0])):
        if name == "ne":
            continue
        for label, spec, cp in ORDER_TYPES:
            e = ip.Ref(("val", entry_value(spec)))
            x = ip.Ref(("val", ip.I(cp, "u32")))
            args = [x, e] if mirrored else [e, x]
            inst = "%s%s @ %s" % ("u32::" if mirrored else "Codepoints::", name, label)
            try:
                outs = m.run(m.start(b.key, args))
            except ip.AnalysisError as ex:
                rep.analysis_error("order-type-table", inst, ex, b.where())
                continue
            n += 1
            if len(outs) != 1 or outs[0].kind != "return":
                rep.ob("order-type-table", inst, False, "expected one returning path, got %s" % [(o.kind, o.info) for o in outs], b.where())
                continue
            got = decode(outs[0].value)
            exp = expected(name, mirrored, rel_of(spec, cp))
            table[inst] = got
            rep.ob("order-type-table", inst, got == exp, "returns %r, trichotomy requires %r" % (got, exp), b.where(), sample=(n % 23 == 1))
    # provided methods: their value is std's function of partial_cmp's, on every order type
    DEFAULT = {"lt": lambda r: r == ("some", -1), "le": lambda r: r in (("some", -1), ("some", 0)), "gt": lambda r: r == ("some", 1), "ge": lambda r: r in (("some", 1), ("some", 0))}
    for name, mirrored in defaulted:
        side = "u32::" if mirrored else "Codepoints::"
        for label, spec, cp in ORDER_TYPES:
            pc = table.get("%spartial_cmp @ %s" % (side, label))
            if pc is None:
                continue
            n += 1
            got = DEFAULT[name](pc)
            exp = expected(name, mirrored, rel_of(spec, cp))
            inst = "%s%s (provided by PartialOrd from partial_cmp) @ %s" % (side, name, label)
            table["%s%s @ %s" % (side, name, label)] = got
            rep.ob("order-type-table", inst, got == exp, "partial_cmp returns %r, so %s is %r; trichotomy requires %r" % (pc, name, got, exp), sample=(n % 23 == 1))
    rep.extra["exhaustive"] = True
    rep.extra["order_types"] = len(ORDER_TYPES)
    rep.extra["methods"] = len(methods)
    rep.floor("order-type evaluations", n, 12 * 11)
    # trichotomy itself (exactly one of lt / eq / gt) per order type, from the extracted table
    for label, spec, cp in ORDER_TYPES:
        for side in ("Codepoints::", "u32::"):
            vals = [table.get("%s%s @ %s" % (side, mth, label)) for mth in ("lt", "eq", "gt")]
            if None in vals:
                continue
            rep.ob("trichotomy", "%s %s" % (side, label), sum(1 for v in vals if v is True) == 1, "lt/eq/gt = %r" % (vals,))
    common.lookup_sites(prog, rep)
    rep.assumptions += [
        "core's comparison operators on u32 and RangeInclusive::{start,end,contains} behave as documented (model table)",
        "entries satisfy start <= end (the property's own precondition; table order is L2, checked with the tables in C15)",
    ]
    return rep
