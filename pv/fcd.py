"""Copy-on-first-change discipline (C10, C11, C12 password rule).

The four mapping functions share one idiom:
    match s.find(TRIGGER) { None => Ok(s), Some(pos) => { copy s[..pos]; for c in s[pos..].chars() { MAP(c) } } }
Over a finite alphabet of character classes (supplied by the rule, each class fixing the answers of the
oracles the code may ask about a character) this module extracts: the set TRIG of classes the trigger
fires on; that the None branch returns the input itself; that the prefix/suffix are cut at the very
position find returned; and the loop transducer (state → per-letter output actions). The function's
denotation on every string then is:  w if no letter of w is in TRIG, else
(letters before the first TRIG letter, verbatim) ++ transducer(rest)."""
from . import automaton as au
from . import interp as ip
from .interp import AnalysisError, Adt, I, Opq, Ref, Str, Sym, Top
from .models import deref_all


class ClassRefinement(AnalysisError):
    """The code distinguishes characters more finely than the rule's alphabet: by itself a deviation
    from a rule that is stated over those classes."""


class DisciplineError(AnalysisError):
    """The copy-on-first-change idiom itself is broken (prefix/suffix split, buffer start)."""


def is_popped(v):
    return isinstance(v, Sym) and isinstance(v.name, tuple) and len(v.name) == 2 and v.name[0] == "popped"


class FcdWorld(au.CutWorld):
    def __init__(self, prog, alphabet, class_oracles, const_eq=None, extra_oracles=None):
        """class_oracles: callee path -> f(cls, sym) -> abstract value, for calls taking one label character."""
        au.CutWorld.__init__(self, prog, ("suffix",))
        self.alphabet = list(alphabet)
        self.class_oracles = class_oracles
        self.const_eq = const_eq or {}  # char constant value -> set of classes equal to it
        self.trig = None
        self.extra = extra_oracles or {}
        self.notes = []

    # ---- oracles about one character
    def call(self, m, st, callee, args, term):
        p = callee["path"]
        if p == "pv::fsplit::step":
            return self.fsplit_step(m, st, args[0], deref_all(m, st, args[1]))
        if p in self.class_oracles:
            c = args[0]
            if isinstance(c, Ref):
                c = m.load(st, c.loc)
            if not au.is_ch(c):
                raise AnalysisError("%s is asked about %r, which is not a character of the string" % (p, c))
            return self.class_oracles[p](c.name[2], c)
        if p in self.extra:
            return self.extra[p](self, m, st, callee, args, term)
        first = args[0] if args else None
        if isinstance(first, Ref):
            try:
                first = m.load(st, first.loc)
            except AnalysisError:
                first = None
        if first is not None and (au.is_ch(first) or is_popped(first)) and not self.prog.is_ws(p) and p.endswith("::<impl char>::len_utf8"):
            # a question about the character's encoded size, asked to compute a byte position: not a question about
            # what the character *is* — the discipline just does not follow hand-made position arithmetic
            raise AnalysisError("byte positions are computed from char::len_utf8 by hand: the first-change discipline follows positions returned by find / char_indices only")
        if first is not None and (au.is_ch(first) or is_popped(first)) and not self.prog.is_ws(p) and "::<impl char>::" in p:
            raise ClassRefinement("the code asks %s about a character: the answer is not determined by the character classes %s the rule is stated over" % (p, self.alphabet))
        return au.CutWorld.call(self, m, st, callee, args, term)

    def compare_hook(self, st, op, a, b):
        if (au.is_ch(a) or is_popped(a)) and isinstance(b, I) and op in ("Eq", "Ne"):
            classes = self.const_eq.get(b.v)
            if classes is None:
                raise ClassRefinement("a character is compared with the constant U+%04X: the result then depends on more than the character classes %s the rule is stated over" % (b.v, self.alphabet))
            r = a.name[-1] in classes
            return r if op == "Eq" else not r
        if au.is_ch(a) or au.is_ch(b):
            other = b if au.is_ch(a) else a
            raise ClassRefinement("a character is compared (%s) with %s: the result then depends on more than the character classes %s the rule is stated over" % (op, ("U+%04X" % other.v) if isinstance(other, I) else "another value", self.alphabet))
        return None

    # ---- find / slicing / buffer
    def eval_pred(self, m, st, pred, cls, wrap=None):
        wrap = wrap or (lambda c: c)
        sub = ip.State()
        sub.nuid = 10_000
        v = pred
        if isinstance(v, Ref):
            v = m.load(st, v.loc)
        if isinstance(v, ip.Fn):
            body = self.prog.callee_body(m.fninfo[v.full])
            if body is None or body.ext or v.path in self.class_oracles:
                # an external predicate (char::is_uppercase ...): answered by the class oracle
                h = self.class_oracles.get(v.path)
                if h is None:
                    raise ClassRefinement("the trigger predicate is %s: its answer is not determined by the character classes %s the rule is stated over" % (v.path, self.alphabet))
                return h(cls, au.ch(0, cls))
            fr = ip.Frame(body, sub.fresh())
            fr.locals[1] = wrap(au.ch(0, cls))
        elif isinstance(v, ip.Clo):
            body = self.prog.body(v.defpath)
            fr = ip.Frame(body, sub.fresh())
            fr.locals[1] = Ref(("val", v))
            fr.locals[2] = wrap(au.ch(0, cls))
        else:
            raise AnalysisError("trigger predicate is %r" % (v,))
        sub.frames.append(fr)
        outs = [o for o in m.run(sub) if o.kind != "closed"]
        if len(outs) != 1 or outs[0].kind != "return":
            raise AnalysisError("trigger predicate is not a function of the character class (%d outcomes)" % len(outs))
        return outs[0].value

    def iter_find(self, m, st, it, pred):
        """`s.chars().find(p)` / `s.char_indices().find(|&(_, c)| p(c))`: the same trigger search, yielding the
        character / the (byte position, character) pair."""
        it = deref_all(m, st, it)
        if not (isinstance(it, Opq) and it.kind in ("chars", "char_indices") and isinstance(it.data[0], Str) and it.data[0].tag == ("input",)):
            return None
        trigger_char = Sym(("trigger-char",), "char")
        if it.kind == "char_indices":
            r = self.str_find(m, st, it.data[0], pred, wrap=lambda c: Ref(("val", ip.Tup((Sym(("some-pos",), "usize"), c)))))
            if isinstance(r, Adt) and r.variant == 1:
                return ip.some(ip.Tup((r.fields[0], trigger_char)))
            return r
        r = self.str_find(m, st, it.data[0], pred, wrap=lambda c: Ref(("val", c)))
        if isinstance(r, Adt) and r.variant == 1:
            return ip.some(trigger_char)
        return r

    def str_find(self, m, st, s, pred, wrap=None):
        if not (isinstance(s, Str) and s.tag == ("input",)):
            raise AnalysisError("find on %r, not on the rule's own argument" % (s,))
        if self.trig is None:
            trig = set()
            for cls in self.alphabet:
                v = self.eval_pred(m, st, pred, cls, wrap)
                if not isinstance(v, I):
                    raise AnalysisError("trigger predicate yields %r for class %s" % (v, cls))
                if v.v:
                    trig.add(cls)
            self.trig = trig
        sc = st.ext.get("scenario")
        if sc == "none":
            return ip.none()
        return ip.some(Sym(("pos",), "usize"))

    def str_slice(self, m, st, s, rng, callee):
        if not (isinstance(s, Str) and s.tag == ("input",)):
            raise AnalysisError("slice of %r, not of the rule's own argument" % (s,))
        r = rng if isinstance(rng, Adt) else deref_all(m, st, rng)
        kind = r.ty.rsplit("::", 1)[1]
        b = r.fields[0] if r.fields else None
        if getattr(self, "single_pass", False):
            # one pass over the whole input: the prefix is everything before the *current* character
            if kind == "RangeTo" and isinstance(b, Sym) and b.name == ("boff", 0):
                return Str(("prefix",))
            raise DisciplineError("the copied prefix is s[..%s], not everything before the character that triggers the mapping" % (("(position of a character %d step(s) back)" % b.name[1]) if isinstance(b, Sym) and isinstance(b.name, tuple) and b.name[0] == "boff" else repr(b)))
        if not (isinstance(b, Sym) and b.name == ("pos",)):
            raise DisciplineError("slice bound %s is not the position returned by find: the copied prefix and the mapped suffix must meet exactly there" % (("pos%+d" % b.name[2]) if isinstance(b, Sym) and isinstance(b.name, tuple) and b.name[0] == "lin" else repr(b)))
        if kind == "RangeTo":
            return Str(("prefix",))
        if kind == "RangeFrom":
            return Str(("suffix",))
        raise AnalysisError("slice with %s" % r.ty)

    def str_contains(self, m, st, s, pred):
        r = self.str_find(m, st, s, pred)
        return ip.boolean(isinstance(r, Adt) and r.variant == 1)

    def str_replace(self, m, st, s, pred, to):
        """input.replace(p, lit) after contains(p) held: every character p rejects is copied as it is — so is the
        whole prefix before the first match — and the rest is the loop  if p(c) { push_str(lit) } else { push(c) }."""
        if not (isinstance(s, Str) and s.tag == ("input",)):
            raise AnalysisError("replace on %r, not on the rule's own argument" % (s,))
        if st.ext.get("scenario") == "none" or self.trig is None:
            raise AnalysisError("str::replace that is not guarded by a search for the same pattern")
        trig = set()
        for cls in self.alphabet:
            v = self.eval_pred(m, st, pred, cls)
            if not isinstance(v, I):
                raise AnalysisError("replace pattern yields %r for class %s" % (v, cls))
            if v.v:
                trig.add(cls)
        if trig != self.trig:
            raise AnalysisError("str::replace rewrites classes %s but is guarded by a search for classes %s" % (sorted(trig), sorted(self.trig)))
        body = self.prog.bodies["pv::synth::str_replace_pred"]
        return (ip.INLINE, body, [Opq("buf", ("prefix",)), Opq("chars", (Str(("suffix",)),)), pred, to], None)

    # ---- str::split(pred) read lazily: a run is handed out before its characters are read; they are read — one
    # cut point each — when the run is used (push_str, is_empty). Sound for the linear use the discipline
    # allows: a run token is only valid until the iterator moves on (serial numbers), anything else is an error.
    def _pred_classes(self, m, st, pred):
        out = set()
        for cls in self.alphabet:
            v = self.eval_pred(m, st, pred, cls)
            if not isinstance(v, I):
                raise AnalysisError("split pattern yields %r for class %s" % (v, cls))
            if v.v:
                out.add(cls)
        return tuple(sorted(out))

    def str_split(self, m, st, s, pred, name):
        delim = self._pred_classes(m, st, pred)
        term = name == "split_terminator"
        if isinstance(s, Str) and s.tag == ("input",):
            if st.ext.get("scenario") == "none" or self.trig is None:
                raise AnalysisError("str::%s over the whole argument that is not guarded by a search for the same pattern" % name)
            if set(delim) != set(self.trig):
                raise AnalysisError("str::%s cuts at classes %s but is guarded by a search for classes %s" % (name, list(delim), sorted(self.trig)))
            state = "first"  # the first run is everything before the first match: the unchanged prefix
        elif isinstance(s, Str) and s.tag == ("suffix",):
            state = "delim"  # a run starts right at the suffix's first character
        else:
            raise AnalysisError("str::%s on %r" % (name, s))
        return Opq("fsplit", (Opq("chars", (Str(("suffix",)),)), pred, state, 0, None, term, delim))

    def _fsplit_store(self, m, st, ref, sp, **kw):
        f = dict(zip(("chars", "pred", "state", "serial", "peek", "term", "delim"), sp.data))
        f.update(kw)
        new = Opq("fsplit", tuple(f[k] for k in ("chars", "pred", "state", "serial", "peek", "term", "delim")))
        m.store(st, ref.loc, new)
        return new

    def _fsplit_fetch(self, m, st, ref, sp):
        """Next character of the split's input: the buffered one, or a read (a cut point). Returns
        (value | 'END' | Outcome, split value with the buffer emptied)."""
        peek = sp.data[4]
        if peek is not None:
            return peek, self._fsplit_store(m, st, ref, sp, peek=None)
        r = self.chars_next(m, st, sp.data[0])
        if isinstance(r, ip.Outcome):
            return r, sp
        # (the read aged every character the state holds: reload the iterator value)
        sp = m.load(st, ref.loc)
        if r.variant == 0:
            return "END", sp
        return r.fields[0], sp

    def split_next(self, m, st, ref, sp):
        state, serial, term, delim = sp.data[2], sp.data[3], sp.data[5], sp.data[6]
        if state == "first":
            self._fsplit_store(m, st, ref, sp, state="expect-delim")
            return ip.some(Ref(("val", Str(("prefix",)))))
        if state == "ended":
            return ip.none()
        if state == "run":
            raise AnalysisError("a run of the split is dropped without being read: the analysis reads a run's characters where the run is used")
        if state == "expect-delim":
            # positioned at the match that ended the prefix: it is consumed
            c, sp = self._fsplit_fetch(m, st, ref, sp)
            if isinstance(c, ip.Outcome):
                return c
            if c == "END":
                self._fsplit_store(m, st, ref, sp, state="ended")
                return ip.none()
            if c.name[2] in delim:
                sp = self._fsplit_store(m, st, ref, sp, state="delim")
            else:
                sp = self._fsplit_store(m, st, ref, sp, state="delim", peek=c)
        # state "delim": another run follows (possibly empty)
        if term and sp.data[4] is None:
            c, sp = self._fsplit_fetch(m, st, ref, sp)
            if isinstance(c, ip.Outcome):
                return c
            if c == "END":
                self._fsplit_store(m, st, ref, sp, state="ended")
                return ip.none()
            sp = self._fsplit_store(m, st, ref, sp, peek=c)
        new_serial = self._fresh_serial(m, st, ref)
        self._fsplit_store(m, st, ref, sp, state="run", serial=new_serial)
        return ip.some(Opq("lazy-run", (ref, new_serial)))

    def _fresh_serial(self, m, st, ref):
        """The smallest serial no run token that can still be used carries (tokens in dead locals cannot be
        used again, so the numbers stay small and the automaton finite)."""
        used = set()

        def scan(v, depth=0):
            if depth > 6:
                return
            if isinstance(v, Opq):
                if v.kind == "lazy-run" and v.data[0] == ref:
                    used.add(v.data[1])
                elif isinstance(v.data, tuple):
                    for x in v.data:
                        scan(x, depth + 1)
            elif isinstance(v, (Adt, ip.Tup)):
                for x in v.fields:
                    scan(x, depth + 1)
            elif isinstance(v, Ref) and v.loc[0] in ("val", "valp"):
                scan(v.loc[1], depth + 1)
            elif isinstance(v, ip.Clo):
                for x in v.captures:
                    scan(x, depth + 1)

        live = au.live_locals(st)
        for fr in st.frames:
            for l, v in fr.locals.items():
                if l in live.get(fr.uid, ()):
                    scan(v)
        n = 1
        while n in used:
            n += 1
        return n

    def _run_split(self, m, st, run):
        ref, serial = run.data
        sp = m.load(st, ref.loc)
        if not (isinstance(sp, Opq) and sp.kind == "fsplit"):
            raise AnalysisError("run of a split whose iterator is gone")
        if sp.data[3] != serial:
            raise AnalysisError("a run of the split is used after the iterator moved on: the analysis reads a run's characters where the run is used")
        return ref, sp

    def fsplit_step(self, m, st, bufref, run):
        """One character of `buf.push_str(run)`: true while the run goes on."""
        ref, sp = self._run_split(m, st, run)
        if sp.data[2] != "run":
            return ip.boolean(False)  # already known to be finished (is_empty said so)
        c, sp = self._fsplit_fetch(m, st, ref, sp)
        if isinstance(c, ip.Outcome):
            return c
        if c == "END":
            self._fsplit_store(m, st, ref, sp, state="ended")
            return ip.boolean(False)
        if c.name[2] in sp.data[6]:
            self._fsplit_store(m, st, ref, sp, state="delim")
            return ip.boolean(False)
        self.buf_push(m, st, bufref, c)
        return ip.boolean(True)

    def run_is_empty(self, m, st, run):
        ref, sp = self._run_split(m, st, run)
        if sp.data[2] != "run":
            return ip.boolean(True)
        if sp.data[4] is not None:
            return ip.boolean(False)
        c, sp = self._fsplit_fetch(m, st, ref, sp)
        if isinstance(c, ip.Outcome):
            return c
        if c == "END":
            self._fsplit_store(m, st, ref, sp, state="ended")
            return ip.boolean(True)
        if c.name[2] in sp.data[6]:
            self._fsplit_store(m, st, ref, sp, state="delim")
            return ip.boolean(True)
        self._fsplit_store(m, st, ref, sp, peek=c)
        return ip.boolean(False)

    def str_split_off(self, m, st, s, at):
        """input.split_off(pos): the unchanged prefix stays in the input's own buffer, the rest is what gets mapped."""
        head, tail = self.split_at(m, st, s, at).fields
        return Opq("buf", ("prefix",)), tail.loc[1]

    def replace_range(self, m, st, s, rng, content, callee):
        """input.replace_range(pos.., mapped rest): the unchanged prefix stays where it is, in the input's own
        buffer, and the mapped rest replaces everything from find's position on."""
        if self.str_slice(m, st, s, rng, callee) != Str(("suffix",)):
            raise DisciplineError("replace_range replaces the unchanged prefix: only the part of the string from find's position on may be rewritten")
        if not (isinstance(content, Str) and content.tag == ("mapped-suffix",)):
            raise DisciplineError("the rest of the string is replaced by %r, not by its mapped form" % (content,))
        return Opq("buf", ("prefix",))

    def str_variant(self, st, v, rv):
        fv = getattr(self, "fixed_variant", None)
        if fv is not None:
            return fv
        return au.CutWorld.str_variant(self, st, v, rv)

    def split_at(self, m, st, s, mid):
        if not (isinstance(s, Str) and s.tag == ("input",)):
            raise AnalysisError("split_at on %r, not on the rule's own argument" % (s,))
        if not (isinstance(mid, Sym) and mid.name == ("pos",)):
            raise DisciplineError("split position %s is not the position returned by find: the copied prefix and the mapped suffix must meet exactly there" % (("pos%+d" % mid.name[2]) if isinstance(mid, Sym) and isinstance(mid.name, tuple) and mid.name[0] == "lin" else repr(mid)))
        return ip.Tup((Ref(("val", Str(("prefix",)))), Ref(("val", Str(("suffix",))))))

    def skip_next(self, m, st, itref):
        it = m.load(st, itref.loc) if isinstance(itref, Ref) else itref
        n = it.data[1] if isinstance(it, Opq) and it.kind == "skip" else None
        if isinstance(n, Sym) and n.name == ("pos",):
            raise DisciplineError("the rest of the string is reached by skipping `pos` *characters* of the whole string, but `pos` is the *byte* offset returned by find: after a multi-byte character too many characters are skipped")
        raise AnalysisError("iteration over %r" % (it,))

    def new_buf(self, st, content):
        if isinstance(content, Str) and content.tag == ("lit", ""):
            return Opq("buf", ("empty",))  # String::new / with_capacity: the prefix must be appended first
        if not (isinstance(content, Str) and content.tag == ("prefix",)):
            raise DisciplineError("the output buffer is started from %r, not from the unchanged prefix s[..pos]" % (content,))
        return Opq("buf", ("prefix",))

    def buf_push_str(self, m, st, bufref, content):
        b = m.load(st, bufref.loc) if isinstance(bufref, Ref) else bufref
        if isinstance(b, Opq) and b.kind == "buf" and b.data == ("empty",) and isinstance(content, Str) and content.tag == ("prefix",) and isinstance(bufref, Ref):
            m.store(st, bufref.loc, Opq("buf", ("prefix",)))
            return ip.UNIT
        if isinstance(b, Opq) and b.kind == "buf" and b.data != ("empty",) and isinstance(content, Str) and isinstance(content.tag, tuple) and content.tag[0] == "lit" and isinstance(content.tag[1], str):
            # a literal appended to a started buffer: its characters, one by one
            for ch in content.tag[1]:
                self.buf_push(m, st, bufref, I(ord(ch), "char"))
            return ip.UNIT
        raise DisciplineError("push_str(%r) into %r: only the unchanged prefix may be copied wholesale, and first" % (content, b))

    def buf_content(self, st, buf):
        if isinstance(buf, Opq) and buf.kind == "buf" and buf.data in (("suffix-only",), ("empty",)):
            return Str(("mapped-suffix",))  # (an empty buffer is the mapped form of an empty rest)
        return Str(("bufcontent",))

    def concat(self, m, st, parts):
        """[a, b, ..].concat(): the only assembly accepted is unchanged prefix ++ mapped suffix."""
        tags = []
        for p_ in parts:
            v = deref_all(m, st, p_)
            if isinstance(v, Opq) and v.kind == "buf":
                v = self.buf_content(st, v)
            tags.append(v.tag if isinstance(v, Str) else repr(v))
        if tags == [("prefix",), ("mapped-suffix",)]:
            return Opq("buf", ("prefix",))
        raise DisciplineError("the result is assembled from %s: it must be the unchanged prefix s[..pos] followed by the mapped rest" % (tags,))

    def str_len(self, st, s):
        return Top("usize")

    def describe_char(self, v):
        if au.is_ch(v):
            return ("char", v.name[1], v.name[2])
        if is_popped(v):
            return ("popped", v.name[1])
        if isinstance(v, I) and v.ty == "char":
            return ("const", v.v)
        if isinstance(v, Sym) and isinstance(v.name, tuple) and v.name and v.name[0] in ("mapped", "lower-all", "lower-first"):
            return v.name
        raise AnalysisError("a value that is not a known character is pushed: %r" % (v,))

    def buf_push(self, m, st, bufref, chv):
        b = m.load(st, bufref.loc) if isinstance(bufref, Ref) else bufref
        if not (isinstance(b, Opq) and b.kind == "buf"):
            raise AnalysisError("push into %r" % (b,))
        if b.data == ("empty",) and isinstance(bufref, Ref):
            # a buffer that collects the mapped suffix on its own: fine as long as the result puts the unchanged
            # prefix in front of it (checked when the result is assembled / returned)
            m.store(st, bufref.loc, Opq("buf", ("suffix-only",)))
        elif b.data == ("empty",):
            raise DisciplineError("a character is pushed before the unchanged prefix s[..pos] was copied")
        d = self.describe_char(chv)
        st.emit(("push",) + d)
        if getattr(self, "track_last", False):
            st.ext["v:last"] = d
        return ip.UNIT

    def char_from_u32(self, m, st, v):
        if isinstance(v, Sym) and isinstance(v.name, tuple) and v.name and v.name[0] == "mapped":
            # every table value is a Unicode scalar value (checked on the folded table, C11)
            return ip.some(Sym(v.name, "char"))
        raise AnalysisError("char::from_u32 of %r" % (v,))


def result_desc(prog):
    def f(o):
        v = o.value
        if isinstance(v, Adt) and v.ty == ip.RESULT:
            x = v.fields[0]
            if v.variant == 0:
                if isinstance(x, Opq) and x.kind == "buf":
                    if x.data == ("suffix-only",):
                        return ("Ok", "mapped suffix without the unchanged prefix")
                    return ("Ok", "buffer")
                if isinstance(x, Str):
                    return ("Ok", x.tag)
                return ("Ok", repr(x))
            return ("Err", repr(x))
        return ("?", repr(v))

    return f


class _VariantDependent(Exception):
    """The function's paths differ with the Cow variant of its argument."""


def _letter_table(info, alphabet):
    per, q0, end_ev, end_res = letter_outputs(info["aut"], alphabet)
    return {a: (per[a][0], per[a][1] == q0, per[a][2]) for a in alphabet}, end_ev, end_res, behavioural_states(info["aut"], alphabet)


def analyse(prog, rep, rule, fn_key, world, args=None):
    """Returns dict(trig, none_result, aut) or None.
    A function that branches on the Cow variant of its argument (to reuse an owned buffer) is analysed once
    per variant; the two denotations must be the same, and then either stands for the function."""
    world.fixed_variant = None
    try:
        return _analyse_once(prog, rep, rule, fn_key, world, args)
    except _VariantDependent:
        pass
    infos = []
    for v in (0, 1):
        world.fixed_variant = v
        world.trig = None
        try:
            info = _analyse_once(prog, rep, rule, fn_key, world, args)
        finally:
            world.fixed_variant = None
        if info is None:
            return None
        infos.append(info)
    b = infos[0]["body"]
    diff = []
    if infos[0]["trig"] != infos[1]["trig"]:
        diff.append("the mapping is triggered by classes %s for a borrowed input and %s for an owned one" % (sorted(infos[0]["trig"]), sorted(infos[1]["trig"])))
    if (infos[0]["none_result"], infos[0]["none_events"]) != (infos[1]["none_result"], infos[1]["none_events"]):
        diff.append("without a trigger the result is %s (borrowed) / %s (owned)" % (infos[0]["none_result"], infos[1]["none_result"]))
    try:
        t0, t1 = _letter_table(infos[0], world.alphabet), _letter_table(infos[1], world.alphabet)
        if t0 != t1:
            for a in world.alphabet:
                if t0[0][a] != t1[0][a]:
                    diff.append("class %s is mapped to %s (borrowed) / %s (owned)" % (a, list(t0[0][a][0]), list(t1[0][a][0])))
            if t0[1:] != t1[1:]:
                diff.append("end of input / loop states differ: %s vs %s" % (t0[1:], t1[1:]))
    except AnalysisError as e:
        rep.analysis_error(rule, fn_key, e, b.where())
        return None
    rep.ob(rule, "a borrowed and an owned input are mapped alike", not diff, "; ".join(diff[:3]), b.where(), key="%s|cow-variant" % rule)
    if diff:
        return None
    infos[0]["variants"] = 2
    return infos[0]


def _analyse_once(prog, rep, rule, fn_key, world, args=None):
    b = prog.body(fn_key)
    if b is None:
        rep.ob(rule, fn_key, False, "function not found")
        return None
    rep.fn(fn_key)
    m = ip.Machine(prog, world)
    args = args or [Str(("input",))]
    try:
        st = m.start(fn_key, list(args))
        st.ext["scenario"] = "none"
        st.ext["letter"] = None
        outs = [o for o in m.run(st) if o.kind != "closed"]
        if len(outs) != 1 and world.fixed_variant is None and any("cow-variant" in repr(o.state.log) for o in outs):
            raise _VariantDependent()
        if len(outs) != 1 or outs[0].kind != "return":
            raise AnalysisError("the no-trigger branch has %d outcomes" % len(outs))
        none_res = result_desc(prog)(outs[0])
        none_events = [e for e in outs[0].state.events if e[0] == "push"]

        class Scen(type(world)):
            pass

        st_args = list(args)
        world2 = world
        # scenario "some": the loop automaton over the suffix
        orig_start = m.start

        def start(k, a):
            s = orig_start(k, a)
            s.ext["scenario"] = "some"
            return s

        m.start = start
        aut = au.extract(prog, world2, fn_key, st_args, world.alphabet, result_of=result_desc(prog))
        # the rebuilt part starts at the first trigger: only a trigger letter can be the first one read
        aut.first_letters = set(world.trig) if world.trig else None
    except ClassRefinement as e:
        rep.ob(rule, "depends only on the character classes", False, str(e), b.where(), key="%s|trigger-or-map-finer-than-classes" % rule)
        return None
    except DisciplineError as e:
        rep.ob(rule, "prefix copied verbatim, suffix mapped, split at find's position", False, str(e), b.where(), key="%s|split" % rule)
        return None
    except AnalysisError as e:
        if "cow-variant" in str(e) and world.fixed_variant is None:
            raise _VariantDependent()
        if "designated input" in str(e):
            # not find-then-rebuild: try the single-pass shape (one loop over the whole input, output allocated
            # lazily at the first character that changes)
            try:
                return analyse_single_pass(prog, rep, rule, fn_key, world, args)
            except ClassRefinement as e2:
                rep.ob(rule, "depends only on the character classes", False, str(e2), b.where(), key="%s|trigger-or-map-finer-than-classes" % rule)
                return None
            except DisciplineError as e2:
                rep.ob(rule, "prefix copied verbatim, suffix mapped, split at find's position", False, str(e2), b.where(), key="%s|split" % rule)
                return None
            except AnalysisError as e2:
                rep.analysis_error(rule, fn_key, e2, b.where())
                return None
        rep.analysis_error(rule, fn_key, e, b.where())
        return None
    return {"trig": set(world.trig or ()), "none_result": none_res, "none_events": none_events, "aut": aut, "body": b}


def analyse_single_pass(prog, rep, rule, fn_key, world, args=None):
    """The same function written as one pass: `for (pos, c) in s.char_indices()` with an output that is created —
    as a copy of s[..pos] — at the first character that needs mapping, and returned instead of s when it exists.
    The loop automaton over the whole input has (up to behavioural equivalence) two states: nothing copied yet
    / output started. It denotes  w ↦ w  if no letter of w starts the output, else (letters before the first
    such letter) ++ per-letter outputs — the denotation of find-then-rebuild with trigger set = the letters that
    start the output. The result is handed to the caller in the same form as analyse()'s."""
    b = prog.body(fn_key)
    args = list(args or [Str(("input",))])
    world.single_pass = True
    world.input_tag = ("input",)
    world.trig = set()
    try:
        aut = au.extract(prog, world, fn_key, args, world.alphabet, result_of=result_desc(prog))
    finally:
        world.single_pass = False
        world.input_tag = ("suffix",)
    t0 = aut.initial
    if t0.target is None:
        raise DisciplineError("the function returns before reading a character")
    q0 = t0.target
    if any(e[0] in ("push", "pop") for e in t0.events):
        raise DisciplineError("output is produced before the first character is read")
    tend0 = aut.delta[(q0, au.END)]
    none_res = tend0.result
    none_events = [e for e in tend0.events if e[0] == "push"]
    # partition the states: `started` = states reached after an output-starting letter
    trig = set()
    started = set()
    for a in world.alphabet:
        t = aut.delta[(q0, a)]
        ev = [e for e in t.events if e[0] in ("push", "pop")]
        if t.target is None:
            raise DisciplineError("the loop returns at a character of class %s" % a)
        if ev:
            trig.add(a)
            started.add(t.target)
        else:
            # a letter that leaves everything as it is must leave the automaton where it was (up to equivalence)
            if t.target != q0 and not _equivalent(aut, world.alphabet, t.target, q0):
                raise DisciplineError("a character of class %s produces no output but changes what happens to later characters" % a)
    world.trig = trig
    if not started:
        # nothing ever starts the output: the denotation is the identity; report through the normal channel
        view = au.Automaton()
        view.initial = au.Transition(None, (), q0, None)
        view.delta = dict(aut.delta)
        view.states = dict(aut.states)
        return {"trig": trig, "none_result": none_res, "none_events": none_events, "aut": view, "body": b}
    q1 = sorted(started)[0]
    for q in started:
        if q != q1 and not _equivalent(aut, world.alphabet, q, q1):
            raise DisciplineError("what happens after the output has been started depends on which character started it")
    # the output-starting letter's own output must be what that letter gets later on
    for a in trig:
        first = tuple(e for e in aut.delta[(q0, a)].events if e[0] in ("push", "pop"))
        later = tuple(e for e in aut.delta[(q1, a)].events if e[0] in ("push", "pop"))
        if first != later:
            raise DisciplineError("a character of class %s is written as %s when it starts the output and as %s afterwards" % (a, list(first), list(later)))
    view = au.Automaton()
    view.initial = au.Transition(None, (), q1, None)
    view.delta = {k: v for k, v in aut.delta.items()}
    view.states = dict(aut.states)
    return {"trig": trig, "none_result": none_res, "none_events": none_events, "aut": view, "body": b, "single_pass": True}


def _equivalent(aut, alphabet, p, q):
    """Behavioural equivalence of two states (same outputs/results for every word)."""
    seen = set()
    work = [(p, q)]
    while work:
        x, y = work.pop()
        if x == y or (x, y) in seen:
            continue
        seen.add((x, y))
        for a in list(alphabet) + [au.END]:
            tx, ty = aut.delta.get((x, a)), aut.delta.get((y, a))
            if tx is None or ty is None:
                return False
            if tuple(e for e in tx.events if e[0] in ("push", "pop")) != tuple(e for e in ty.events if e[0] in ("push", "pop")) or repr(tx.result) != repr(ty.result):
                return False
            if (tx.target is None) != (ty.target is None):
                return False
            if tx.target is not None:
                work.append((tx.target, ty.target))
    return True


def _reach(aut, alphabet, starts):
    reach, work = set(), list(starts)
    while work:
        q = work.pop()
        if q in reach:
            continue
        reach.add(q)
        for a in list(alphabet) + [au.END]:
            t = aut.delta.get((q, a))
            if t is not None and t.target is not None:
                work.append(t.target)
    return reach


def _ev(t):
    return tuple(e for e in t.events if e[0] in ("push", "pop"))


def _steady(aut, alphabet):
    """(q0, steady states). When the extraction knows which letters can come first (the suffix of a
    find-then-rebuild function starts with a trigger letter), the initial state's transitions on other letters
    are unreachable; the steady states are those reachable through a feasible first letter."""
    q0 = aut.initial.target
    first = getattr(aut, "first_letters", None)
    if first is None:
        return q0, _reach(aut, alphabet, [q0])
    starts = [aut.delta[(q0, a)].target for a in alphabet if a in first and aut.delta.get((q0, a)) is not None and aut.delta[(q0, a)].target is not None]
    return q0, _reach(aut, alphabet, starts)


def _classes(aut, alphabet, states):
    states = sorted(states)
    cls = {q: 0 for q in states}
    for _ in range(len(states) + 1):
        sig = {}
        for q in states:
            row = []
            for a in list(alphabet) + [au.END]:
                t = aut.delta.get((q, a))
                if t is None:
                    row.append(None)
                else:
                    row.append((_ev(t), repr(t.result), cls.get(t.target, -1)))
            sig[q] = tuple(row)
        ids = {}
        new = {}
        for q in states:
            new[q] = ids.setdefault(sig[q], len(ids))
        if new == cls:
            break
        cls = new
    return cls


def behavioural_states(aut, alphabet):
    """Number of states of the loop automaton up to behavioural equivalence (same outputs and results for every
    letter and at the end, successors equivalent): bookkeeping that the outputs do not depend on — a buffer
    that is empty until the first push, a flag set once — does not count as state. An initial state that is
    left by the first letter counts only if it treats a feasible first letter differently from the rest."""
    if aut.initial.target is None:
        return 0
    q0, steady = _steady(aut, alphabet)
    if q0 in steady or not steady:
        return len(set(_classes(aut, alphabet, steady | {q0}).values()))
    cls = _classes(aut, alphabet, steady)
    n = len(set(cls.values()))
    first = getattr(aut, "first_letters", None) or set(alphabet)
    rep_ = sorted(steady)[0]
    for a in alphabet:
        if a not in first:
            continue
        t0, t1 = aut.delta.get((q0, a)), aut.delta.get((rep_, a))
        if t0 is None or t1 is None or _ev(t0) != _ev(t1) or repr(t0.result) != repr(t1.result) or cls.get(t0.target, -1) != cls.get(t1.target, -2):
            return n + 1
    return n


def letter_outputs(aut, alphabet):
    """For a loop that is stateless up to behavioural equivalence: letter -> tuple of push events; returns
    (per_letter, set of equivalent states, end_events, end_result)."""
    per = {}
    t0 = aut.initial
    if t0.target is None:
        raise AnalysisError("the mapping loop returns before reading a character")
    q0, steady = _steady(aut, alphabet)
    one = behavioural_states(aut, alphabet) == 1
    # the state the per-letter outputs are read from: a steady one (the initial state may only see some letters)
    r = q0 if (q0 in steady or not steady) else sorted(steady)[0]
    eq = EquivStates(steady | {q0}) if one else r
    for a in alphabet:
        t = aut.delta[(r, a)]
        per[a] = (_ev(t), eq if (isinstance(eq, EquivStates) and t.target in eq.states) else t.target, t.result)
    tend = aut.delta[(r, au.END)]
    return per, eq, _ev(tend), tend.result


class EquivStates:
    """A set of behaviourally equivalent states; compares equal to itself only (callers test `target == q0`)."""

    def __init__(self, states):
        self.states = set(states)

    def __eq__(self, other):
        return other is self

    def __hash__(self):
        return id(self)
