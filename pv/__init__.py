"""pv — static rule engine for the precis verification (see /verif/DESIGN.md)."""
