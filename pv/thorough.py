"""Thorough tier = the quick rules, plus self-validation of those rules on this very tree:
every break case of the property's corpus (selftest/cases.py) and every seeded change under seeded/
that this property is recorded to catch is applied to a scratch copy of /repo's current tree and the
property's check must report it; every keep case (behaviour-preserving refactoring) must stay silent.
A check that lets a known-breaking change through, or fires on a refactoring, is not trusted: the
failure is reported as an obligation of this run."""
import json
import os
import shutil
import subprocess
import sys
import time

from . import facts

VERIF = os.path.dirname(os.path.dirname(os.path.abspath(__file__)))


def _scratch():
    d = os.path.join(os.environ.get("PV_SCRATCH", "/var/tmp"), "pv-thorough-%d" % os.getpid())
    return d


def _sync(dst):
    os.makedirs(dst, exist_ok=True)
    subprocess.check_call(["rsync", "-a", "--delete", "--exclude", "target", "--exclude", ".git", facts.REPO + "/", dst + "/"])


def _run_check(prop, repo):
    p = subprocess.run([os.path.join(VERIF, "check"), prop, "--repo", repo, "--tier", "quick", "--no-evidence"], stdout=subprocess.PIPE, stderr=subprocess.STDOUT, text=True)
    fired = [l for l in p.stdout.splitlines() if l.startswith("VIOLATION")]
    return p.returncode, fired


CLIPPY_LINTS = ["unwrap_used", "expect_used", "indexing_slicing", "string_slice", "arithmetic_side_effects", "panic", "unreachable", "todo", "unimplemented"]


def clippy_crossref(rep):
    """C01: every hit of clippy's opt-in panic-site lints in the library sources must be a site of the
    inventory (completeness of the inventory; the lints themselves give no verdict)."""
    from .mir import Program, norm_file
    from .rules import C01, C16

    prog = Program()
    reach = prog.reachable(C16.roots(prog), crates=C01.LIB)
    sites = C01.inventory(prog, reach.keys())
    lines = set()
    for (k, bb), (kind, what, where) in sites.items():
        lines.add(where)
    # asserts/calls carry the span of the terminator; add the statement spans of the same blocks
    for (k, bb) in sites:
        b = prog.bodies[k]
        for st in b.blocks[bb]["stmts"]:
            if "span" in st:
                lines.add("%s:%s" % (norm_file(st["span"]["file"]), st["span"]["line"]))
    tdir = os.path.join(os.environ.get("PV_SCRATCH", "/var/tmp"), "pv-clippy-%d" % os.getpid())
    cmd = ["cargo", "+nightly", "clippy", "--offline", "-p", "precis-core", "-p", "precis-profiles", "--message-format=json", "--"]
    for l in CLIPPY_LINTS:
        cmd += ["-W", "clippy::" + l]
    env = dict(os.environ, CARGO_NET_OFFLINE="true", CARGO_TARGET_DIR=tdir)
    try:
        p = subprocess.run(cmd, cwd=facts.REPO, env=env, stdout=subprocess.PIPE, stderr=subprocess.DEVNULL, text=True)
    finally:
        shutil.rmtree(tdir, ignore_errors=True)
    hits = []
    for l in p.stdout.splitlines():
        try:
            d = json.loads(l)
        except ValueError:
            continue
        if d.get("reason") != "compiler-message":
            continue
        m = d["message"]
        code = (m.get("code") or {}).get("code") or ""
        if code.replace("clippy::", "") not in CLIPPY_LINTS:
            continue
        for sp in m["spans"]:
            if sp["is_primary"] and (sp["file_name"].startswith("precis-core/src") or sp["file_name"].startswith("precis-profiles/src")):
                hits.append((code, sp["file_name"], sp["line_start"]))
    if p.returncode != 0 and not hits:
        rep.ob("inventory-crossref", "clippy run", False, "cargo clippy failed (exit %d)" % p.returncode, key="analysis-error|clippy")
        return
    missing = [h for h in hits if "%s:%s" % (h[1], h[2]) not in lines]
    rep.ob("inventory-crossref", "every clippy panic-site hit (%d) is an inventoried site" % len(hits), not missing, "not in the inventory: %s" % missing[:5], key="inventory-crossref|clippy")
    rep.extra["clippy_hits"] = len(hits)


WITNESS_LIB = """//! Compile-time witnesses for C16, built against the repository's current tree.
//!
//! A look-alike carrying interior state must NOT pass the bound (the witness can fail):
//! ```compile_fail,E0277
//! fn w<T: Send + Sync + Copy + 'static>() {}
//! struct Lookalike(std::cell::Cell<u8>);
//! w::<Lookalike>();
//! ```
//! and its twin without the cell passes (the failure above is due to the cell, not to a typo):
//! ```
//! fn w<T: Send + Sync + Copy + 'static>() {}
//! #[derive(Clone, Copy)]
//! struct Twin(u8);
//! w::<Twin>();
//! ```
fn w<T: Send + Sync + Copy + 'static>() {}
const fn zst<T>() -> bool {
    core::mem::size_of::<T>() == 0
}
pub fn witness() {
    w::<precis_profiles::Nickname>();
    w::<precis_profiles::OpaqueString>();
    w::<precis_profiles::UsernameCaseMapped>();
    w::<precis_profiles::UsernameCasePreserved>();
    w::<precis_core::IdentifierClass>();
    w::<precis_core::FreeformClass>();
}
const _: () = assert!(zst::<precis_profiles::Nickname>() && zst::<precis_profiles::OpaqueString>() && zst::<precis_profiles::UsernameCaseMapped>() && zst::<precis_profiles::UsernameCasePreserved>() && zst::<precis_core::IdentifierClass>() && zst::<precis_core::FreeformClass>());
"""


def witness_c16(rep):
    """C16: the type checker itself must accept Send + Sync + Copy + zero size for the six public types
    (a harness crate path-depending on the repository), with a compile_fail twin proving the witness can fail."""
    d = os.path.join(os.environ.get("PV_SCRATCH", "/var/tmp"), "pv-witness-%d" % os.getpid())
    shutil.rmtree(d, ignore_errors=True)
    os.makedirs(os.path.join(d, "src"))
    try:
        open(os.path.join(d, "Cargo.toml"), "w").write(
            '[package]\nname = "pv-witness"\nversion = "0.0.0"\nedition = "2021"\n\n[workspace]\n\n[dependencies]\nprecis-core = { path = "%s/precis-core" }\nprecis-profiles = { path = "%s/precis-profiles" }\n' % (facts.REPO, facts.REPO)
        )
        open(os.path.join(d, "src", "lib.rs"), "w").write(WITNESS_LIB)
        lock = os.path.join(facts.REPO, "Cargo.lock")
        if os.path.exists(lock):
            shutil.copy(lock, os.path.join(d, "Cargo.lock"))
        env = dict(os.environ, CARGO_NET_OFFLINE="true", CARGO_TARGET_DIR=os.path.join(d, "target"))
        p = subprocess.run(["cargo", "+nightly", "test", "--offline", "--doc"], cwd=d, env=env, stdout=subprocess.PIPE, stderr=subprocess.STDOUT, text=True)
        ok = p.returncode == 0 and "2 passed" in p.stdout
        rep.ob("type-witness", "six public types are Send + Sync + Copy + zero-sized (rustc), compile_fail twin fails for a Cell look-alike", ok, p.stdout[-600:] if not ok else "", key="type-witness|build")
    finally:
        shutil.rmtree(d, ignore_errors=True)


def extend(rep, prop):
    sys.path.insert(0, os.path.join(VERIF, "selftest"))
    import cases as corpus

    todo = [c for c in corpus.CASES if prop in c["props"]]
    seeds = []
    sdir = os.path.join(VERIF, "seeded")
    if os.path.isdir(sdir):
        for name in sorted(os.listdir(sdir)):
            mp = os.path.join(sdir, name, "meta.json")
            if os.path.exists(mp):
                meta = json.load(open(mp))
                if prop in meta.get("caught_by", [meta.get("property")]) and prop in meta.get("checks_fired", {}) and meta.get("confirmed"):
                    seeds.append((name, os.path.join(sdir, name, "patch.diff")))
    # behaviour-preserving refactorings written independently of the checks (selftest/refactorings/*.diff):
    # those that touch a source file this property's analysis reads must leave the check silent
    refacs = []
    rdir = os.path.join(VERIF, "selftest", "refactorings")
    try:
        from .mir import Program, norm_file

        prog = Program()
        files = set()
        for k in rep.analysed.get("functions", ()):
            b = prog.bodies.get(k)
            if b is not None and not b.ext:
                files.add(norm_file(b.span["file"]))
        # generated tables come from the generators and their templates
        if any("/generated/" in f or f.endswith(".rs") and "OUT_DIR" in f for f in files) or not files:
            files.add("precis-tools/")
    except Exception:
        files = None
    if os.path.isdir(rdir):
        for name in sorted(os.listdir(rdir)):
            if not name.endswith(".diff"):
                continue
            touched = [l[6:].strip() for l in open(os.path.join(rdir, name)) if l.startswith("+++ b/")]
            if files is None or any(t in files or any(t.startswith(f) for f in files if f.endswith("/")) for t in touched):
                refacs.append((name[:-5], os.path.join(rdir, name)))
    if prop == "C01":
        clippy_crossref(rep)
    if prop == "C16":
        witness_c16(rep)
    dst = _scratch()
    n_break = n_keep = n_seed = n_refac = 0
    t0 = time.time()
    try:
        for c in todo:
            _sync(dst)
            applied = True
            for path, old, new in c["edits"]:
                fp = os.path.join(dst, path)
                s = open(fp).read()
                if s.count(old) < 1:
                    applied = False
                    break
                open(fp, "w").write(s.replace(old, new, 1))
            if not applied:
                # the corpus was written against the pinned tree: an edit that no longer applies is skipped, visibly
                rep.sample({"selftest-skipped": c["id"], "reason": "edit does not apply to the current tree"})
                continue
            rc, fired = _run_check(prop, dst)
            named = [l for l in fired if "analysis-error" not in l and "internal-error" not in l]
            if c["kind"] == "break":
                n_break += 1
                ok = rc == 1 and bool(named or fired)
                rep.ob("self-validation", "break case %s is reported" % c["id"], ok, "the check stayed silent on a change known to break the property (%s)" % c.get("note", ""), key="self-validation|break|%s" % c["id"])
            else:
                n_keep += 1
                rep.ob("self-validation", "keep case %s stays silent" % c["id"], rc == 0 and not fired, "the check fired on a behaviour-preserving refactoring: %s" % [l[:160] for l in fired[:2]], key="self-validation|keep|%s" % c["id"])
        for name, patch in seeds:
            _sync(dst)
            p = subprocess.run(["patch", "-p1", "-s", "-i", patch], cwd=dst, stdout=subprocess.PIPE, stderr=subprocess.STDOUT, text=True)
            if p.returncode != 0:
                rep.sample({"seed-skipped": name, "reason": "patch does not apply to the current tree"})
                continue
            rc, fired = _run_check(prop, dst)
            n_seed += 1
            rep.ob("self-validation", "seeded change %s is reported" % name, rc == 1 and bool(fired), "the check stayed silent on an independently written breaking change", key="self-validation|seed|%s" % name)
        try:
            limits = json.load(open(os.path.join(rdir, "KNOWN_LIMITS.json")))
        except (OSError, ValueError):
            limits = {}
        for name, patch in refacs:
            lim = limits.get(name)
            if isinstance(lim, dict) and prop in lim.get("props", []):
                rep.sample({"refactoring-known-limit": name, "reason": lim.get("reason", "")})
                continue
            _sync(dst)
            p = subprocess.run(["patch", "-p1", "-s", "-i", patch], cwd=dst, stdout=subprocess.PIPE, stderr=subprocess.STDOUT, text=True)
            if p.returncode != 0:
                rep.sample({"refactoring-skipped": name, "reason": "patch does not apply to the current tree"})
                continue
            rc, fired = _run_check(prop, dst)
            n_refac += 1
            rep.ob("self-validation", "refactoring %s stays silent" % name, rc == 0 and not fired, "the check fired on a behaviour-preserving refactoring: %s" % [l[:200] for l in fired[:2]], key="self-validation|refactoring|%s" % name)
    finally:
        shutil.rmtree(dst, ignore_errors=True)
    rep.extra["thorough"] = {"break_cases": n_break, "keep_cases": n_keep, "seeded_changes": n_seed, "refactorings": n_refac, "wall_s": round(time.time() - t0, 1)}
    return rep
