"""Thorough tier = the quick rules, plus self-validation of those rules on this very tree:
every break case of the property's corpus (selftest/cases.py) and every seeded change under seeded/
that this property is recorded to catch is applied to a scratch copy of /repo's current tree and the
property's check must report it; every keep case (behaviour-preserving refactoring) must stay silent.
A check that lets a known-breaking change through, or fires on a refactoring, is not trusted: the
failure is reported as an obligation of this run."""
import json
import os
import shutil
import subprocess
import sys
import time

from . import facts

VERIF = os.path.dirname(os.path.dirname(os.path.abspath(__file__)))


def _scratch():
    d = os.path.join(os.environ.get("PV_SCRATCH", "/var/tmp"), "pv-thorough-%d" % os.getpid())
    return d


def _sync(dst):
    os.makedirs(dst, exist_ok=True)
    subprocess.check_call(["rsync", "-a", "--delete", "--exclude", "target", "--exclude", ".git", facts.REPO + "/", dst + "/"])


def _run_check(prop, repo):
    p = subprocess.run([os.path.join(VERIF, "check"), prop, "--repo", repo, "--tier", "quick", "--no-evidence"], stdout=subprocess.PIPE, stderr=subprocess.STDOUT, text=True)
    fired = [l for l in p.stdout.splitlines() if l.startswith("VIOLATION")]
    return p.returncode, fired


def extend(rep, prop):
    sys.path.insert(0, os.path.join(VERIF, "selftest"))
    import cases as corpus

    todo = [c for c in corpus.CASES if prop in c["props"]]
    seeds = []
    sdir = os.path.join(VERIF, "seeded")
    if os.path.isdir(sdir):
        for name in sorted(os.listdir(sdir)):
            mp = os.path.join(sdir, name, "meta.json")
            if os.path.exists(mp):
                meta = json.load(open(mp))
                if prop in meta.get("checks_fired", {}) and meta.get("confirmed"):
                    seeds.append((name, os.path.join(sdir, name, "patch.diff")))
    dst = _scratch()
    n_break = n_keep = n_seed = 0
    t0 = time.time()
    try:
        for c in todo:
            _sync(dst)
            applied = True
            for path, old, new in c["edits"]:
                fp = os.path.join(dst, path)
                s = open(fp).read()
                if s.count(old) < 1:
                    applied = False
                    break
                open(fp, "w").write(s.replace(old, new, 1))
            if not applied:
                # the corpus was written against the pinned tree: an edit that no longer applies is skipped, visibly
                rep.sample({"selftest-skipped": c["id"], "reason": "edit does not apply to the current tree"})
                continue
            rc, fired = _run_check(prop, dst)
            named = [l for l in fired if "analysis-error" not in l and "internal-error" not in l]
            if c["kind"] == "break":
                n_break += 1
                ok = rc == 1 and bool(named or fired)
                rep.ob("self-validation", "break case %s is reported" % c["id"], ok, "the check stayed silent on a change known to break the property (%s)" % c.get("note", ""), key="self-validation|break|%s" % c["id"])
            else:
                n_keep += 1
                rep.ob("self-validation", "keep case %s stays silent" % c["id"], rc == 0 and not fired, "the check fired on a behaviour-preserving refactoring: %s" % [l[:160] for l in fired[:2]], key="self-validation|keep|%s" % c["id"])
        for name, patch in seeds:
            _sync(dst)
            p = subprocess.run(["patch", "-p1", "-s", "-i", patch], cwd=dst, stdout=subprocess.PIPE, stderr=subprocess.STDOUT, text=True)
            if p.returncode != 0:
                rep.sample({"seed-skipped": name, "reason": "patch does not apply to the current tree"})
                continue
            rc, fired = _run_check(prop, dst)
            n_seed += 1
            rep.ob("self-validation", "seeded change %s is reported" % name, rc == 1 and bool(fired), "the check stayed silent on an independently written breaking change", key="self-validation|seed|%s" % name)
    finally:
        shutil.rmtree(dst, ignore_errors=True)
    rep.extra["thorough"] = {"break_cases": n_break, "keep_cases": n_keep, "seeded_changes": n_seed, "wall_s": round(time.time() - t0, 1)}
    return rep
