"""Independent reading of the UCD text files the build scripts consume (no code shared with
precis-tools or ucd-parse). Format: UAX #44. Everything is returned as plain Python data."""
import os
import re

MAXCP = 0x10FFFF


class UnicodeData:
    """UnicodeData.txt: `cp;name;gc;ccc;bidi;decomp;...` with <Name, First>/<Name, Last> pairs."""

    def __init__(self, path):
        self.path = path
        self.entries = []  # (lo, hi, fields)
        first = None
        with open(path, encoding="utf-8") as fh:
            for ln, line in enumerate(fh, 1):
                line = line.rstrip("\n")
                if not line.strip() or line.startswith("#"):
                    continue
                f = line.split(";")
                if len(f) < 15:
                    raise ValueError("%s:%d: %d fields" % (path, ln, len(f)))
                cp = int(f[0], 16)
                name = f[1]
                if name.endswith(", First>"):
                    if first is not None:
                        raise ValueError("%s:%d: nested First" % (path, ln))
                    first = (cp, f)
                    continue
                if name.endswith(", Last>"):
                    if first is None:
                        raise ValueError("%s:%d: Last without First" % (path, ln))
                    lo, ff = first
                    first = None
                    if ff[2:] != f[2:]:
                        raise ValueError("%s:%d: First/Last fields differ" % (path, ln))
                    self.entries.append((lo, cp, f))
                    continue
                if first is not None:
                    raise ValueError("%s:%d: First not closed" % (path, ln))
                self.entries.append((cp, cp, f))
        if first is not None:
            raise ValueError("%s: dangling First" % path)
        for (a, b, _), (c, d, _) in zip(self.entries, self.entries[1:]):
            if not (a <= b < c <= d):
                raise ValueError("%s: entries out of order at %04X" % (path, c))

    def field_map(self, idx, default=None):
        """list indexed by code point with field idx of the covering entry (default where unassigned)."""
        out = [default] * (MAXCP + 1)
        for lo, hi, f in self.entries:
            v = f[idx]
            for cp in range(lo, hi + 1):
                out[cp] = v
        return out

    def assigned_mask(self):
        m = bytearray(MAXCP + 1)
        for lo, hi, _ in self.entries:
            for cp in range(lo, hi + 1):
                m[cp] = 1
        return m

    def set_where(self, idx, pred):
        m = bytearray(MAXCP + 1)
        for lo, hi, f in self.entries:
            if pred(f[idx]):
                m[lo : hi + 1] = b"\x01" * (hi - lo + 1)
        return m

    def decompositions(self):
        """cp -> (tag or None, [mapping cps]) for entries with a non-empty decomposition field."""
        out = {}
        for lo, hi, f in self.entries:
            d = f[5].strip()
            if not d:
                continue
            parts = d.split()
            tag = None
            if parts[0].startswith("<"):
                tag = parts[0][1:-1]
                parts = parts[1:]
            mp = [int(x, 16) for x in parts]
            for cp in range(lo, hi + 1):
                out[cp] = (tag, mp)
        return out


_LINE = re.compile(r"^\s*([0-9A-Fa-f]{4,6})(?:\.\.([0-9A-Fa-f]{4,6}))?\s*;\s*([^#;]+?)\s*(?:;[^#]*)?(?:#.*)?$")


def property_file(path):
    """`XXXX[..YYYY] ; Value # comment` files → {value: bytearray mask}. Also returns the header version."""
    out = {}
    version = None
    with open(path, encoding="utf-8") as fh:
        for ln, line in enumerate(fh, 1):
            if ln == 1:
                m = re.search(r"-(\d+\.\d+\.\d+)\.txt", line)
                version = m.group(1) if m else None
            s = line.strip()
            if not s or s.startswith("#"):
                continue
            m = _LINE.match(line.rstrip("\n"))
            if not m:
                raise ValueError("%s:%d: unparsable line %r" % (path, ln, line))
            lo = int(m.group(1), 16)
            hi = int(m.group(2), 16) if m.group(2) else lo
            v = m.group(3)
            mask = out.setdefault(v, bytearray(MAXCP + 1))
            mask[lo : hi + 1] = b"\x01" * (hi - lo + 1)
    return out, version


def mask_from_rows(rows):
    m = bytearray(MAXCP + 1)
    for r in rows:
        lo, hi = r[0], r[1]
        if lo <= hi:
            if hi > MAXCP:
                raise ValueError("row beyond U+10FFFF: %x..%x" % (lo, hi))
            m[lo : hi + 1] = b"\x01" * (hi - lo + 1)
    return m


def first_diff(a, b):
    if a == b:
        return None
    # binary search for the first differing index
    lo, hi = 0, len(a)
    while hi - lo > 1:
        mid = (lo + hi) // 2
        if a[lo:mid] != b[lo:mid]:
            hi = mid
        else:
            lo = mid
    return lo


def count_diff(a, b):
    n = 0
    i = 0
    step = 4096
    while i < len(a):
        if a[i : i + step] != b[i : i + step]:
            n += sum(1 for x, y in zip(a[i : i + step], b[i : i + step]) if x != y)
        i += step
    return n


def mask_or(*ms):
    out = bytearray(MAXCP + 1)
    for m in ms:
        out = bytearray(x | y for x, y in zip(out, m)) if any(m) else out
    return out


def mask_andnot(a, b):
    return bytearray(x & (1 - y) for x, y in zip(a, b))


def csv_registry(path):
    """IANA precis-tables CSV: `XXXX[-YYYY],PROP[ or PROP],description` → list of (lo, hi, props, desc)."""
    out = []
    with open(path, encoding="utf-8") as fh:
        for ln, line in enumerate(fh, 1):
            if ln == 1:
                continue
            line = line.rstrip("\r\n")
            if not line:
                continue
            a, b, c = line.split(",", 2)
            if "-" in a:
                lo, hi = [int(x, 16) for x in a.split("-")]
            else:
                lo = hi = int(a, 16)
            props = tuple(p.strip() for p in b.split(" or "))
            out.append((lo, hi, props, c))
    return out


def file_version(path):
    """Version stamped in the header comment of a UCD property file (`# Name-6.3.0.txt`)."""
    with open(path, encoding="utf-8") as fh:
        first = fh.readline()
    m = re.search(r"-(\d+\.\d+\.\d+)\.txt", first)
    return m.group(1) if m else None
