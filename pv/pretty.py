"""Readable dump of exported bodies: python3 -m pv.pretty <substring> [crate]"""
import sys

from .mir import Program, place_str


def op_s(b, o):
    k = o["k"]
    if k in ("copy", "move"):
        return ("move " if k == "move" else "") + place_str(b, o["place"])
    if k == "int":
        return "%s_%s%s" % (o["v"], o["ty"], ("{%s}" % o["variant_name"]) if "variant_name" in o else "")
    if k == "str":
        return repr(o["v"])
    if k == "fn":
        return "fn(%s)" % o["fn"]["full"]
    if k == "static_ref":
        return "&static %s" % o["static"]
    if k == "promoted":
        return "promoted[%d]" % o["idx"]
    if k == "zst":
        return "zst<%s>" % o["ty"]
    return "<%s %s>" % (k, o.get("ty"))


def rv_s(b, rv):
    k = rv["k"]
    if k == "use":
        return op_s(b, rv["op"])
    if k == "ref":
        return "&%s%s" % ("mut " if rv["mut"] else "", place_str(b, rv["place"]))
    if k == "binop":
        return "%s(%s, %s)" % (rv["op"], op_s(b, rv["a"]), op_s(b, rv["b"]))
    if k == "unop":
        return "%s(%s)" % (rv["op"], op_s(b, rv["a"]))
    if k == "cast":
        return "%s as %s [%s]" % (op_s(b, rv["op"]), rv["ty"], rv["kind"])
    if k == "discriminant":
        return "discriminant(%s)" % place_str(b, rv["place"])
    if k == "aggregate":
        head = rv["agg"]
        if head == "adt":
            head = "%s::%s" % (rv["adt"], rv["variant_name"])
        elif head == "closure":
            head = "closure %s" % rv["def"]
        return "%s(%s)" % (head, ", ".join(op_s(b, o) for o in rv["ops"]))
    return "<%s %s>" % (k, rv.get("repr", ""))


def dump(b, out=sys.stdout):
    out.write("== %s [%s] %s args=%d\n" % (b.key, b.kind, b.where(), b.arg_count))
    for i, l in enumerate(b.locals):
        out.write("   let _%d%s: %s\n" % (i, (" /*%s*/" % l["name"]) if l["name"] else "", l["ty"]))
    for i, bl in enumerate(b.blocks):
        out.write(" bb%d%s:\n" % (i, " (cleanup)" if bl["cleanup"] else ""))
        for s in bl["stmts"]:
            if s["k"] == "assign":
                out.write("    %s = %s\n" % (place_str(b, s["place"]), rv_s(b, s["rv"])))
            elif s["k"] in ("storage_live", "storage_dead"):
                continue
            else:
                out.write("    %s\n" % s["k"])
        t = bl["term"]
        k = t["k"]
        if k == "call":
            c = t["callee"]
            name = (c["full"] + ("" if c["resolved"] else " [unresolved]")) if c else "(*%s)" % op_s(b, t["func"])
            out.write("    %s = %s(%s) -> bb%s\n" % (place_str(b, t["dest"]), name, ", ".join(op_s(b, a) for a in t["args"]), t["target"]))
        elif k == "switch":
            out.write("    switch %s [%s, otherwise bb%d]\n" % (op_s(b, t["discr"]), ", ".join("%d→bb%d" % (v, bb) for v, bb in t["targets"]), t["otherwise"]))
        elif k == "assert":
            out.write("    assert(%s == %s, %s) -> bb%d\n" % (op_s(b, t["cond"]), t["expected"], t["msg"], t["target"]))
        elif k in ("goto", "drop"):
            out.write("    %s -> bb%d\n" % (k, t["target"]))
        else:
            out.write("    %s\n" % k)


if __name__ == "__main__":
    prog = Program()
    for k, b in prog.bodies.items():
        if sys.argv[1] in k and (len(sys.argv) < 3 or b.crate == sys.argv[2]):
            dump(b)
