"""Validators written as several passes over one string (multi-pass extraction).

The loop-automaton extraction (automaton.py) follows *one* iteration over the designated input. A validator in
declarative style makes several: `it.clone().all(p)`, `it.clone().any(q)`, a reverse pass
`it.rev().skip_while(r)` consumed by `next()` and then `all(s)`, the first element by `it.clone().next()`.
Each pass is a regular function of the whole string (or of its reversal), and the validator is a decision tree
over the passes' outcomes. This module

 1. interprets the validator with every *consuming* call on an iterator over the input answered by an oracle
    (one path per outcome), remembering which pass produced which outcome;
 2. extracts, for every pass, its own loop automaton with the ordinary cut-point machinery — a synthetic body
    applies the pass's consuming calls, in order, to a fresh iterator — and reverses it when the pass reads the
    string backwards;
 3. builds the product automaton of all passes, whose result at the end of the input is the decision tree's
    answer for the outcomes the passes have reached.

The product is an ordinary automaton over the rule's alphabet, so everything downstream (comparison with the
specification's DFA, shortest distinguishing words) is unchanged. Sound under conditions that are checked:
every pass starts from an unconsumed iterator over the whole input; closures handed to a pass capture values
only (no mutable borrow of the caller's state); anything else is an analysis error."""
import collections

from . import automaton as au
from . import interp as ip
from . import synth
from .interp import AnalysisError, Adt, Clo, I, Opq, Ref, Str, Sym, Tup
from .models import deref_all, _innermost_ref
from .worlds import OracleWorld

CONSUMERS = ("next", "all", "any", "find", "position", "next_back")
ADAPTORS = ("map", "rev", "skip_while", "skip", "enumerate", "filter")
IT = "core::iter::traits::iterator::Iterator::"


def chain_base(v):
    """The iterated string of an adaptor chain over str::chars, or None."""
    while isinstance(v, Opq) and v.kind in ADAPTORS and v.data:
        v = v.data[0]
    if isinstance(v, Opq) and v.kind in ("chars", "char_indices") and v.data and isinstance(v.data[0], Str):
        return v.data[0]
    return None


def n_rev(v):
    n = 0
    while isinstance(v, Opq) and v.kind in ADAPTORS and v.data:
        if v.kind == "rev":
            n += 1
        v = v.data[0]
    return n


def freeze(m, st, v, depth=0):
    """A copy of a value that does not point into the caller's frames (captured references become references to
    values); a mutable borrow of caller state cannot be frozen."""
    if depth > 8:
        raise AnalysisError("value too deep to hand to a pass")
    if isinstance(v, Ref):
        if v.loc[0] in ("val", "valp"):
            return Ref((v.loc[0], freeze(m, st, v.loc[1], depth + 1)) + tuple(v.loc[2:]))
        if v.loc[0] == "static":
            return v
        return Ref(("val", freeze(m, st, m.load(st, v.loc), depth + 1)))
    if isinstance(v, Clo):
        return Clo(v.defpath, tuple(freeze(m, st, c, depth + 1) for c in v.captures))
    if isinstance(v, Adt):
        return Adt(v.ty, v.variant, tuple(freeze(m, st, x, depth + 1) for x in v.fields))
    if isinstance(v, Tup):
        return Tup(tuple(freeze(m, st, x, depth + 1) for x in v.fields))
    if isinstance(v, Opq) and isinstance(v.data, tuple):
        return Opq(v.kind, tuple(freeze(m, st, x, depth + 1) if isinstance(x, (Ref, Clo, Adt, Tup, Opq)) else x for x in v.data))
    return v


def mut_captures(prog, v, depth=0):
    """Does a closure (or one nested in it) capture something by mutable reference?"""
    if depth > 6:
        return True
    if isinstance(v, Ref) and v.loc[0] in ("val", "valp"):
        return mut_captures(prog, v.loc[1], depth + 1)
    if isinstance(v, Clo):
        b = prog.body(v.defpath)
        for up in (b.d.get("upvars") or []) if b is not None else []:
            fty = next((pj.get("ty", "") for pj in up["place"]["p"] if pj.get("k") == "field"), "")
            if fty.replace("&'a ", "&").startswith("&mut") or "&mut " in fty.split("<")[0]:
                return True
        return any(mut_captures(prog, c, depth + 1) for c in v.captures)
    return False


class SubWorld(au.CutWorld):
    """The world a single pass is extracted in: one designated input, adaptors stepped down to it."""

    def iter_rev(self, m, st, it):
        return Opq("rev", (it,))

    def _deliver(self, m, st, itref, enumerate_):
        # str::Chars is a fused iterator: once exhausted it keeps answering None (a pass may go on to its next
        # consuming call after the first one ran the string out)
        if st.ext.get("v:ended") and st.ext.get("letter") is None:
            return ip.none()
        return au.CutWorld._deliver(self, m, st, itref, enumerate_)

    def iter_next(self, m, st, ref, it):
        from . import models

        if isinstance(it, Opq) and it.kind == "rev" and isinstance(ref, Ref):
            # (the reversal is accounted for by reversing the pass automaton afterwards)
            return models._next_generic(m, st, {"path": IT + "next", "name": "next"}, [Ref(m._sub(ref.loc, ("opq", 0)))], None)
        if isinstance(it, Opq) and it.kind == "skip_while" and isinstance(ref, Ref):
            return (ip.INLINE, m.prog.bodies["pv::synth::skip_while_next"], [Ref(m._sub(ref.loc, ("opq", 0))), Ref(m._sub(ref.loc, ("opq", 1))), Ref(m._sub(ref.loc, ("opq", 2)))], None)
        return None

    def call(self, m, st, callee, args, term):
        if callee["name"] == "skip_while" and callee["path"].startswith(IT) and args:
            return Opq("skip_while", (args[0], args[1], ip.boolean(False)))
        if callee["name"] == "clone" and args:
            v = deref_all(m, st, args[0])
            if chain_base(v) is not None:
                return v
        return au.CutWorld.call(self, m, st, callee, args, term)


def canon_result(v):
    if isinstance(v, I):
        return ("int", v.v, v.ty)
    if isinstance(v, Adt):
        return ("adt", v.ty, v.variant) + tuple(canon_result(x) for x in v.fields)
    if isinstance(v, Tup):
        return ("tup",) + tuple(canon_result(x) for x in v.fields)
    raise AnalysisError("a pass yields %r: not a finite outcome" % (v,))


class Passes:
    """Registry of the passes met while interpreting the validator, with their automata."""

    def __init__(self, prog, input_tag, alphabet, oracles):
        self.prog = prog
        self.tag = input_tag
        self.alphabet = list(alphabet)
        self.oracles = oracles
        self.by_key = {}  # key -> dict(id, base, calls, values, forward DFA)

    def get(self, key, base, calls):
        p = self.by_key.get(key)
        if p is None:
            p = {"id": len(self.by_key), "base": base, "calls": calls}
            self._extract(p)
            self.by_key[key] = p
        return p

    def _extract(self, p):
        calls = p["calls"]  # ((name, frozen extra args), ...)
        n = len(calls)
        # synthetic body: _1 the iterator, then each call's extra arguments; returns the tuple of results
        tys = ["?", "I"]
        arg_locals = []
        for name, extra in calls:
            ls = []
            for _ in extra:
                tys.append("?")
                ls.append(len(tys) - 1)
            arg_locals.append(ls)
        argc = len(tys) - 1
        rloc = len(tys)
        tys.append("&mut I")
        outs = []
        for _ in calls:
            tys.append("?")
            outs.append(len(tys) - 1)
        blocks = [synth.block([synth.assign(rloc, synth.ref(1))], synth.goto(1))]
        for j, (name, extra) in enumerate(calls):
            blocks.append(synth.block([], synth.call(IT + name if name != "next_back" else "core::iter::traits::double_ended::DoubleEndedIterator::next_back", [synth.cp(rloc)] + [synth.mv(l) for l in arg_locals[j]], outs[j], j + 2)))
        blocks.append(synth.block([synth.assign(0, synth.tup(*[synth.mv(o) for o in outs]))], {"k": "return"}))
        body = synth.body("pv::pass::%d" % p["id"], argc, tys, blocks)
        self.prog.bodies[body.key] = body
        args = [p["base"]] + [x for _, extra in calls for x in extra]
        values = {}

        def result_of(o):
            c = canon_result(o.value)
            values[c] = o.value
            return c

        w = SubWorld(self.prog, self.tag, dict(self.oracles))
        aut = au.extract(self.prog, w, body.key, args, self.alphabet, result_of=result_of)
        p["values"] = values
        p["dfa"] = forward_dfa(aut, self.alphabet, reverse=(n_rev(p["base"]) % 2 == 1))
        p["outcomes"] = sorted(p["dfa"]["outcomes"], key=repr)


def forward_dfa(aut, alphabet, reverse):
    """{'init': s0, 'step': {(s, a): s'}, 'out': {s: outcome}} — the pass's outcome as a function of the word
    read forwards. For a reverse pass the states are the functions  (automaton state) -> outcome  of the
    reversed automaton."""
    # normalise the extracted automaton: absorbing result states
    def a_step(q, a):
        if q[0] == "ret":
            return q
        t = aut.delta[(q[1], a)]
        return ("ret", t.result) if t.target is None else ("q", t.target)

    def a_end(q):
        if q[0] == "ret":
            return q[1]
        t = aut.delta[(q[1], au.END)]
        if t.target is not None:
            raise AnalysisError("a pass does not finish at the end of the input")
        return t.result

    a0 = ("ret", aut.initial.result) if aut.initial.target is None else ("q", aut.initial.target)
    states, work = {a0}, [a0]
    while work:
        q = work.pop()
        for a in alphabet:
            n = a_step(q, a)
            if n not in states:
                states.add(n)
                work.append(n)
    if not reverse:
        step = {(q, a): a_step(q, a) for q in states for a in alphabet}
        out = {q: a_end(q) for q in states}
        return {"init": a0, "step": step, "out": out, "outcomes": set(out.values())}
    order = sorted(states, key=repr)
    f0 = tuple(a_end(q) for q in order)
    idx = {q: i for i, q in enumerate(order)}
    fs, work, step = {f0}, [f0], {}
    while work:
        f = work.pop()
        for a in alphabet:
            g = tuple(f[idx[a_step(q, a)]] for q in order)
            step[(f, a)] = g
            if g not in fs:
                if len(fs) > 20000:
                    raise AnalysisError("reversed pass automaton too large")
                fs.add(g)
                work.append(g)
    out = {f: f[idx[a0]] for f in fs}
    return {"init": f0, "step": step, "out": out, "outcomes": set(out.values())}


class TopWorld(OracleWorld):
    """The validator itself: consuming calls on iterators over the input are answered by pass oracles."""

    def __init__(self, prog, passes, oracles=None):
        OracleWorld.__init__(self, prog, oracles)
        self.passes = passes

    def iter_rev(self, m, st, it):
        return Opq("rev", (it,))

    def call(self, m, st, callee, args, term):
        name = callee["name"]
        if args:
            v = deref_all(m, st, args[0])
            base = v.data[0] if isinstance(v, Opq) and v.kind == "consumed" else v
            if isinstance(base, Opq) and chain_base(base) is not None and chain_base(base).tag == self.passes.tag:
                if name == "clone":
                    return v
                if name == "skip_while" and callee["path"].startswith(IT):
                    if isinstance(v, Opq) and v.kind == "consumed":
                        raise AnalysisError("an adaptor is applied to a partly consumed iterator over the input")
                    return Opq("skip_while", (v, args[1], ip.boolean(False)))
                if name in CONSUMERS and ("::Iterator" in callee["path"] or "DoubleEndedIterator" in callee["path"]):
                    return self.consume(m, st, name, args)
                if name in ("count", "last", "fold", "try_fold", "for_each", "collect", "nth", "sum", "max", "min", "zip", "chain", "peekable", "take_while"):
                    raise AnalysisError("Iterator::%s on an iterator over the input: not a pass this analysis summarises" % name)
        return OracleWorld.call(self, m, st, callee, args, term)

    def consume(self, m, st, name, args):
        ref, it = _innermost_ref(m, st, args[0]) if isinstance(args[0], Ref) else (None, args[0])
        if isinstance(it, Opq) and it.kind == "consumed":
            base, hist = it.data
        else:
            base, hist = it, ()
        base = freeze(m, st, base)
        extra = tuple(freeze(m, st, a) for a in args[1:])
        for a in list(extra) + [base]:
            if mut_captures(self.prog, a):
                raise AnalysisError("a closure handed to a pass over the input borrows the caller's state mutably: the pass is not a function of the input alone")
        calls = tuple((h[0], h[1]) for h in hist) + ((name, extra),)
        key = (base, calls)
        p = self.passes.get(key, base, calls)
        want = tuple(h[2] for h in hist)
        feas = sorted({o for o in p["outcomes"] if o[1 : 1 + len(want)] == want and o[0] == "tup"}, key=repr)
        if not feas:
            raise ip.Infeasible()
        pick = feas[0] if len(feas) == 1 else st.choose(("pass", p["id"], want), feas)
        st.emit(("pass", p["id"], pick))
        value = p["values"][pick].fields[len(want)]
        if ref is not None:
            m.store(st, ref.loc, Opq("consumed", (base, hist + ((name, extra, pick[1 + len(want)]),))))
        return value


def extract(prog, body_key, args, input_tag, alphabet, oracles, result_of):
    """Product automaton of a multi-pass validator, in the shape automaton.extract returns."""
    passes = Passes(prog, input_tag, alphabet, oracles)
    w = TopWorld(prog, passes, dict(oracles))
    m = ip.Machine(prog, w)
    outs = m.run(m.start(body_key, list(args)))
    paths = []
    for o in outs:
        if o.kind != "return":
            raise AnalysisError("a path of the validator ends with %s (%s)" % (o.kind, o.info))
        cons = {}
        for e in o.state.events:
            if e[0] == "pass":
                cons[e[1]] = e[2]  # the longest outcome tuple of a pass subsumes its prefixes
        paths.append((cons, result_of(o)))
    if not passes.by_key:
        raise AnalysisError("no pass over the input was met")
    ps = sorted(passes.by_key.values(), key=lambda p: p["id"])

    def decide(outcomes):
        res = {r for cons, r in paths if all(outcomes[i] == c for i, c in cons.items())}
        if len(res) != 1:
            raise AnalysisError("the passes' outcomes %s select %d results" % (outcomes, len(res)))
        return res.pop()

    aut = au.Automaton()
    s0 = tuple(p["dfa"]["init"] for p in ps)
    ids = {s0: 0}
    work = collections.deque([s0])
    while work:
        s = work.popleft()
        q = ids[s]
        for a in alphabet:
            n = tuple(p["dfa"]["step"][(x, a)] for p, x in zip(ps, s))
            if n not in ids:
                if len(ids) > 50000:
                    raise AnalysisError("product of the passes too large")
                ids[n] = len(ids)
                work.append(n)
            aut.delta[(q, a)] = au.Transition(a, (), ids[n], None)
        outcomes = {p["id"]: p["dfa"]["out"][x] for p, x in zip(ps, s)}
        aut.delta[(q, au.END)] = au.Transition(au.END, (), None, decide(outcomes))
    aut.states = {s: i for s, i in ids.items()}
    aut.initial = au.Transition(None, (), 0, None)
    aut.passes = [{"id": p["id"], "calls": [c[0] for c in p["calls"]], "reverse": n_rev(p["base"]) % 2 == 1, "outcomes": len(p["outcomes"])} for p in ps]
    return aut
