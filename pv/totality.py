"""TotalWorld — the A4 policy behind C01: can this function panic, slice inside a character, or loop forever?

Every argument is an unconstrained atom. Private callees are inlined; callees that are themselves roots
of the analysis (pub / trait-impl methods, analysed separately for all arguments) and external callees
without a documented panic answer with an unconstrained value of their return type. Loops are widened
(what changes is havocked; the path closes when the state is subsumed), with two candidate invariants
carried through the havoc: "v < number of chars of s" and the byte-offset / char-index provenance of
an integer. Overflow and bounds asserts must be *proved* from the path's facts; anything unproved is
recorded, never assumed."""
import re

from . import interp as ip
from . import types as ty_
from .interp import INLINE, AnalysisError, Adt, I, Opq, Outcome, Ref, Str, Sym, Top, Tup, lin_parts, mk_lin, rng_get
from .models import _with_post, deref, deref_all
from .worlds import OracleWorld

PROV_WORDS = {"charidx": "a character index (chars().enumerate())", "unknown": "of unknown provenance", "const": "a non-zero constant", "offset-arith": "arithmetic on an offset", "len": "the length of another string", "byteoff": "a byte offset of another string"}

# documented capacity / usize-overflow panics: allocation-size class, out of scope (DESIGN §8)
SIZE_CLASS = {
    "alloc::string::String::push": "capacity overflow (allocation size)",
    "alloc::string::String::push_str": "capacity overflow (allocation size)",
    "alloc::string::String::reserve": "capacity overflow (allocation size)",
    "alloc::string::String::with_capacity": "capacity overflow (allocation size)",
    "alloc::vec::Vec::<T>::with_capacity": "capacity overflow (allocation size)",
    "alloc::vec::Vec::<T, A>::push": "capacity overflow (allocation size)",
    "alloc::vec::Vec::<T, A>::reserve": "capacity overflow (allocation size)",
    "core::iter::traits::iterator::Iterator::enumerate": "index overflows usize only after usize::MAX items",
    "<core::iter::adapters::enumerate::Enumerate<I> as core::iter::traits::iterator::Iterator>::next": "index overflows usize only after usize::MAX items",
    "core::iter::traits::iterator::Iterator::collect": "allocation size",
    "core::iter::traits::iterator::Iterator::count": "usize overflow after usize::MAX items",
}
# externals that can panic but whose rustdoc has no `# Panics` section (trait impls, macros)
MAY_PANIC = [
    r"^core::str::traits::<impl core::ops::index::Index(Mut)?<I> for str>::index(_mut)?$",
    r"^core::slice::index::<impl core::ops::index::Index(Mut)?<I> for \[T\]>::index(_mut)?$",
    r"^<alloc::vec::Vec<T, A> as core::ops::index::Index(Mut)?<I>>::index(_mut)?$",
    r"^<alloc::string::String as core::ops::index::Index(Mut)?<I>>::index(_mut)?$",
    r"^alloc::string::String::(insert|insert_str|remove|truncate|drain|split_off|replace_range|retain)$",
    r"^core::str::<impl str>::(split_at|split_at_mut|repeat)$",
    r"^core::option::Option::<T>::(unwrap|expect|unwrap_unchecked)$",
    r"^core::result::Result::<T, E>::(unwrap|expect|unwrap_err|expect_err)$",
    r"^core::panicking::",
    r"^std::rt::",
    r"^std::panicking::",
    r"^core::cell::RefCell::<T>::(borrow|borrow_mut)$",
    r"^core::char::methods::<impl char>::(from_digit|to_digit)$",
    r"^core::num::<impl \w+>::(pow|abs|div_euclid|rem_euclid|ilog\w*|next_power_of_two)$",
    r"^core::slice::<impl \[T\]>::(split_at|split_at_mut|chunks|chunks_exact|windows|copy_from_slice|swap|rotate_left|rotate_right)$",
    r"^core::iter::traits::iterator::Iterator::step_by$",
    r"^std::process::(abort|exit)$",
    r"^core::intrinsics::",
    r"^core::hint::unreachable_unchecked$",
]
MAY_PANIC_RE = [re.compile(p) for p in MAY_PANIC]


def may_panic(prog, path):
    e = prog.externs.get(path) or {}
    if e.get("panics_doc"):
        return True
    return any(r.search(path) for r in MAY_PANIC_RE)


def _utf8_len(cp):
    return 1 if cp < 0x80 else 2 if cp < 0x800 else 3 if cp < 0x10000 else 4


_LOOPY = {}


def loopy_bodies(prog):
    """Bodies that contain a loop, directly or through resolved workspace callees."""
    key = id(prog)
    if key in _LOOPY:
        return _LOOPY[key]
    direct = {k for k, b in prog.bodies.items() if not b.ext and b.kind in ("fn", "closure") and b.loops()}
    callers = {}
    for k, b in prog.bodies.items():
        if b.ext or b.kind not in ("fn", "closure"):
            continue
        for kind, tgt, t, bb in prog.call_edges(b):
            if kind in ("call", "closure", "fnptr") and prog.is_ws(tgt):
                callers.setdefault(tgt, set()).add(k)
    out = set(direct)
    work = list(direct)
    while work:
        x = work.pop()
        for c in callers.get(x, ()):
            if c not in out:
                out.add(c)
                work.append(c)
    _LOOPY[key] = out
    return out


class TotalWorld(OracleWorld):
    max_steps = 400000
    inline_depth = 30
    lazy_discriminant = True

    def __init__(self, prog, roots, entry):
        OracleWorld.__init__(self, prog)
        self.roots = set(roots)
        self.entry = entry
        self.findings = []  # (kind, site, detail)
        self.visited_sites = set()  # (body key, bb) of asserts / may-panic calls seen
        self.loop_evidence = {}  # (body id, head) -> list of dicts
        self.size_class_sites = set()
        self.loopy = loopy_bodies(prog)
        self.probe_panics = []

    # ------------------------------------------------------------------ bookkeeping
    def site(self, st):
        fr = st.frames[-1]
        return (fr.body.key, fr.bb)

    def finding(self, st, kind, detail, term=None):
        fr = st.frames[-1]
        if fr.body.ext:
            return  # inside an interpreted std body: std is assumed total (DESIGN §8)
        sp = (term or fr.body.blocks[fr.bb]["term"]).get("span") or {}
        from .mir import norm_file

        stack = [f.body.id for f in st.frames]
        self.findings.append({"kind": kind, "fn": fr.body.id, "bb": fr.bb, "where": "%s:%s" % (norm_file(sp.get("file")), sp.get("line")), "detail": detail, "via": stack})

    def n(self, st):
        st.ext["fresh"] = st.ext.get("fresh", 0) + 1
        return st.ext["fresh"]

    def decide(self, st, kind, options):
        """A fresh binary/n-ary decision; the key is stable when the statement is re-executed after a fork."""
        key = (kind, st.ext.get("fresh", 0) + 1)
        ans = st.choose(key, options)
        self.n(st)
        return ans

    def fresh(self, st, ty, hint):
        return ty_.fresh(self.prog, ty, (hint, self.n(st)))

    def dest_ty(self, st, term):
        fr = st.frames[-1]
        if term["dest"]["p"]:
            return "?"
        return fr.body.locals[term["dest"]["l"]]["ty"]

    # ------------------------------------------------------------------ loops
    def loop_policy(self, body, head):
        return "widen"

    def _widen_scalar(self, st, vals, lty, name):
        """Widen integer values; keeps the candidate invariants that hold for all of them."""
        w = Sym(name, lty)
        cands = []
        if all(self.lt_count(st, v) for v in vals):
            cands.append("ltc")
            st.facts[("ltc", w.name)] = 0
        provs = {self.provenance(v) for v in vals}
        provs.discard(("const0",))
        if len(provs) == 1:
            p = provs.pop()
            if p[0] in ("byteoff", "charidx"):
                w = Sym((p[0], p[1], ("w", self.n(st))), lty)
                if "ltc" in cands:
                    st.facts[("ltc", w.name)] = 0
                st.facts[("le", w.name, ("len", p[1]))] = True
                cands.append("prov:%s" % p[0])
        return w, cands

    def _widen_struct(self, st, vals, ty, hint):
        """Component-wise widening of tuples and Options (None ⊔ Some(x) is an Option of unknown variant
        whose payload, once inspected, is the widened x: see fresh_field)."""
        ty = ty.strip()
        if ty in ip.INT_BITS and ty not in ("bool", "char"):
            if all(isinstance(v, (I, Sym)) for v in vals):
                return self._widen_scalar(st, vals, ty, ("w", hint, self.n(st)))[0]
            return None
        if ty.startswith("(") and ty.endswith(")"):
            parts = ty_.split_top(ty[1:-1])
            if all(isinstance(v, Tup) and len(v.fields) == len(parts) for v in vals):
                out = []
                for i, pt in enumerate(parts):
                    c = self._widen_struct(st, [v.fields[i] for v in vals], pt, (hint, i))
                    if c is None:
                        c = ty_.fresh(self.prog, pt, ("w", hint, i, self.n(st)))
                    out.append(c)
                return Tup(tuple(out))
            return None
        head, args = ty_.generic_args(ty)
        if head == ip.OPTION and args and all(isinstance(v, Adt) and v.ty == ip.OPTION for v in vals):
            somes = [v.fields[0] for v in vals if v.variant == 1]
            if not somes:
                return None
            payload = self._widen_struct(st, somes, args[0], (hint, "some"))
            if payload is None:
                return None
            if len(somes) == len(vals):
                return ip.some(payload)
            w = Sym(("w-opt", hint, self.n(st)), ty)
            st.ext["tpl:%r" % (w.name,)] = payload
            return w
        return None

    def _widen_by_shape(self, st, vals, hint):
        """Widening when the declared type says nothing (a generic parameter of an interpreted std body,
        e.g. try_fold's accumulator `B`): the values' own shape decides."""
        if all(isinstance(v, Tup) for v in vals) and len({len(v.fields) for v in vals}) == 1:
            out = []
            for i in range(len(vals[0].fields)):
                c = self._widen_by_shape(st, [v.fields[i] for v in vals], (hint, i))
                if c is None:
                    return None
                out.append(c)
            return Tup(tuple(out))
        if all(isinstance(v, (I, Sym)) for v in vals):
            tys = {v.ty for v in vals}
            if len(tys) == 1:
                ty = tys.pop()
                if len(set(vals)) == 1:
                    return vals[0]
                if ty in ip.INT_BITS and ty not in ("bool", "char"):
                    return self._widen_scalar(st, vals, ty, ("w", hint, self.n(st)))[0]
                return Sym(("w", hint, self.n(st)), ty)
        if all(isinstance(v, (Adt, Sym)) for v in vals):
            tys = {(v.ty.split("<")[0]) for v in vals}
            if len(tys) == 1:
                ty = tys.pop()
                if len(set(vals)) == 1:
                    return vals[0]
                if ty == ip.OPTION and all(isinstance(v, Adt) or (isinstance(v.name, tuple) and v.name and v.name[0] == "w-opt") for v in vals):
                    # None ⊔ Some(x) ⊔ (an earlier widened Option): an Option of unknown variant whose payload is
                    # the widened payload
                    somes = []
                    for v in vals:
                        if isinstance(v, Adt):
                            if v.variant == 1:
                                somes.append(v.fields[0])
                        else:
                            t_ = st.ext.get("tpl:%r" % (v.name,))
                            if t_ is not None:
                                somes.append(t_)
                    if somes:
                        payload = somes[0] if len(set(somes)) == 1 else self._widen_by_shape(st, somes, (hint, "some"))
                        if payload is not None:
                            w = Sym(("w-opt", hint, self.n(st)), next((v.ty for v in vals if "<" in v.ty), ip.OPTION + "<?>"))
                            st.ext["tpl:%r" % (w.name,)] = payload
                            return w
                a = self.prog.adts.get(ty)
                if a is not None and a["kind"] == "Enum" and all(not x["fields"] for x in a["variants"]):
                    return Sym(("w", hint, self.n(st)), ty)
                adts = [v for v in vals if isinstance(v, Adt)]
                if len(adts) == len(vals) and len({v.variant for v in adts}) == 1:
                    out = []
                    for i in range(len(adts[0].fields)):
                        c = self._widen_by_shape(st, [v.fields[i] for v in adts], (hint, i))
                        if c is None:
                            return None
                        out.append(c)
                    return Adt(adts[0].ty, adts[0].variant, tuple(out))
        return None

    def fresh_field(self, st, sym, variant, i, ty):
        tpl = st.ext.get("tpl:%r" % (sym.name,))
        if tpl is not None and variant == 1 and i == 0:
            return tpl
        v = OracleWorld.fresh_field(self, st, sym, variant, i, ty)
        # an integer inside an element of a folded table static lies between the table's least and greatest
        # code point (so `end + 1` on a row of a real table cannot overflow)
        if isinstance(v, Sym) and v.ty == "u32":
            root = sym.name
            while isinstance(root, tuple) and root and root[0] in ("field", "lo", "hi") and len(root) > 1:
                root = root[1]
            b = st.facts.get(("elem-bounds", root))
            if b is not None:
                st.facts[("rng", v.name)] = (b,)
        return v

    def table_bounds(self, tab):
        cache = self.__dict__.setdefault("_table_bounds", {})
        if "all" not in cache:
            from . import tables

            try:
                cache["all"] = tables.all_tables(self.prog)[0]
            except Exception:
                cache["all"] = {}
        rows = cache["all"].get(tab)
        if not rows:
            return None
        return (min(r[0] for r in rows), max(r[1] for r in rows))

    def _inv_ok(self, st, tpl, arr):
        """Does the arriving value satisfy what the widened value promises (provenance, `< count`)?"""
        if isinstance(tpl, Sym) and isinstance(tpl.name, tuple) and tpl.name and tpl.name[0] == "w-opt":
            if arr == tpl:
                return True
            payload = st.ext.get("tpl:%r" % (tpl.name,))
            if isinstance(arr, Adt) and arr.ty == ip.OPTION:
                return arr.variant == 0 or self._inv_ok(st, payload, arr.fields[0])
            return False
        if isinstance(tpl, Adt) and isinstance(arr, Adt) and tpl.ty == arr.ty:
            return tpl.variant == arr.variant and all(self._inv_ok(st, a, b) for a, b in zip(tpl.fields, arr.fields))
        if isinstance(tpl, Tup) and isinstance(arr, Tup) and len(tpl.fields) == len(arr.fields):
            return all(self._inv_ok(st, a, b) for a, b in zip(tpl.fields, arr.fields))
        if isinstance(tpl, Sym) and tpl.ty in ip.INT_BITS and tpl.ty not in ("bool", "char"):
            pt = self.provenance(tpl)
            if pt[0] in ("byteoff", "charidx"):
                pa = self.provenance(arr)
                if pa != ("const0",) and pa[:2] != pt[:2]:
                    return False
            if st.facts.get(("ltc", tpl.name)) is not None and not self.lt_count(st, arr):
                return False
            return True
        return True

    def widen(self, m, st, fr, local, old, new, n):
        lty = fr.body.locals[local]["ty"]
        ev = {"fn": fr.body.id, "head": fr.bb, "local": fr.body.local_name(local), "ty": lty}
        vals = [v for v in (old, new) if v is not m._MISSING]
        if not (lty in ip.INT_BITS) and len(vals) == 2:
            if re.match(r"^[A-Z][A-Za-z0-9]*$", lty) or lty == "?":
                sw = self._widen_by_shape(st, vals, (fr.uid, local, n))
            else:
                sw = self._widen_struct(st, vals, lty, (fr.uid, local, n))
            if sw is not None:
                st.ext["inv:%r" % ((fr.uid, local),)] = ("struct",)
                ev["invariants"] = ["component-wise"]
                self.loop_evidence.setdefault((fr.body.id, fr.bb), []).append(ev)
                return sw
        w = ty_.fresh(self.prog, lty, ("w", fr.uid, local, n, self.n(st)))
        if isinstance(w, Sym) and lty in ip.INT_BITS and lty != "bool" and lty != "char":
            # candidate invariants that held for both the first and the arriving value
            w, cands = self._widen_scalar(st, vals, lty, w.name)
            st.ext["inv:%r" % ((fr.uid, local),)] = tuple(cands)
            ev["invariants"] = cands
            # step of the counter, for the termination argument
            if isinstance(new, Sym) and isinstance(old, (Sym, I)):
                bo, ko = lin_parts(old) if isinstance(old, Sym) else (None, None)
                bn, kn = lin_parts(new)
                if bo is not None and bo == bn:
                    ev["step"] = kn - ko
        self.loop_evidence.setdefault((fr.body.id, fr.bb), []).append(ev)
        return w

    def check_invariant(self, m, st, fr, local, assumed, arriving):
        cands = st.ext.get("inv:%r" % ((fr.uid, local),))
        ev = {"fn": fr.body.id, "head": fr.bb, "local": fr.body.local_name(local), "arrival": True}
        if isinstance(assumed, Sym) and isinstance(arriving, Sym):
            ba, ka = lin_parts(assumed)
            bn, kn = lin_parts(arriving)
            if ba == bn:
                ev["step"] = kn - ka
        if cands == ("struct",):
            if not self._inv_ok(st, assumed, arriving):
                n_re = st.ext.get("rewiden:%r" % ((fr.uid, local),), 0)
                if n_re < 3:
                    st.ext["rewiden:%r" % ((fr.uid, local),)] = n_re + 1
                    return "rewiden"
                raise AnalysisError("the widened value of `%s` is not an invariant of the loop in %s (provenance of a component changes)" % (fr.body.local_name(local), fr.body.id))
            ev["invariants_hold"] = ["component-wise"]
        elif cands:
            for c in cands:
                if c == "ltc" and not self.lt_count(st, arriving):
                    raise AnalysisError("loop invariant `%s < chars().count()` is not inductive in %s" % (fr.body.local_name(local), fr.body.id))
                if c.startswith("prov:"):
                    p = self.provenance(arriving)
                    if p[0] != c[5:] and p != ("const0",):
                        raise AnalysisError("provenance of `%s` is not stable across the loop in %s" % (fr.body.local_name(local), fr.body.id))
            ev["invariants_hold"] = list(cands)
        self.loop_evidence.setdefault((fr.body.id, fr.bb), []).append(ev)

    # ------------------------------------------------------------------ integer facts
    def provenance(self, v):
        if isinstance(v, I):
            return ("const0",) if v.v == 0 else ("const", v.v)
        if isinstance(v, Sym):
            b, k = lin_parts(v)
            if isinstance(b, tuple) and b and b[0] in ("byteoff", "charidx") and k == 0:
                return (b[0], b[1])
            if isinstance(b, tuple) and b and b[0] == "len" and k == 0:
                return ("len", b[1])
            if isinstance(b, tuple) and b and b[0] in ("byteoff", "charidx"):
                return ("offset-arith", b[0], b[1], k)
        return ("unknown",)

    def lt_count(self, st, v):
        """Is v < (number of chars of the string) known?"""
        if isinstance(v, Sym):
            b, k = lin_parts(v)
            km = st.facts.get(("ltc", b))
            return km is not None and k <= km
        return False

    def _elem_bounds(self, st, name):
        """Bounds of an integer that lives inside an element of a folded table static."""
        root = name
        while isinstance(root, tuple) and root and root[0] in ("field", "lo", "hi") and len(root) > 1:
            root = root[1]
        return st.facts.get(("elem-bounds", root))

    def lower_bound(self, st, v):
        if isinstance(v, I):
            return v.v
        if isinstance(v, Sym):
            b, k = lin_parts(v)
            r = rng_get(st, Sym(b, v.ty))
            eb = self._elem_bounds(st, b) if v.ty == "u32" else None
            return max(r[0][0], eb[0] if eb else r[0][0]) + k
        return None

    def upper_bound(self, st, v):
        if isinstance(v, I):
            return v.v
        if isinstance(v, Sym):
            b, k = lin_parts(v)
            r = rng_get(st, Sym(b, v.ty))
            eb = self._elem_bounds(st, b) if v.ty == "u32" else None
            return min(r[-1][1], eb[1] if eb else r[-1][1]) + k
        return None

    def binop_hook(self, st, op, a, b):
        base = op.replace("WithOverflow", "")
        if op in ("Shr", "ShrUnchecked", "BitAnd") and isinstance(a, Sym) and isinstance(b, I) and a.ty in ip.INT_BITS and a.ty not in ("bool", "char") and not a.ty.startswith("i"):
            # interval arithmetic for the two operations table-index computations use: x >> k and x & mask
            r = rng_get(st, a)
            lo, hi = r[0][0], r[-1][1]
            res = Sym(("bits", op, self.n(st)), a.ty)
            if op == "BitAnd":
                st.facts[("rng", res.name)] = ((0, min(hi, b.v)),)
            else:
                st.facts[("rng", res.name)] = ((lo >> b.v, hi >> b.v),)
            return res
        if not op.endswith("WithOverflow") or base not in ("Add", "Sub"):
            if op in ("Lt", "Le", "Gt", "Ge", "Eq", "Ne") and (isinstance(a, Top) or isinstance(b, Top)):
                return Sym(("unproved-cmp", op, self.n(st)), "bool")
            if op == "Lt" and isinstance(a, Sym) and isinstance(b, I):
                # bounds check `idx < len` for an index produced by a binary search on a table of that length
                tab = st.facts.get(("idx-of", a.name))
                if tab is not None and isinstance(tab, str) and self.table_len(tab) == b.v:
                    return ip.boolean(True)
            if op == "Lt" and isinstance(a, Sym) and isinstance(b, Sym) and isinstance(b.name, tuple) and b.name[0] == "slice-len":
                # `idx < slice.len()` where idx is the Ok payload of a binary search on that very slice
                tab = st.facts.get(("idx-of", a.name))
                if tab is not None and tab == b.name[1]:
                    return ip.boolean(True)
            return None
        if isinstance(a, I) and isinstance(b, I):
            return None
        tyname = a.ty if hasattr(a, "ty") else "usize"
        lo_t, hi_t = ip.int_range(tyname)
        proved = False
        res = None
        if base == "Add" and isinstance(a, Sym) and isinstance(b, I):
            # `pos + c.len_utf8()` for the character c that starts at byte offset pos: the next char boundary
            bs, k = lin_parts(a)
            chn = st.facts.get(("char-at", bs)) if k == 0 and isinstance(bs, tuple) and bs[0] == "byteoff" else None
            if chn is not None:
                r = rng_get(st, Sym(chn, "char"))
                if _utf8_len(r[0][0]) == _utf8_len(r[-1][1]) == b.v:
                    nxt = Sym(("byteoff", bs[1], ("after", bs[2])), a.ty)
                    st.facts[("le", nxt.name, ("len", bs[1]))] = True
                    return Tup((nxt, ip.boolean(False)))
        if isinstance(a, Sym) and isinstance(b, I):
            bs, k = lin_parts(a)
            if base == "Sub":
                res = mk_lin(bs, k - b.v, a.ty)
                lb = self.lower_bound(st, a)
                proved = lb is not None and lb - b.v >= lo_t
            else:
                res = mk_lin(bs, k + b.v, a.ty)
                ub = self.upper_bound(st, a)
                proved = (ub is not None and ub + b.v <= hi_t) or (b.v >= 0 and st.facts.get(("ltc", bs)) is not None and k + b.v - 1 <= st.facts[("ltc", bs)])
        elif isinstance(a, Sym) and isinstance(b, Sym) and base == "Sub":
            ba, ka = lin_parts(a)
            bb_, kb = lin_parts(b)
            if ba == bb_:
                res = I(ka - kb, a.ty)
                proved = ka >= kb
            else:
                res = Sym(("diff", a.name, b.name), a.ty)
                proved = st.facts.get(("le", b.name, a.name)) is True
        if res is None:
            res = Sym(("arith", self.n(st)), tyname)
        if proved:
            return Tup((res, ip.boolean(False)))
        return Tup((res, Sym(("unproved-overflow", op, repr(a), repr(b)), "bool")))

    def visit_assert(self, st, term):
        if st.frames[-1].body.ext:
            return
        self.visited_sites.add(self.site(st))

    def on_assert(self, m, st, term, cond):
        self.finding(st, "unproved-assert", "%s: cannot prove %s never fails (condition %r)" % (term["msg"], term["msg"], cond.name if isinstance(cond, Sym) else cond), term)
        return True

    def table_len(self, tab):
        s = self.prog.statics.get(tab)
        if s:
            mm = re.search(r";\s*(\d+)\]$", s["ty"])
            if mm:
                return int(mm.group(1))
        return None

    # ------------------------------------------------------------------ calls
    def call(self, m, st, callee, args, term):
        p = callee["path"]
        if p in SPECIAL:
            return SPECIAL[p](self, m, st, callee, args, term)
        if p.startswith("core::cmp::impls::<impl core::cmp::Partial") or p.startswith("core::tuple::<impl core::cmp::Partial") or p.startswith("core::cmp::PartialEq::") or p.startswith("core::cmp::PartialOrd::"):
            a = deref_all(m, st, args[0])
            b = deref_all(m, st, args[1]) if len(args) > 1 else None
            if not (isinstance(a, (I, Sym)) and isinstance(b, (I, Sym))):
                # comparison of compound values: std's impls are total; local impls are roots of their own
                return self.fresh(st, self.dest_ty(st, term), "cmp")
        if callee.get("virtual") or not callee["resolved"]:
            if p in m.models:
                r = m.models[p](m, st, callee, args, term)
                if r is not None:
                    return r
            d = m.default_method_body(callee)
            if d is not None and m.ext_simple(d.key) and st.frames[-1].body.ext:
                return None  # a provided std method called from std code on an abstract receiver
            # dyn / generic trait call: every implementation is analysed separately as a root
            return self.fresh(st, self.dest_ty(st, term), "unresolved:" + callee["name"])
        if self.prog.is_ws(p):
            # a callee that is itself a root is analysed for all arguments on its own; it is cut here only
            # when it (transitively) contains a loop — loop-free roots are inlined, which keeps their
            # post-conditions (e.g. "partial_cmp never returns None")
            if p in self.roots and p != self.entry and p in self.loopy:
                return self.fresh(st, self.dest_ty(st, term), "root:" + callee["name"])
            return None  # inline
        # external
        if may_panic(self.prog, p):
            self.visited_sites.add(self.site(st))
            if p in SIZE_CLASS:
                self.size_class_sites.add(self.site(st) + (p,))
            elif p not in m.models and p not in MODELLED_HERE:
                self.finding(st, "may-panic-call", "call of %s, which can panic, is not discharged by any rule" % p, term)
                return self.fresh(st, self.dest_ty(st, term), "ext")
        if p in m.models and p not in OVERRIDE_DEFAULT:
            r = m.models[p](m, st, callee, args, term)
            if r is not None:
                return r
        if p in self.prog.bodies and m.ext_simple(p):
            return None  # an exported std combinator made of plain MIR: interpret it (its closures get visited)
        d = m.default_method_body(callee)
        if d is not None and m.ext_simple(d.key):
            return None
        return self.fresh(st, self.dest_ty(st, term), "ext:" + callee["name"])

    def indirect_call(self, m, st, fval, args, term):
        return self.fresh(st, self.dest_ty(st, term), "indirect")

    def virtual_call(self, m, st, callee, args, term):
        return self.fresh(st, self.dest_ty(st, term), "virtual")

    def probe(self, m, st, fval, cargs):
        """Interpret a callable once, in a side exploration, only to visit its sites (panics and findings
        are recorded on the world); the main path continues with an unconstrained result."""
        sub = st.clone()
        sub.ext["probe-depth"] = sub.ext.get("probe-depth", 0) + 1
        t = {"dest": {"l": 0, "p": []}, "target": None, "span": {}, "callee": None, "args": []}
        r = m.call_value(sub, fval, list(cargs), t)
        if not (isinstance(r, tuple) and r and r[0] is INLINE):
            return
        fr = sub.frames[-1]
        m.push_frame(sub, fr, {"dest": {"l": 0, "p": []}, "target": None}, r[1], r[2])
        sub.frames[-1].note = "probe"
        for o in m.run(sub):
            if o.kind == "panic":
                self.probe_panics.append((o.info, [f.body.id for f in o.state.frames]))

    # ------------------------------------------------------------------ strings
    def tag_of(self, s):
        if isinstance(s, Str):
            return s.tag
        if isinstance(s, Opq) and s.kind == "buf":
            return s.data[0]
        raise AnalysisError("not a string: %r" % (s,))

    def str_eq(self, st, a, b):
        return self.decide(st, "str-eq", [True, False])

    def str_variant(self, st, v, rv):
        return 0 if self.decide(st, "cow-variant", ["Borrowed", "Owned"]) == "Borrowed" else 1

    def str_is_empty(self, st, s):
        return Sym(("is_empty", self.n(st)), "bool")

    def new_buf(self, st, content):
        return Opq("buf", (self.tag_of(content), 0))

    def buf_content(self, st, buf):
        return Str(("bufcontent", buf.data[0], buf.data[1], self.n(st)) if buf.data[1] else buf.data[0])

    def str_len(self, st, s):
        if isinstance(s, Opq) and s.kind == "buf":
            if s.data[1] == 0:
                return self.str_len(st, Str(s.data[0]))
            return Sym(("len", ("buf", self.n(st))), "usize")
        if isinstance(s, Str):
            t = s.tag
            if isinstance(t, tuple) and t and t[0] == "slice" and t[2] == ("int", 0):
                return t[3][1] if t[3][0] == "val" else Sym(("len", t), "usize")
            return Sym(("len", t), "usize")
        return Top("usize")

    def buf_push(self, m, st, bufref, ch):
        b = m.load(st, bufref.loc) if isinstance(bufref, Ref) else bufref
        if isinstance(b, Opq) and b.kind == "buf" and isinstance(bufref, Ref):
            m.store(st, bufref.loc, Opq("buf", (b.data[0], 1)))
        return ip.UNIT

    def buf_pop(self, m, st, bufref):
        if self.decide(st, "pop", ["None", "Some"]) == "None":
            return ip.none()
        b = m.load(st, bufref.loc) if isinstance(bufref, Ref) else bufref
        if isinstance(b, Opq) and b.kind == "buf" and isinstance(bufref, Ref):
            m.store(st, bufref.loc, Opq("buf", (b.data[0], 1)))
        return ip.some(Sym(("ch", self.n(st)), "char"))

    def chars_next(self, m, st, itref):
        if self.decide(st, "next", ["None", "Some"]) == "None":
            return ip.none()
        return ip.some(Sym(("ch", self.n(st)), "char"))

    def _iter_tag(self, m, st, it):
        it = deref_all(m, st, it)
        while isinstance(it, Opq) and it.kind in ("enumerate",):
            it = it.data[0]
        if isinstance(it, Opq) and it.kind in ("chars", "char_indices"):
            return self.tag_of(it.data[0])
        return ("?", self.n(st))

    def _elem(self, m, st, it):
        """A fresh element of an iterator expression over a string: what one `next()` may yield."""
        it = deref_all(m, st, it)
        if isinstance(it, Opq) and it.kind in ("skip", "rev"):
            return self._elem(m, st, it.data[0])
        if isinstance(it, Opq) and it.kind == "chars":
            return Sym(("ch", self.n(st)), "char")
        if isinstance(it, Opq) and it.kind == "char_indices":
            tag = self.tag_of(it.data[0])
            idx = Sym(("byteoff", tag, self.n(st)), "usize")
            st.facts[("le", idx.name, ("len", tag))] = True
            ch = Sym(("ch", self.n(st)), "char")
            st.facts[("char-at", idx.name)] = ch.name  # the character that starts at this byte offset
            return Tup((idx, ch))
        if isinstance(it, Opq) and it.kind == "enumerate":
            tag = self._iter_tag(m, st, it)
            idx = Sym(("charidx", tag, self.n(st)), "usize")
            st.facts[("ltc", idx.name)] = 0
            st.facts[("le", idx.name, ("len", tag))] = True  # index < chars().count() <= len()
            return Tup((idx, self._elem(m, st, it.data[0])))
        return None

    def enumerate_next(self, m, st, itref):
        if self.decide(st, "next", ["None", "Some"]) == "None":
            return ip.none()
        return ip.some(self._elem(m, st, itref))

    def char_indices_next(self, m, st, itref):
        if self.decide(st, "next", ["None", "Some"]) == "None":
            return ip.none()
        return ip.some(self._elem(m, st, itref))

    def iter_rev(self, m, st, it):
        return Opq("rev", (it,))

    def skip_next(self, m, st, itref):
        return self.iter_next(m, st, itref, deref_all(m, st, itref))

    def _known_source(self, m, st, it):
        it = deref_all(m, st, it)
        while isinstance(it, Opq) and it.kind in ("skip", "rev", "enumerate"):
            it = deref_all(m, st, it.data[0])
        return isinstance(it, Opq) and it.kind in ("chars", "char_indices")

    def iter_next_back(self, m, st, ref, it):
        return self.iter_next(m, st, ref, it)

    def iter_next(self, m, st, ref, it):
        if not self._known_source(m, st, it):
            return None
        # (decide before anything fresh is named: a fork re-executes this call)
        if self.decide(st, "next", ["None", "Some"]) == "None":
            return ip.none()
        return ip.some(self._elem(m, st, it))

    def split_at(self, m, st, s, mid):
        """str::split_at panics unless `mid` is on a char boundary of s: a byte offset of s, 0 or its length."""
        self.visited_sites.add(self.site(st))
        tag = self.tag_of(s)
        okk, p = self.bound_ok(st, mid, tag)
        if not okk:
            self.finding(st, "slice-bound", "split_at position is %s: not a byte offset of the split string (may fall inside a multi-byte character or beyond the end)" % PROV_WORDS.get(p[0], p[0]))
        key = ("int", mid.v) if isinstance(mid, I) else ("val", mid)
        return Tup((Ref(("val", Str(("slice", tag, ("int", 0), key)))), Ref(("val", Str(("slice", tag, key, ("end",)))))))

    def iter_nth(self, m, st, itref, n):
        if self.decide(st, "nth", ["None", "Some"]) == "None":
            return ip.none()
        # chars().skip(a).nth(b) reads position a + b
        it = deref_all(m, st, itref)
        pos = n
        while isinstance(it, Opq) and it.kind == "skip":
            a = it.data[1]
            if isinstance(a, Sym) and isinstance(pos, I):
                b0, k0 = lin_parts(a)
                pos = mk_lin(b0, k0 + pos.v, a.ty)
            elif isinstance(a, I) and isinstance(pos, I):
                pos = I(a.v + pos.v, pos.ty)
            elif isinstance(a, I) and isinstance(pos, Sym):
                b0, k0 = lin_parts(pos)
                pos = mk_lin(b0, k0 + a.v, pos.ty)
            else:
                pos = None
                break
            it = deref_all(m, st, it.data[0])
        if isinstance(pos, Sym):
            b, k = lin_parts(pos)
            old = st.facts.get(("ltc", b))
            st.facts[("ltc", b)] = k if old is None else max(old, k)
        e = self._elem(m, st, it)
        return ip.some(e if e is not None else Sym(("ch", self.n(st)), "char"))

    def str_find(self, m, st, s, pred):
        tag = self.tag_of(s)
        ans = self.decide(st, "find", ["None", "Some"])
        if isinstance(pred, (ip.Clo, Ref)) or (isinstance(pred, ip.Fn) and self.prog.is_ws(pred.path)):
            self.probe(m, st, pred, [Sym(("ch", self.n(st)), "char")])
        if ans == "None":
            return ip.none()
        pos = Sym(("byteoff", tag, self.n(st)), "usize")
        st.facts[("le", pos.name, ("len", tag))] = True
        return ip.some(pos)

    def str_ends_with(self, m, st, s, pat):
        """s.ends_with(c) for a character c: when it holds, s has at least len_utf8(c) bytes and
        len - len_utf8(c) is the char boundary where that last character starts."""
        if not isinstance(s, Str):
            return None  # (a buffer under construction: its length is not a fact about a fixed string)
        tag = s.tag
        n = None
        if isinstance(pat, I) and pat.ty == "char":
            n = _utf8_len(pat.v)
        elif isinstance(pat, Sym) and pat.ty == "char":
            r = rng_get(st, pat)
            if _utf8_len(r[0][0]) == _utf8_len(r[-1][1]):
                n = _utf8_len(r[0][0])
        if n is None:
            return None
        if not self.decide(st, "ends_with", [True, False]):
            return ip.boolean(False)
        ln = Sym(("len", tag), "usize")
        r = rng_get(st, ln)
        _lt, ge = ip._rng_split(r, "Lt", n)
        if ge:
            st.facts[("rng", ln.name)] = tuple(ge)
        st.facts[("last-char-len", tag)] = n
        return ip.boolean(True)

    def str_strip_suffix(self, m, st, s, pat):
        """s.strip_suffix(c): None, or the part of s before its last character — a prefix of s that ends on a
        char boundary, so its length is a byte offset of s."""
        if not isinstance(s, Str) or not (isinstance(pat, (I, Sym)) and pat.ty == "char"):
            return None
        if not self.decide(st, "strip_suffix", [True, False]):
            return ip.none()
        tag = s.tag
        k = Sym(("byteoff", tag, ("before-last", self.n(st))), "usize")
        st.facts[("le", k.name, ("len", tag))] = True
        return ip.some(Ref(("val", Str(("slice", tag, ("int", 0), ("val", k))))))

    def bound_ok(self, st, b, tag):
        if isinstance(b, Sym):
            bs, k = lin_parts(b)
            if bs == ("len", tag) and k < 0 and st.facts.get(("last-char-len", tag)) == -k:
                return True, ("byteoff", tag)
        p = self.provenance(b)
        if p == ("const0",):
            return True, p
        if p[0] == "byteoff" and p[1] == tag:
            return True, p
        if p[0] == "len" and p[1] == tag:
            return True, p
        return False, p

    def str_slice(self, m, st, s, rng, callee):
        self.visited_sites.add(self.site(st))
        tag = self.tag_of(s)
        r = deref(m, st, rng)
        if not isinstance(r, Adt):
            raise AnalysisError("slice with range %r" % (r,))
        kind = r.ty.rsplit("::", 1)[1]
        lo = hi = None
        if kind == "RangeTo":
            hi = r.fields[0]
        elif kind == "RangeFrom":
            lo = r.fields[0]
        elif kind == "Range":
            lo, hi = r.fields[0], r.fields[1]
        elif kind == "RangeFull":
            pass
        else:
            self.finding(st, "slice", "slice with %s is not analysed" % r.ty)
        for b, nm in ((lo, "start"), (hi, "end")):
            if b is None:
                continue
            if isinstance(b, I) and b.v > 0 and isinstance(tag, tuple) and len(tag) == 4 and tag[0] == "slice" and tag[2][0] == "val" and isinstance(tag[2][1], Sym):
                # s[pos..][n..] / [..n] with n = len_utf8 of the character that starts at byte offset pos of s
                chn = st.facts.get(("char-at", tag[2][1].name))
                if chn is not None:
                    r_ = rng_get(st, Sym(chn, "char"))
                    if _utf8_len(r_[0][0]) == _utf8_len(r_[-1][1]) == b.v:
                        continue
            okk, p = self.bound_ok(st, b, tag)
            if not okk:
                self.finding(st, "slice-bound", "str slice %s bound is %s: not a byte offset of the sliced string (may fall inside a multi-byte character or beyond the end)" % (nm, PROV_WORDS.get(p[0], p[0])))
        key = lambda b: ("int", 0) if b is None else (("int", b.v) if isinstance(b, I) else ("val", b))
        return Str(("slice", tag, key(lo), key(hi) if hi is not None else ("end",)))

    def str_split_off(self, m, st, s, at):
        """String::split_off panics unless `at` is a char boundary: the same obligation as split_at."""
        head, tail = self.split_at(m, st, s, at).fields
        return head.loc[1], tail.loc[1]

    def replace_range(self, m, st, s, rng, content, callee):
        """String::replace_range panics unless both bounds are char boundaries: the same obligation as slicing.
        Afterwards the string is a different one: offsets taken before no longer speak about it."""
        self.str_slice(m, st, s, rng, callee)
        return Str(("fresh", ("replaced", self.n(st))))

    def char_from_u32(self, m, st, v):
        if self.decide(st, "from_u32", ["None", "Some"]) == "None":
            return ip.none()
        return ip.some(Sym(("ch", self.n(st)), "char"))

    def static_value(self, st, path):
        return Opq("static", (path,))

    def len_hook(self, st, a):
        # PtrMetadata of a slice reference: its length, named after the slice it measures
        v = a
        if isinstance(v, Ref) and v.loc[0] == "static":
            n = self.table_len(v.loc[1])
            if n is not None:
                return I(n, "usize")
            return Sym(("slice-len", v.loc[1]), "usize")
        if isinstance(v, Ref) and v.loc[0] in ("val",) and isinstance(v.loc[1], Opq):
            v = v.loc[1]
        if isinstance(v, Opq) and v.kind == "static":
            n = self.table_len(v.data[0])
            return I(n, "usize") if n is not None else Sym(("slice-len", v.data[0]), "usize")
        if isinstance(v, Opq):
            return Sym(("slice-len", ("slice", v.kind, v.data)), "usize")
        return Top("usize")

    def index_hook(self, st, base, idx):
        self.visited_sites.add(self.site(st))
        if isinstance(base, Opq) and base.kind != "static":
            ident = ("slice", base.kind, base.data)
            tab = st.facts.get(("idx-of", idx.name)) if isinstance(idx, Sym) else None
            # (whether the index is in bounds is the BoundsCheck assertion MIR puts in front of every indexing:
            # proved from a binary-search payload, an interval, or reported as unproved-assert)
            ety = "?"
            if base.kind in ("fresh-ref", "fresh", "const") and isinstance(base.data, tuple):
                mm = re.match(r"^&?\[(.*?)(;\s*\d+)?\]$", str(base.data[0]))
                ety = mm.group(1) if mm else "?"
            return ty_.fresh(self.prog, ety, ("elem", self.n(st)))
        if isinstance(base, Opq) and base.kind == "static":
            path = base.data[0]
            tab = st.facts.get(("idx-of", idx.name)) if isinstance(idx, Sym) else None
            s = self.prog.statics.get(path)
            mm = re.match(r"^\[(.*);\s*\d+\]$", s["ty"]) if s else None
            return ty_.fresh(self.prog, mm.group(1) if mm else "?", ("elem", self.n(st)))
        self.finding(st, "index", "indexing of %r is not analysed" % (base,))
        return Top("?")

    def unevaluated_const(self, st, c):
        return ty_.fresh(self.prog, c["ty"], ("const", self.n(st)))

    def opaque_field(self, st, v, step):
        # a field of an external struct: an unconstrained value of the field's type (the type is read off
        # the MIR's own projections); the same field of the same value is the same atom
        pty = v.data[0] if isinstance(v, Opq) and v.kind == "fresh" and isinstance(v.data, tuple) else None
        fty = self.prog.field_type(pty, step) if pty and isinstance(step, int) else None
        return ty_.fresh(self.prog, fty or "?", ("f", v.data[1] if pty else repr(v)[:40], step))

    def opaque_const(self, st, c):
        return Opq("const", (c.get("ty"), c["k"]))

    def error_conversion(self, st, val, from_ty, to_ty):
        # `?` with From::from between error types: the conversion is total; its value is irrelevant here
        return self.fresh(st, to_ty, "converted-error")


# ---------------------------------------------------------------------------------- special callees
def _elem_of(w, m, st, f, hint):
    c = deref_all(m, st, f)
    if isinstance(c, ip.Clo):
        cb = w.prog.body(c.defpath)
        if cb is not None and cb.arg_count >= 2:
            return ty_.fresh(w.prog, cb.locals[2]["ty"], (hint, w.n(st)))
    return Top("?")


def slice_ident(m, st, sl):
    """What a slice value *is*, for matching a search with a later index: a static's path or the value."""
    if isinstance(sl, Ref) and sl.loc[0] == "static":
        return sl.loc[1]
    v = deref_all(m, st, sl)
    if isinstance(v, Opq) and v.kind == "static":
        return v.data[0]
    if isinstance(v, Opq):
        return ("slice", v.kind, v.data)
    return None


def _bsearch(w, m, st, callee, args, term):
    sl, clo = args
    tab = slice_ident(m, st, sl)
    ans = w.decide(st, "bsearch", ["Ok", "Err"])
    elem = None
    if isinstance(tab, str):
        # the searched slice is a table static: its own element type (the closure's parameter may be generic)
        s_ = w.prog.statics.get(tab)
        mm = re.match(r"^\[(.*);\s*\d+\]$", s_["ty"]) if s_ else None
        if mm:
            hint = ("elem", w.n(st))
            b_ = w.table_bounds(tab)
            if b_ is not None:
                st.facts[("elem-bounds", hint)] = b_
            elem = Ref(("val", ty_.fresh(w.prog, mm.group(1), hint)))
    w.probe(m, st, clo, [elem if elem is not None else _elem_of(w, m, st, clo, "elem")])
    idx = Sym(("bsidx", w.n(st)), "usize")
    if ans == "Ok":
        st.facts[("idx-of", idx.name)] = tab if tab is not None else "?"
        return ip.ok(idx)
    return ip.err(idx)


def _partition_point(w, m, st, callee, args, term):
    """slice.partition_point(pred): some index in 0..=len; the predicate is probed on an arbitrary element
    (it must not panic), the binary search itself is std's."""
    sl, clo = args
    tab = slice_ident(m, st, sl)
    elem = None
    if isinstance(tab, str):
        s_ = w.prog.statics.get(tab)
        mm = re.match(r"^\[(.*);\s*\d+\]$", s_["ty"]) if s_ else None
        if mm:
            elem = Ref(("val", ty_.fresh(w.prog, mm.group(1), ("elem", w.n(st)))))
    w.probe(m, st, clo, [elem if elem is not None else _elem_of(w, m, st, clo, "elem")])
    # (recorded for the exact-lookup rules: what index partition_point yields is not modelled, only that it is one)
    st.log.append((("ppoint", tab if isinstance(tab, str) else "?"), None))
    return Sym(("ppidx", w.n(st)), "usize")


def _slice_edge(w, m, st, callee, args, term):
    """table.first() / table.last() on a folded table static: the concrete row (a lookup helper's range
    pre-check is then decided exactly on the key's intervals)."""
    from .rules import common as _c

    path = _c.static_path_of(m, st, args[0])
    if path is None:
        return None
    try:
        row = _c.edge_row(w.prog, path, callee["name"])
    except AnalysisError:
        return None
    if row is None:
        return ip.none()
    return ip.some(Ref(("val", row)))


def _opt_filter(w, m, st, callee, args, term):
    """Option::filter(pred): the predicate is probed (it must not panic); which way it answers is left open, so
    the paths of the predicate's own case analysis do not multiply the caller's."""
    r = deref_all(m, st, args[0])
    if not (isinstance(r, Adt) and r.ty == ip.OPTION):
        return None
    if r.variant == 0:
        return r
    w.probe(m, st, args[1], [Ref(("val", r.fields[0]))])
    if w.decide(st, "filter", ["keep", "drop"]) == "keep":
        return r
    return ip.none()


def _slice_get(w, m, st, callee, args, term):
    """slice.get(i): Some(&elem) when i is the Ok payload of a binary search on that very slice (always in
    bounds), otherwise either answer."""
    sl, idx = args
    tab = slice_ident(m, st, sl)
    v = deref_all(m, st, sl)
    known = isinstance(idx, Sym) and tab is not None and st.facts.get(("idx-of", idx.name)) == tab
    if not known and w.decide(st, "get", ["None", "Some"]) == "None":
        return ip.none()
    if isinstance(v, Opq) and v.kind == "static":
        s_ = w.prog.statics.get(v.data[0])
        mm = re.match(r"^\[(.*);\s*\d+\]$", s_["ty"]) if s_ else None
        ety = mm.group(1) if mm else "?"
    elif isinstance(sl, Ref) and sl.loc[0] == "static":
        s_ = w.prog.statics.get(sl.loc[1])
        mm = re.match(r"^\[(.*);\s*\d+\]$", s_["ty"]) if s_ else None
        ety = mm.group(1) if mm else "?"
    else:
        ety = "?"
        if isinstance(v, Opq) and v.kind == "fresh-ref" and isinstance(v.data, tuple):
            mm = re.match(r"^\[(.*)\]$", str(v.data[0]))
            ety = mm.group(1) if mm else "?"
    return ip.some(Ref(("val", ty_.fresh(w.prog, ety, ("elem", w.n(st))))))


def _for_each(w, m, st, callee, args, term):
    it, f = args
    w.probe(m, st, f, [_elem_of(w, m, st, f, "item")])
    return ip.UNIT


def _ri_next(w, m, st, callee, args, term):
    r = deref(m, st, args[0])
    if isinstance(r, Adt) and all(isinstance(x, I) for x in r.fields):
        return None if False else m.models[callee["path"]](m, st, callee, args, term)
    if w.decide(st, "next", ["None", "Some"]) == "None":
        return ip.none()
    return ip.some(w.fresh(st, callee["args"][0] if callee["args"] else "i32", "range-item"))


def _char_indices(w, m, st, callee, args, term):
    return Opq("char_indices", (deref_all(m, st, args[0]),))


def _char_indices_next(w, m, st, callee, args, term):
    return w.char_indices_next(m, st, args[0])


def _lazy_get(w, m, st, callee, args, term):
    from . import oncecell

    # get_or_init / force panic only when the initialiser panics (it is interpreted right here, like any callee) or
    # when it re-enters its own cell (which would show up as recursion): the site is discharged by that
    if hasattr(w, "visited_sites"):
        w.visited_sites.add(w.site(st))
    return oncecell.access(m, st, callee, args, term)


SPECIAL = {
    "core::slice::<impl [T]>::binary_search_by": _bsearch,
    "core::slice::<impl [T]>::get": _slice_get,
    "core::slice::<impl [T]>::partition_point": _partition_point,
    "core::option::Option::<T>::filter": _opt_filter,
    "core::slice::<impl [T]>::first": _slice_edge,
    "core::slice::<impl [T]>::last": _slice_edge,
    "core::iter::traits::iterator::Iterator::for_each": _for_each,
    "core::iter::range::<impl core::iter::traits::iterator::Iterator for core::ops::range::RangeInclusive<A>>::next": _ri_next,
    "core::str::<impl str>::char_indices": _char_indices,
    "<core::str::iter::CharIndices<'a> as core::iter::traits::iterator::Iterator>::next": _char_indices_next,
    "lazy_static::lazy::Lazy::<T>::get": _lazy_get,
    "std::sync::once_lock::OnceLock::<T>::get_or_init": _lazy_get,
    "<std::sync::lazy_lock::LazyLock<T, F> as core::ops::deref::Deref>::deref": _lazy_get,
    "std::sync::lazy_lock::LazyLock::<T, F>::force": _lazy_get,
}
MODELLED_HERE = set(SPECIAL)
OVERRIDE_DEFAULT = set()
