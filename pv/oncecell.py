"""Lazily initialised singletons: `lazy_static!`, `OnceLock::get_or_init(f)` and `static X: LazyLock<T> =
LazyLock::new(f)`. All three hand out `&T` where the value is whatever the initialiser `f()` returns, computed
once; the worlds treat the access as a call of the initialiser (so it is analysed like any other call: it must
return, and its result is the value that is then used)."""
from . import interp as ip

LAZY_STATIC_GET = "lazy_static::lazy::Lazy::<T>::get"
ONCELOCK_GET_OR_INIT = "std::sync::once_lock::OnceLock::<T>::get_or_init"
ONCECELL_GET_OR_INIT = "core::cell::once::OnceCell::<T>::get_or_init"
LAZYLOCK_DEREF = "<std::sync::lazy_lock::LazyLock<T, F> as core::ops::deref::Deref>::deref"
LAZYLOCK_FORCE = "std::sync::lazy_lock::LazyLock::<T, F>::force"
LAZYLOCK_NEW = "std::sync::lazy_lock::LazyLock::<T, F>::new"
INIT_CALLS = (LAZY_STATIC_GET, ONCELOCK_GET_OR_INIT)
DEREF_CALLS = (LAZYLOCK_DEREF, LAZYLOCK_FORCE)
ALL = INIT_CALLS + DEREF_CALLS
CELL_TYPES = (r"lazy_static::lazy::Lazy<(.+)>", r"std::sync::once_lock::OnceLock<(.+)>", r"std::sync::lazy_lock::LazyLock<(.+)>")


def payload_type(ty):
    """The T of a once-initialised cell type, or None."""
    import re

    for rx in CELL_TYPES:
        mo = re.match("^" + rx + "$", ty)
        if mo:
            return mo.group(1)
    return None


def lazylock_initialiser(m, static_path):
    """The function given to `LazyLock::new` in the static's initialiser."""
    b = m.prog.body(static_path)
    if b is None:
        raise ip.AnalysisError("initialiser of static %s not exported" % static_path)
    for _bb, t in b.calls():
        c = t.get("callee")
        if c and c["path"] == LAZYLOCK_NEW and t["args"]:
            a = t["args"][0]
            for _ in range(4):
                # `LazyLock::new(path)` / `LazyLock::new(|| …)`: the fn item or closure is first stored in a temporary
                # (and coerced to a fn pointer)
                if not (a.get("k") in ("move", "copy") and not a["place"]["p"]):
                    break
                src = [s_["rv"] for bl in b.blocks for s_ in bl["stmts"] if s_["k"] == "assign" and s_["place"] == a["place"]]
                if len(src) == 1 and src[0]["k"] in ("use", "cast") and isinstance(src[0].get("op"), dict):
                    a = src[0]["op"]
                elif len(src) == 1 and src[0]["k"] == "aggregate" and src[0].get("agg") == "closure" and not src[0].get("ops"):
                    return ip.Clo(src[0]["def"], ())
                else:
                    break
            if a.get("k") == "fn":
                f = a["fn"]
                m.fninfo[f["full"]] = f
                return ip.Fn(f["path"], f["full"])
            raise ip.AnalysisError("LazyLock::new is given %r, not a function" % (a.get("k"),))
    raise ip.AnalysisError("static %s is not built by LazyLock::new(f)" % static_path)


def access(m, st, callee, args, term):
    """Model of the four access functions: the value of the initialiser, by reference. None if `callee` is not one."""
    p = callee["path"]
    if p in INIT_CALLS:
        f = args[1]
    elif p in DEREF_CALLS:
        cell = args[0]
        while isinstance(cell, ip.Ref) and cell.loc[0] != "static":
            cell = m.load(st, cell.loc)
        if not (isinstance(cell, ip.Ref) and cell.loc[0] == "static" and not cell.loc[2]):
            raise ip.AnalysisError("LazyLock that is not a static item: %r" % (cell,))
        f = lazylock_initialiser(m, cell.loc[1])
    else:
        return None
    r = m.call_value(st, f, [], term)
    if isinstance(r, tuple) and r and r[0] is ip.INLINE:
        return (ip.INLINE, r[1], r[2], lambda mm, ss, v: ip.Ref(("val", v)))
    return ip.Ref(("val", r))
