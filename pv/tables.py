"""A5 — fold the table statics out of their initialiser MIR and compare them with the UCD (L2, L5)."""
import os

from . import ucd
from .interp import AnalysisError

CPS = "precis_core::Codepoints"
RINEW = "core::ops::range::RangeInclusive::<Idx>::new"


class NotFoldable(Exception):
    pass


def _const(o):
    k = o["k"]
    if k == "int":
        if "variant_name" in o:
            return ("variant", o["variant_name"])
        return o["v"]
    raise NotFoldable("operand kind %s" % k)


def fold_static(body):
    """Evaluate a table initialiser: straight-line Aggregates and RangeInclusive::new(const, const).
    Returns the list of rows (start, end, value) where value is None, an int or a variant name."""
    env = {}

    def val(o):
        if o["k"] in ("copy", "move"):
            p = o["place"]
            if p["p"]:
                raise NotFoldable("projection in initialiser")
            if p["l"] not in env:
                raise NotFoldable("use of undefined local _%d" % p["l"])
            return env[p["l"]]
        return _const(o)

    bb = 0
    seen = set()
    while True:
        if bb in seen:
            raise NotFoldable("loop in initialiser")
        seen.add(bb)
        bl = body.blocks[bb]
        for st in bl["stmts"]:
            if st["k"] in ("storage_live", "storage_dead"):
                continue
            if st["k"] != "assign" or st["place"]["p"]:
                raise NotFoldable("statement %s" % st["k"])
            rv = st["rv"]
            l = st["place"]["l"]
            if rv["k"] == "use":
                env[l] = val(rv["op"])
            elif rv["k"] == "aggregate":
                ops = [val(o) for o in rv["ops"]]
                agg = rv["agg"]
                if agg == "adt" and rv["adt"] == CPS:
                    if rv["variant_name"] == "Single":
                        env[l] = ("cps", ops[0], ops[0])
                    elif rv["variant_name"] == "Range":
                        r = ops[0]
                        if not (isinstance(r, tuple) and r[0] == "range"):
                            raise NotFoldable("Codepoints::Range of %r" % (r,))
                        env[l] = ("cps", r[1], r[2])
                    else:
                        raise NotFoldable("Codepoints variant %s" % rv["variant_name"])
                elif agg == "adt" and not ops and rv["is_enum"]:
                    env[l] = ("variant", rv["variant_name"])
                elif agg == "tuple":
                    env[l] = ("tuple",) + tuple(ops)
                elif agg == "array":
                    env[l] = ("array", ops)
                else:
                    raise NotFoldable("aggregate %s %s" % (agg, rv.get("adt")))
            else:
                raise NotFoldable("rvalue %s" % rv["k"])
        t = bl["term"]
        if t["k"] == "call":
            c = t["callee"]
            if not c or c["path"] != RINEW or t["dest"]["p"]:
                raise NotFoldable("call to %s" % (c["full"] if c else "?"))
            a, b = [val(o) for o in t["args"]]
            if not (isinstance(a, int) and isinstance(b, int)):
                raise NotFoldable("non-constant range bounds")
            env[t["dest"]["l"]] = ("range", a, b)
            bb = t["target"]
        elif t["k"] == "goto":
            bb = t["target"]
        elif t["k"] == "return":
            break
        else:
            raise NotFoldable("terminator %s" % t["k"])
    arr = env.get(0)
    if not (isinstance(arr, tuple) and arr[0] == "array"):
        raise NotFoldable("initialiser does not build an array")
    rows = []
    for e in arr[1]:
        if e[0] == "cps":
            rows.append((e[1], e[2], None))
        elif e[0] == "tuple" and len(e) == 3 and isinstance(e[1], tuple) and e[1][0] == "cps":
            v = e[2]
            if isinstance(v, tuple) and v[0] == "variant":
                v = v[1]
            rows.append((e[1][1], e[1][2], v))
        else:
            raise NotFoldable("row %r" % (e,))
    return rows


def is_table_static(s):
    return CPS in s["ty"] and s["ty"].startswith("[")


def all_tables(prog):
    """{static path: rows} for every table static of the two library crates; errors collected."""
    tabs = {}
    errs = {}
    for path, s in prog.statics.items():
        if s["crate"] not in ("precis_core", "precis_profiles"):
            continue
        if not is_table_static(s):
            continue
        b = prog.body(path)
        if b is None:
            errs[path] = "initialiser not exported"
            continue
        try:
            tabs[path] = fold_static(b)
        except NotFoldable as e:
            errs[path] = "initialiser not foldable: %s" % e
    return tabs, errs


def check_order(rows):
    """L2: binary_search_by over the extracted comparison semantics (Less iff end<cp, else Greater iff
    start>cp, else Equal) is correct iff for consecutive entries end_i < min(start_{i+1}, end_{i+1}+1).
    Returns a list of problems (empty = ok)."""
    probs = []
    for i, r in enumerate(rows):
        lo, hi = r[0], r[1]
        if hi > ucd.MAXCP or lo > ucd.MAXCP + 1:
            probs.append("row %d (%#x..=%#x) beyond U+10FFFF" % (i, lo, hi))
        if lo > hi and lo != hi + 1:
            probs.append("row %d (%#x..=%#x) is inverted by more than one (not a harmless empty row)" % (i, lo, hi))
    for i in range(len(rows) - 1):
        a, b = rows[i], rows[i + 1]
        if not (a[1] < min(b[0], b[1] + 1)):
            probs.append("rows %d/%d out of search order: %#x..=%#x then %#x..=%#x" % (i, i + 1, a[0], a[1], b[0], b[1]))
    return probs


def value_map(rows, default=None):
    out = [default] * (ucd.MAXCP + 1)
    for lo, hi, v in rows:
        for cp in range(lo, min(hi, ucd.MAXCP) + 1):
            out[cp] = v
    return out


def lookup(rows, cp):
    """The library's binary search, as extracted (used only to cross-check L2 on boundary points)."""
    lo, hi = 0, len(rows)
    while lo < hi:
        mid = (lo + hi) // 2
        s, e = rows[mid][0], rows[mid][1]
        if e < cp:
            lo = mid + 1
        elif s > cp:
            hi = mid
        else:
            return mid
    return None
