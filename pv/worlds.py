"""Reusable analysis policies (Worlds) on top of the A4 machine."""
import re

from . import interp as ip
from .interp import AnalysisError, Adt, I, Opq, Ref, Str, Sym, Top, Tup


STRING_TY = re.compile(r"^(&('[a-z_]+ )?(mut )?)?(str|alloc::string::String|alloc::borrow::Cow<'[a-z_]+, str>)$")


def arg_key(m, st, v, depth=0):
    """A hashable, structural description of an abstract value (used to name uninterpreted results)."""
    if isinstance(v, Ref):
        if v.loc[0] == "static":
            return ("static", v.loc[1]) + tuple(v.loc[2])
        if depth < 4:
            try:
                return ("&", arg_key(m, st, m.load(st, v.loc), depth + 1))
            except AnalysisError:
                return ("&?",)
        return ("&…",)
    if isinstance(v, Sym):
        return ("sym", v.name)
    if isinstance(v, I):
        return ("int", v.v, v.ty)
    if isinstance(v, Str):
        return ("str", v.tag)
    if isinstance(v, Adt):
        return ("adt", v.ty, v.variant) + tuple(arg_key(m, st, f, depth + 1) for f in v.fields)
    if isinstance(v, Tup):
        return ("tup",) + tuple(arg_key(m, st, f, depth + 1) for f in v.fields)
    if isinstance(v, Opq):
        return ("opq", v.kind, v.data)
    if isinstance(v, ip.Fn):
        return ("fn", v.path)
    if isinstance(v, ip.Clo):
        return ("closure", v.defpath)
    return ("top",)


class OracleWorld(ip.World):
    """Leaf calls are answered by oracles: `oracles[path] = f(m, st, callee, args, term) -> value`.
    `uf` lists external callees to be treated as uninterpreted functions of their arguments: the
    result is a term named after the callee and its argument terms (bool results are decided by
    forking, string results are fresh content tags)."""

    def __init__(self, prog, oracles=None, uf=None):
        ip.World.__init__(self, prog)
        self.oracles = dict(oracles or {})
        self.uf = dict(uf or {})
        self.calls_seen = []

    def call(self, m, st, callee, args, term):
        p = callee["path"]
        h = self.oracles.get(p)
        if h is not None:
            return h(m, st, callee, args, term)
        if p in self.uf:
            return self.uf_result(m, st, self.uf[p], callee, args, term)
        if callee.get("virtual"):
            return self.virtual_call(m, st, callee, args, term)
        return None

    def virtual_call(self, m, st, callee, args, term):
        raise AnalysisError("virtual call %s" % callee["orig_full"])

    def uf_result(self, m, st, fname, callee, args, term):
        key = (fname,) + tuple(arg_key(m, st, a) for a in args)
        fr = st.frames[-1]
        dty = fr.body.locals[term["dest"]["l"]]["ty"] if not term["dest"]["p"] else "?"
        st.emit(("uf", key))
        if dty == "bool":
            return Sym(("uf",) + key, "bool")
        if STRING_TY.match(dty):
            return Str(("uf",) + key)
        if dty == "()":
            return ip.UNIT
        return Opq("uf", key)

    # ---- strings as terms
    def str_variant(self, st, v, rv):
        """`match cow { Borrowed.. / Owned.. }` on a string term: the representation is not part of the
        content, so both answers are explored (one answer per content term and path)."""
        return 0 if st.choose(("cow-variant", repr(v.tag)), ["Borrowed", "Owned"]) == "Borrowed" else 1

    def str_eq(self, st, a, b):
        if isinstance(a, Str) and isinstance(b, Str):
            if a.tag == b.tag:
                return True
            ka, kb = sorted([repr(a.tag), repr(b.tag)])
            return st.choose(("str-eq", ka, kb), [True, False])
        raise AnalysisError("string equality of %r / %r" % (a, b))

    def str_is_empty(self, st, s):
        if isinstance(s, Str):
            if s.tag == ("lit", ""):
                return ip.boolean(True)
            return Sym(("is_empty", s.tag), "bool")
        raise AnalysisError("is_empty of %r" % (s,))

    def new_buf(self, st, content):
        return content

    def buf_content(self, st, buf):
        return buf


def sym_name(v):
    return v.name if isinstance(v, Sym) else None


def decisions(out, prefix):
    """The ordered (key, answer) decisions of a path whose key starts with `prefix`."""
    return [(k, v) for k, v in out.state.log if isinstance(k, tuple) and k and k[0] == prefix]
