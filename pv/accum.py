"""Accumulator semantics of the table generators (C15): an inductive argument over *all* well-formed inputs.

A generator consumes the entries of a UCD file in ascending order and keeps a small state (a pending
range). Its state after any prefix is described by linear forms over one ghost atom N — the first code
point not yet accounted for (0 before the first entry) — plus stale atoms with interval facts. One generic
step feeds the entry `Single(N+G)` or `Range(N+G, N+G+W)` (G, W >= 0 unknown: how far away the entry starts,
how long it is), interprets the generator's own MIR on it (pv/linform.py gives exact linear arithmetic and
case splits), checks what the step emitted against the specification for every valuation of the path's
intervals, re-expresses the new state over N' = N+G+W+1 and adds it to the set of state shapes until
nothing new appears (interval subsumption). The finishing method is then run on every shape.
Base case + step + finish = the emitted table is right for every ascending input, not only the pinned one."""
from . import automaton as au
from . import interp as ip
from . import linform as lf
from . import types as ty_
from .interp import AnalysisError, Adt, I, Opq, Ref, Sym, Tup
from .models import deref_all
from .worlds import OracleWorld

CP = "ucd_parse::common::Codepoint"
CPR = "ucd_parse::common::CodepointRange"
CPS = "ucd_parse::common::Codepoints"
MAXCP = 0x10FFFF


def cp(v):
    return Adt(CP, 0, (v,))


def cprange(a, b):
    return Adt(CPR, 0, (cp(a), cp(b)))


def single(v):
    return Adt(CPS, 0, (cp(v),))


def range_(a, b):
    return Adt(CPS, 1, (cprange(a, b),))


class AccWorld(lf.LinWorldMixin, OracleWorld):
    max_steps = 50000
    ctor_table = {CPS + "::Single": (CPS, 0), CPS + "::Range": (CPS, 1)}

    def __init__(self, prog, writers=()):
        OracleWorld.__init__(self, prog)
        self.writers = set(writers)

    def call(self, m, st, callee, args, term):
        p = callee["path"]
        if p in self.ctor_table:
            c = self.ctor_table[p]
            return Adt(c[0], c[1], tuple(args))
        if p == CP + "::value":
            v = deref_all(m, st, args[0])
            if isinstance(v, Adt) and v.ty == CP:
                return v.fields[0]
            raise AnalysisError("Codepoint::value of %r" % (v,))
        if p == CP + "::from_u32":
            x = args[0]
            xl = lf.to_lf(x)
            if xl is None:
                raise AnalysisError("Codepoint::from_u32 of %r" % (x,))
            lo, hi = lf.bounds(st.facts, xl)
            if hi <= MAXCP:
                return ip.ok(cp(x))
            n = st.ext.get("n_from", 0) + 1
            ans = "Err" if lo > MAXCP else st.choose(("from_u32", n), ["Ok", "Err"])
            st.ext["n_from"] = n
            if ans == "Err":
                st.emit(("rejects-input", "value above U+10FFFF"))
                return ip.err(Opq("ucd-error", ()))
            return ip.ok(cp(x))
        if callee["name"] in ("eq", "ne") and (callee.get("trait") == "core::cmp::PartialEq" or "PartialEq" in callee["path"]) and len(args) == 2:
            r = self.struct_eq(m, st, args[0], args[1])
            if r is not None:
                return ip.boolean(r if callee["name"] == "eq" else not r)
        if callee["name"] == "clone" and args:
            v = deref_all(m, st, args[0])
            if isinstance(v, Opq) and v.kind == "vec":
                n = st.ext.get("n_vec", 0) + 1
                st.ext["n_vec"] = n
                st.emit(("clone", ("v", n), v.data))
                return Opq("vec", ("v", n))
            if isinstance(v, (Adt, I, Sym, Tup, ip.Str)):
                return v
        if p in ("alloc::vec::Vec::<T>::new", "alloc::vec::Vec::<T>::with_capacity"):
            n = st.ext.get("n_vec", 0) + 1
            st.ext["n_vec"] = n
            return Opq("vec", ("v", n))
        if callee["name"] in ("iter", "into_iter") and args:
            v = deref_all(m, st, args[0])
            if isinstance(v, Opq) and v.kind == "vec":
                if v.data == ("acc",) or any(e[0] == "emit" and e[1] == v.data for e in st.events):
                    return Opq("vec-iter", (v.data, ()))  # the accumulated rows, re-read to build the output
                return Opq("stream", (v.data,))
            if isinstance(v, Opq) and v.kind == "vec-iter":
                return v
        if callee["name"] in ("copied", "cloned", "by_ref") and args:
            v = deref_all(m, st, args[0])
            if isinstance(v, Opq) and v.kind == "vec-iter":
                return v
        if callee["name"] == "chain" and len(args) == 2:
            v = deref_all(m, st, args[0])
            if isinstance(v, Opq) and v.kind == "vec-iter":
                extra = deref_all(m, st, args[1])
                if isinstance(extra, Sym):
                    extra = m.concretize(st, extra)
                if isinstance(extra, Adt) and extra.ty == ip.OPTION:
                    more = () if extra.variant == 0 else (extra.fields[0],)
                    return Opq("vec-iter", (v.data[0], v.data[1] + more))
                raise AnalysisError("rows chained with %r" % (extra,))
        if callee["name"] in ("collect", "from_iter") and args:
            v = deref_all(m, st, args[0])
            if isinstance(v, Opq) and v.kind == "vec-iter":
                n = st.ext.get("n_vec", 0) + 1
                st.ext["n_vec"] = n
                new = Opq("vec", ("v", n))
                st.emit(("clone", ("v", n), v.data[0]))
                for item in v.data[1]:
                    self.vec_push(m, st, Ref(("val", new)), item)
                return new
            if isinstance(v, Opq) and v.kind == "stream":
                return v
        if callee["name"] == "next" and args:
            v = deref_all(m, st, args[0])
            if isinstance(v, Opq) and v.kind == "stream":
                return self.stream_next(m, st, term)
        if callee["name"] in ("sort", "sort_unstable", "dedup") and args:
            v = deref_all(m, st, args[0])
            if isinstance(v, Opq) and v.kind == "vec":
                st.ext["v:sorted"] = True
                return ip.UNIT
        if callee["name"] in ("for_each", "extend", "collect", "copied", "cloned") and args:
            v = deref_all(m, st, args[0])
            if isinstance(v, Opq) and v.kind in ("fresh", "fresh-ref", "set-iter"):
                # the unordered source (HashSet) poured into a vector: content irrelevant until it is sorted
                dl = term["dest"]
                dty = st.frames[-1].body.locals[dl["l"]]["ty"] if not dl["p"] else "?"
                if dty.startswith("alloc::vec::Vec<"):
                    n = st.ext.get("n_vec", 0) + 1
                    st.ext["n_vec"] = n
                    return Opq("vec", ("v", n))
                return ip.UNIT if dty == "()" else Opq("set-iter", ())
        if p in self.writers:
            v = None
            for a in args:
                d = deref_all(m, st, a)
                if isinstance(d, Opq) and d.kind == "vec":
                    v = d
            st.emit(("write", v.data if v is not None else None))
            return ip.ok(ip.UNIT)
        if self.prog.is_ws(p) or p in m.models:
            return None
        if callee.get("virtual") or not callee["resolved"]:
            return None
        if p in self.prog.bodies and m.ext_simple(p):
            return None  # a std combinator exported as plain MIR (bool::then, Option::map_or, ...): interpret it
        dl = term["dest"]
        return ty_.fresh(self.prog, st.frames[-1].body.locals[dl["l"]]["ty"] if not dl["p"] else "?", ("ext", callee["name"], st.fresh()))

    def struct_eq(self, m, st, a, b):
        """Derived / std equality of the values the generators compare (Codepoint, Option<..>, class names)."""
        a, b = deref_all(m, st, a), deref_all(m, st, b)
        if isinstance(a, Sym) and a.ty not in ip.INT_BITS:
            a = m.concretize(st, a)
        if isinstance(b, Sym) and b.ty not in ip.INT_BITS:
            b = m.concretize(st, b)
        if isinstance(a, ip.Str) and isinstance(b, ip.Str):
            return self.str_eq(st, a, b)
        if isinstance(a, (I, Sym)) and isinstance(b, (I, Sym)):
            return ip.compare(st, "Eq", a, b, self)
        if isinstance(a, Adt) and isinstance(b, Adt) and a.ty == b.ty:
            if a.variant != b.variant or len(a.fields) != len(b.fields):
                return False
            for x, y in zip(a.fields, b.fields):
                r = self.struct_eq(m, st, x, y)
                if r is None:
                    return None
                if not r:
                    return False
            return True
        if isinstance(a, Tup) and isinstance(b, Tup) and len(a.fields) == len(b.fields):
            for x, y in zip(a.fields, b.fields):
                r = self.struct_eq(m, st, x, y)
                if r is None:
                    return None
                if not r:
                    return False
            return True
        return None

    def vec_push(self, m, st, vecref, item):
        v = deref_all(m, st, vecref)
        if not (isinstance(v, Opq) and v.kind == "vec"):
            raise AnalysisError("push into %r" % (v,))
        if isinstance(item, Sym):
            item = m.concretize(st, item)
        cls = None
        if isinstance(item, Tup) and len(item.fields) == 2 and isinstance(item.fields[0], Adt) and item.fields[0].ty == CPS:
            cls = item.fields[1]
            if isinstance(cls, Ref):
                cls = deref_all(m, st, cls)
            if not isinstance(cls, ip.Str):
                raise AnalysisError("an entry is pushed with the value %r" % (cls,))
            item = item.fields[0]
            lo, hi = (item.fields[0].fields[0],) * 2 if item.variant == 0 else (item.fields[0].fields[0].fields[0], item.fields[0].fields[1].fields[0])
            st.emit(("emit", v.data, lo, hi, cls.tag))
            return ip.UNIT
        if isinstance(item, Adt) and item.ty != CPS and item.fields and isinstance(item.fields[0], Adt) and item.fields[0].ty == CPS:
            item = item.fields[0]
        if isinstance(item, Adt) and item.ty == CPS:
            if item.variant == 0:
                x = item.fields[0].fields[0]
                st.emit(("emit", v.data, x, x))
            else:
                r = item.fields[0]
                st.emit(("emit", v.data, r.fields[0].fields[0], r.fields[1].fields[0]))
            return ip.UNIT
        raise AnalysisError("push of %r" % (item,))

    def stream_next(self, m, st, term):
        """The cut point: the next element of the ascending input (N = previous element's last code point + 1)."""
        letter = st.ext.get("letter")
        if letter is None:
            return ip.Outcome("suspend", None, st, "next")
        st.ext["letter"] = None
        if letter == "END":
            return ip.none()
        dl = term["dest"]
        dty = st.frames[-1].body.locals[dl["l"]]["ty"] if not dl["p"] else "core::option::Option<u32>"
        inner = ty_.generic_args(dty)[1][0] if "<" in dty else "u32"
        v = self.make_element(st, letter)
        while inner.startswith("&"):
            v = Ref(("val", v))
            inner = inner[1:].lstrip()
            if inner.startswith("'"):
                inner = inner.split(" ", 1)[1] if " " in inner else inner
            if inner.startswith("mut "):
                inner = inner[4:]
        return ip.some(v)

    def make_element(self, st, letter):
        first = lf.from_lf({"N": 1, "G": 1}, 0)
        if letter == "elem":
            return first
        kind, cls = letter
        last = lf.from_lf({"N": 1, "G": 1, "W": 1}, 0)
        entry = single(first) if kind == "single" else range_(first, last)
        prev = st.ext.get("v:C")  # class of the previous element
        if cls == "same":
            tag = prev.tag
        else:
            tag = ("cls", "new")
        st.ext["v:C"] = ip.Str(tag)
        return Tup((entry, ip.Str(tag)))

    def str_eq(self, st, a, b):
        if isinstance(a, ip.Str) and isinstance(b, ip.Str):
            return a.tag == b.tag  # class names: different tags are different classes
        raise AnalysisError("string comparison of %r and %r" % (a, b))

    def error_conversion(self, st, val, from_ty, to_ty):
        return val

    def opaque_const(self, st, c):
        return Opq("const", (c.get("ty"),))


# ------------------------------------------------------------------ state shapes
def atoms_of(v):
    out = []

    def f(s):
        l = lf.to_lf(s)
        if l is not None:
            for a in sorted(l[0]):
                if a not in out:
                    out.append(a)
        return s

    au.map_value(v, f)
    return out


def substitute(v, facts, sub):
    """Rewrite every linear form in v with atom := form (sub: atom -> (terms, k)), then fold singleton atoms."""

    def f(s):
        l = lf.to_lf(s)
        if l is None:
            return s
        terms, k = l
        out = ({}, k)
        for a, c in terms.items():
            if a in sub:
                st, sk = sub[a]
                out = lf.add(out, ({x: c * y for x, y in st.items()}, c * sk))
            else:
                out = lf.add(out, ({a: c}, 0))
        out = lf.simplify(facts, out)
        return lf.from_lf(out[0], out[1], s.ty)

    return au.map_value(v, f)


def widen_ranges(old, new):
    """Interval join with widening: a bound that moves is moved all the way."""
    rr = {}
    for a in set(old) | set(new):
        x, y = old.get(a), new.get(a)
        if x and y:
            rr[a] = (x[0] if x[0] <= y[0] else 0, x[1] if x[1] >= y[1] else MAXCP + 1)
        else:
            rr[a] = x or y
    return rr


class Shape:
    def __init__(self, value, ranges):
        self.value = value  # the generator's self value, forms over N and s0, s1, ...
        self.ranges = dict(ranges)  # atom -> (lo, hi)

    def key(self):
        return repr(self.value)

    def subsumes(self, other):
        return self.key() == other.key() and all(a in self.ranges and self.ranges[a][0] <= r[0] and r[1] <= self.ranges[a][1] for a, r in other.ranges.items())

    def join(self, other):
        return Shape(self.value, widen_ranges(self.ranges, other.ranges))

    def describe(self):
        return "%s with %s" % (pretty_state(self.value), {a: "%d..%d" % r for a, r in sorted(self.ranges.items())})


def pretty_state(v):
    def f(x):
        if isinstance(x, Adt):
            if x.ty == CP:
                return f(x.fields[0])
            return "%s(%s)" % (x.ty.rsplit("::", 1)[1], ", ".join(f(y) for y in x.fields))
        if isinstance(x, (Sym, I)):
            l = lf.to_lf(x)
            return lf.fmt(l) if l is not None else repr(x)
        if isinstance(x, Opq):
            return x.kind
        if isinstance(x, ip.Str):
            return "str"
        if isinstance(x, Tup):
            return "(%s)" % ", ".join(f(y) for y in x.fields)
        return type(x).__name__

    return f(v)


def canonical(value, facts, new_n):
    """Express `value` over N' (= new_n, a form over the old atoms), rename N' to N and the remaining atoms to
    s0, s1, ...; returns a Shape."""
    n_lo, n_hi = lf.atom_range(facts, "N")
    only_n = {("rng", "N"): facts.get(("rng", "N"))} if n_lo == n_hi and ("rng", "N") in facts else {}
    nl = lf.simplify(only_n, new_n) if only_n else (dict(new_n[0]), new_n[1])
    # N' = nl. Eliminate one atom of nl in favour of N': the old N when it is still symbolic, else the gap G
    # (N was a known constant: the very first step)
    pivot = "N" if nl[0].get("N", 0) == 1 else "G" if nl[0].get("G", 0) == 1 else None
    if pivot is None:
        raise AnalysisError("cannot re-express the state over the new last code point (%s)" % lf.fmt(nl))
    rest = lf.add(nl, ({pivot: 1}, 0), -1)
    sub = {pivot: lf.add(({"N'": 1}, 0), rest, -1)}
    facts2 = dict(facts)
    facts2.pop(("rng", pivot), None)  # the pivot is no longer an independent atom
    v = substitute(value, {k: x for k, x in facts.items() if k != ("rng", pivot)}, sub)
    lo, hi = lf.bounds(facts, nl)
    ren = {"N'": "N"}
    rng = {"N": (max(lo, 0), min(hi, MAXCP + 1))}
    k = 0
    for a in atoms_of(v):
        if a == "N'":
            continue
        ren[a] = "s%d" % k
        rng["s%d" % k] = lf.atom_range(facts, a)
        k += 1
    v = substitute(v, {}, {a: ({b: 1}, 0) for a, b in ren.items()})
    return Shape(v, rng)


def facts_of(shape):
    return {("rng", a): ((lo, hi),) for a, (lo, hi) in shape.ranges.items()}


def emissions(st, vec_id=None):
    return [(e[2], e[3]) for e in st.events if e[0] == "emit" and (vec_id is None or e[1] == vec_id)]


def check_gap(facts, emitted, e_lo, e_hi):
    """The emitted entries must denote exactly the interval [e_lo, e_hi] (empty when e_hi < e_lo). An entry
    lo = hi+1 denotes nothing and is harmless for the search; lo > hi+1 is not."""

    def pred(f):
        non_empty = []
        for lo, hi in emitted:
            d = lf.add(lf.to_lf(hi), lf.to_lf(lo), -1)
            if lf.ask(f, "Ge", d):
                non_empty.append((lo, hi))
            elif not lf.ask(f, "Eq", lf.add(d, ({}, 1))):
                return "emits the inverted entry %s..=%s" % (lf.fmt(lf.to_lf(lo)), lf.fmt(lf.to_lf(hi)))
        want_empty = lf.ask(f, "Lt", lf.add(e_hi, e_lo, -1))
        what = "%s..=%s" % (lf.fmt(lf.simplify(f, e_lo)), lf.fmt(lf.simplify(f, e_hi)))
        got = ["%s..=%s" % (lf.fmt(lf.simplify(f, lf.to_lf(a))), lf.fmt(lf.simplify(f, lf.to_lf(b)))) for a, b in non_empty]
        if want_empty:
            return None if not non_empty else "emits %s although no code point is missing" % got
        if len(non_empty) != 1:
            return "emits %s for the missing code points %s" % (got or "nothing", what)
        lo, hi = non_empty[0]
        if not lf.ask(f, "Eq", lf.add(lf.to_lf(lo), e_lo, -1)) or not lf.ask(f, "Eq", lf.add(lf.to_lf(hi), e_hi, -1)):
            return "emits %s for the missing code points %s" % (got, what)
        return None

    return lf.forall(facts, pred)


def explore(prog, world, step_key, make_args, initial, new_n_of, on_path, max_shapes=24, kinds=("single", "range")):
    """Fixpoint over state shapes. make_args(shape, kind, st) -> args for step_key (the generator lives in
    heap cell ('arg', 0)); on_path(shape, kind, outcome) checks one returning path and returns the new
    self value (or None when the path rejects the input)."""
    m = ip.Machine(prog, world)
    shapes = [initial]
    work = [initial]
    n_paths = 0
    while work:
        sh = work.pop()
        for kind in kinds:
            st0 = ip.State()
            st0.facts.update(facts_of(sh))
            st0.facts[("rng", "G")] = ((0, MAXCP),)
            st0.facts[("rng", "W")] = ((0, MAXCP),)
            st0.heap[("arg", 0)] = sh.value
            args = make_args(sh, kind, st0)
            outs = m.run(m.start(step_key, args, st0), max_paths=4000)
            for o in outs:
                if o.kind != "return":
                    raise AnalysisError("step on %s entry from state %s ends with %s: %s" % (kind, sh.describe(), o.kind, o.info))
                n_paths += 1
                newv = on_path(sh, kind, o)
                if newv is None:
                    continue
                ns = canonical(newv, o.state.facts, new_n_of(kind))
                hit = None
                for i, old in enumerate(shapes):
                    if old.key() == ns.key():
                        hit = i
                if hit is None:
                    if len(shapes) >= max_shapes:
                        raise AnalysisError("more than %d state shapes: the generator's state is not a bounded set of linear forms over the last code point" % max_shapes)
                    shapes.append(ns)
                    work.append(ns)
                elif not shapes[hit].subsumes(ns):
                    j = shapes[hit].join(ns)
                    shapes[hit] = j
                    work.append(j)
    return shapes, n_paths


# ------------------------------------------------------------------ loops cut at the input stream
def map_state(st, f):
    for fr in st.frames:
        for l in list(fr.locals):
            fr.locals[l] = f(fr.locals[l])
    for k in list(st.heap):
        st.heap[k] = f(st.heap[k])
    for k in list(st.ext):
        if k.startswith("v:"):
            st.ext[k] = f(st.ext[k])


def state_atoms(st):
    out = []

    def f(v):
        for a in atoms_of(v):
            if a not in out:
                out.append(a)
        return v

    map_state(st, f)
    return out


class LoopShape:
    def __init__(self, st, ranges):
        self.st = st
        self.ranges = dict(ranges)
        self._key = au.canon(st)

    def key(self):
        return self._key

    def subsumes(self, other):
        return self._key == other._key and all(a in self.ranges and self.ranges[a][0] <= r[0] and r[1] <= self.ranges[a][1] for a, r in other.ranges.items())

    def join(self, other):
        return LoopShape(self.st, widen_ranges(self.ranges, other.ranges))

    def describe(self):
        live = au.live_locals(self.st)
        parts = []
        for fr in self.st.frames:
            for l, v in sorted(fr.locals.items()):
                if l in live[fr.uid] and fr.body.locals[l]["name"] and atoms_of(v) or (l in live[fr.uid] and fr.body.locals[l]["name"] in ("range", "prev", "pending")):
                    parts.append("%s=%s" % (fr.body.locals[l]["name"], pretty_state(v)))
        u = self.st.ext.get("v:U")
        return "%s; uncovered from %s; %s" % (", ".join(parts), lf.fmt(lf.to_lf(u)) if u is not None else "?", {a: "%d..%d" % r for a, r in sorted(self.ranges.items())})


def abstract_stale(st, facts, n_atom="N'"):
    """Every form that mentions atoms other than the anchor N is reduced to `N - 1 - t` (or `N + t`) with a
    fresh t whose range is the range of what it replaces; equal expressions share their t. This forgets how
    different stale quantities relate to one another (sound: more states), and makes the set of shapes finite:
    a form is either N+k or N-1-t."""
    table = {}
    new_ranges = {}

    def f(sv):
        l = lf.to_lf(sv) if isinstance(sv, (I, Sym)) else None
        if l is None:
            return sv
        terms, k = l
        stale = {a: c for a, c in terms.items() if a != n_atom}
        if not stale:
            return sv
        cn = terms.get(n_atom, 0)
        rest = (stale, k)
        key = repr((sorted(stale.items()), k))
        if key not in table:
            rlo, rhi = lf.bounds(facts, rest)
            name = "t%d" % len(table)
            if all(c < 0 for c in stale.values()):
                table[key] = ("neg", name)
                new_ranges[name] = (max(-rhi - 1, 0) if -rhi - 1 >= 0 else -rhi - 1, min(-rlo - 1, MAXCP + 1))
            elif all(c > 0 for c in stale.values()):
                table[key] = ("pos", name)
                new_ranges[name] = (rlo, min(rhi, MAXCP + 1))
            else:
                table[key] = None
        ent = table[key]
        if ent is None:
            return sv
        kind, name = ent
        base = {n_atom: cn} if cn else {}
        if kind == "neg":
            return lf.from_lf(dict(base, **{name: -1}), -1, sv.ty)
        return lf.from_lf(dict(base, **{name: 1}), 0, sv.ty)

    map_state(st, lambda v: au.map_value(v, f))
    for name, r in new_ranges.items():
        facts[("rng", name)] = ((r[0], r[1]),)


def canonical_state(st, new_n):
    """Like canonical(), for a suspended machine state: every form in frames/heap/ghosts is re-expressed over
    N' (renamed N), other atoms are renamed s0.. in order of appearance, facts are reduced to their ranges."""
    facts = st.facts
    n_lo, n_hi = lf.atom_range(facts, "N")
    only_n = {("rng", "N"): facts.get(("rng", "N"))} if n_lo == n_hi and ("rng", "N") in facts else {}
    nl = lf.simplify(only_n, new_n) if only_n else (dict(new_n[0]), new_n[1])
    pivot = "N" if nl[0].get("N", 0) == 1 else "G" if nl[0].get("G", 0) == 1 else None
    if pivot is None:
        raise AnalysisError("cannot re-express the state over the new last element (%s)" % lf.fmt(nl))
    rest = lf.add(nl, ({pivot: 1}, 0), -1)
    sub = {pivot: lf.add(({"N'": 1}, 0), rest, -1)}
    f2 = {k: x for k, x in facts.items() if k != ("rng", pivot)}
    lo, hi = lf.bounds(facts, nl)
    map_state(st, lambda v: substitute(v, f2, sub))
    abstract_stale(st, facts)
    ren = {"N'": "N"}
    rng = {"N": (max(lo, 0), min(hi, MAXCP + 1))}
    k = 0
    for a in state_atoms(st):
        if a == "N'":
            continue
        ren[a] = "s%d" % k
        rng["s%d" % k] = lf.atom_range(facts, a)
        k += 1
    map_state(st, lambda v: substitute(v, {}, {a: ({b: 1}, 0) for a, b in ren.items()}))
    st.facts = {("rng", a): ((r[0], r[1]),) for a, r in rng.items()}
    st.log = []
    st.events = []
    st.steps = 0
    return LoopShape(st, rng)


def cover_step(facts, emitted, u, first, last):
    """The coverage monitor. Before the step the input elements not yet emitted are the run [u .. N-1]
    (empty when u = N); the step consumes the elements first..last (first = N+G). The entries emitted during the
    step must tile, in order and without touching a code point that is not an input element, a prefix of
    [u..N-1] ++ [first..last]; what remains must again be one run. Returns (error | None, new u)."""
    def pred(f):
        n = ({"N": 1}, 0)
        r1_empty = lf.ask(f, "Gt", lf.add(u, lf.add(n, ({}, 1), -1), -1))  # u > N-1
        adjacent = lf.ask(f, "Eq", lf.add(first, n, -1))  # first == N
        runs = []
        if not r1_empty:
            runs.append([u, lf.add(n, ({}, 1), -1)])
        if runs and adjacent:
            runs[-1][1] = last
        else:
            runs.append([first, last])
        ti, pos = 0, runs[0][0]
        for lo, hi in emitted:
            lo, hi = lf.to_lf(lo), lf.to_lf(hi)
            d = lf.add(hi, lo, -1)
            if not lf.ask(f, "Ge", d):
                if lf.ask(f, "Eq", lf.add(d, ({}, 1))):
                    continue  # lo = hi+1: denotes nothing
                return "emits the inverted entry %s..=%s" % (lf.fmt(lf.simplify(f, lo)), lf.fmt(lf.simplify(f, hi)))
            what = "%s..=%s" % (lf.fmt(lf.simplify(f, lo)), lf.fmt(lf.simplify(f, hi)))
            if ti >= len(runs):
                return "emits %s although every input element is already covered" % what
            if not lf.ask(f, "Eq", lf.add(lo, pos, -1)):
                return "emits %s, but the first element not yet covered is %s" % (what, lf.fmt(lf.simplify(f, pos)))
            if lf.ask(f, "Gt", lf.add(hi, runs[ti][1], -1)):
                return "emits %s, which reaches past the run of input elements ending at %s (code points that are not in the input)" % (what, lf.fmt(lf.simplify(f, runs[ti][1])))
            if lf.ask(f, "Eq", lf.add(hi, runs[ti][1], -1)):
                ti += 1
                pos = runs[ti][0] if ti < len(runs) else None
            else:
                pos = lf.add(hi, ({}, 1))
        if ti < len(runs) - 1:
            return "keeps the elements from %s pending across a hole before %s: one pending range cannot describe them" % (lf.fmt(lf.simplify(f, pos)), lf.fmt(lf.simplify(f, runs[-1][0])))
        newu = pos if ti < len(runs) else lf.add(last, ({}, 1))
        leaves.append((dict(f), newu))
        return None

    leaves = []
    err = lf.forall(facts, pred)
    return err, leaves


def map_strs(v, f):
    if isinstance(v, ip.Str):
        return f(v)
    if isinstance(v, Adt):
        return Adt(v.ty, v.variant, tuple(map_strs(x, f) for x in v.fields))
    if isinstance(v, Tup):
        return Tup(tuple(map_strs(x, f) for x in v.fields))
    if isinstance(v, ip.Clo):
        return ip.Clo(v.defpath, tuple(map_strs(x, f) for x in v.captures))
    if isinstance(v, Ref) and v.loc[0] in ("val", "valp"):
        return Ref((v.loc[0], map_strs(v.loc[1], f)) + tuple(v.loc[2:]))
    if isinstance(v, Opq) and isinstance(v.data, tuple):
        return Opq(v.kind, tuple(map_strs(x, f) if isinstance(x, (ip.Str, Adt, Tup, Opq, Ref, ip.Clo)) else x for x in v.data))
    return v


def rename_classes(st):
    """Class tags ('cls', x): the previous element's class becomes c0, the others c1, c2, ... in order of
    appearance (ghosts first), so that shapes do not depend on how many classes went by."""
    order = []
    c = st.ext.get("v:C")
    if isinstance(c, ip.Str):
        order.append(c.tag)

    def collect(x):
        if isinstance(x.tag, tuple) and x.tag and x.tag[0] == "cls" and x.tag not in order:
            order.append(x.tag)
        return x

    for k in sorted(k for k in st.ext if k.startswith("v:")):
        if isinstance(st.ext[k], (ip.Str, Adt, Tup, Opq, Ref)):
            map_strs(st.ext[k], collect)
    map_state(st, lambda v: map_strs(v, collect))
    ren = {t: ("cls", "c%d" % i) for i, t in enumerate(order)}
    map_state(st, lambda v: map_strs(v, lambda x: ip.Str(ren[x.tag]) if x.tag in ren else x))


def explore_loop(prog, world, fn_key, args, on_step, on_end, max_shapes=24, letters_for=None, new_n_of=None, init_state=None, on_return=None):
    """Fixpoint over the suspended states of a function whose loop consumes the ascending input stream.
    on_step(shape, outcome) -> leaves [(facts, new u)] or [(facts, {ghost: value})]; on_end(shape, outcome)."""
    m = ip.Machine(prog, world)
    letters_for = letters_for or (lambda sh: ["elem"])
    new_n_of = new_n_of or (lambda letter: ({"N": 1, "G": 1}, 1))
    st0 = init_state() if init_state else ip.State()
    st0 = m.start(fn_key, args, st0)
    st0.ext["letter"] = None
    st0.ext["v:U"] = I(0, "u32")
    st0.facts[("rng", "N")] = ((0, 0),)
    outs = [o for o in m.run(st0) if o.kind != "closed"]
    if len(outs) != 1 or outs[0].kind != "suspend":
        raise AnalysisError("before the first element the function has %d outcomes (%s)" % (len(outs), [o.kind for o in outs]))
    s0 = outs[0].state
    s0.facts = {("rng", "N"): ((0, 0),)}
    s0.log, s0.events = [], []
    init = LoopShape(s0, {"N": (0, 0)})
    shapes = [init]
    work = [init]
    n_paths = 0
    errors = []
    rounds = 0
    while work:
        rounds += 1
        if rounds > 300:
            errors.append("the set of loop state shapes does not converge (%d rounds, %d shapes)" % (rounds, len(shapes)))
            break
        sh = work.pop()
        if not any(sh is x for x in shapes):
            continue  # replaced by a more general shape meanwhile
        for letter in list(letters_for(sh)) + ["END"]:
            s = sh.st.clone()
            s.facts = {("rng", a): ((r[0], r[1]),) for a, r in sh.ranges.items()}
            s.facts[("rng", "G")] = ((0, MAXCP),)
            s.facts[("rng", "W")] = ((0, MAXCP),)
            cur_letter = letter
            s.ext["letter"] = letter
            s.events, s.log, s.steps = [], [], 0
            try:
                outs_ = m.run(s, max_paths=4000)
            except AnalysisError as e:
                errors.append("%s  [from state: %s]" % (e, sh.describe()))
                continue
            for o in outs_:
                if o.kind == "closed":
                    continue
                if o.kind in ("panic", "return") and any(e[0] == "rejects-input" for e in o.state.events) and o.kind == "panic":
                    continue  # a value above U+10FFFF: not a code point, outside the quantifier
                n_paths += 1
                if letter == "END":
                    world.cur_letter = "END"
                    if o.kind != "return":
                        errors.append("after the last element the function ends with %s (%s)" % (o.kind, o.info))
                        continue
                    on_end(sh, o)
                    continue
                if o.kind == "return" and on_return is not None:
                    world.cur_letter = cur_letter
                    on_return(sh, o)
                    continue
                if o.kind != "suspend":
                    errors.append("the loop step ends with %s (%s) instead of asking for the next element" % (o.kind, o.info))
                    continue
                world.cur_letter = cur_letter
                for leaf_facts, newu in on_step(sh, o) or ():
                    s2 = o.state.clone()
                    s2.facts = dict(leaf_facts)
                    if isinstance(newu, dict):
                        for gk, gv in newu.items():
                            s2.ext[gk] = lf.from_lf(*lf.simplify({}, gv)) if isinstance(gv, tuple) and len(gv) == 2 and isinstance(gv[0], dict) else gv
                    else:
                        s2.ext["v:U"] = lf.from_lf(*lf.simplify({}, newu))
                    rename_classes(s2)
                    ns = canonical_state(s2, new_n_of(cur_letter))
                    hit = None
                    done = False
                    for i, old in enumerate(shapes):
                        if old.key() == ns.key():
                            hit = i
                        elif instance_of(old, ns) is not None:
                            done = True
                            break
                    if done:
                        continue
                    if hit is not None:
                        if not shapes[hit].subsumes(ns):
                            j = shapes[hit].join(ns)
                            shapes[hit] = j
                            work.append(j)
                        continue
                    g = None
                    for i, old in enumerate(shapes):
                        g = generalise(old, ns)
                        if g is not None:
                            shapes[i] = g
                            work.append(g)
                            break
                    if g is None:
                        if len(shapes) >= max_shapes:
                            if not any("state shapes" in x for x in errors):
                                errors.append("more than %d loop state shapes" % max_shapes)
                            continue
                        shapes.append(ns)
                        work.append(ns)
    return shapes, n_paths, errors


# ------------------------------------------------------------------ generalising loop shapes
def _walk2(a, b, out):
    """Parallel traversal; appends (a_leaf, b_leaf) for linear-form leaves; False on structural mismatch."""
    la, lb = lf.to_lf(a) if isinstance(a, (I, Sym)) else None, lf.to_lf(b) if isinstance(b, (I, Sym)) else None
    if la is not None and lb is not None:
        if getattr(a, "ty", None) != getattr(b, "ty", None):
            return False
        out.append((a, b))
        return True
    if type(a) is not type(b):
        return False
    if isinstance(a, Adt):
        return a.ty == b.ty and a.variant == b.variant and len(a.fields) == len(b.fields) and all(_walk2(x, y, out) for x, y in zip(a.fields, b.fields))
    if isinstance(a, Tup):
        return len(a.fields) == len(b.fields) and all(_walk2(x, y, out) for x, y in zip(a.fields, b.fields))
    if isinstance(a, ip.Clo):
        return a.defpath == b.defpath and len(a.captures) == len(b.captures) and all(_walk2(x, y, out) for x, y in zip(a.captures, b.captures))
    if isinstance(a, Ref):
        if a.loc[0] in ("val", "valp") and b.loc[0] == a.loc[0]:
            return a.loc[2:] == b.loc[2:] and _walk2(a.loc[1], b.loc[1], out)
        return a == b
    if isinstance(a, Opq):
        if a.kind != b.kind or type(a.data) is not type(b.data):
            return False
        if isinstance(a.data, tuple):
            if len(a.data) != len(b.data):
                return False
            for x, y in zip(a.data, b.data):
                if isinstance(x, (Sym, I, Adt, Tup, Opq, Ref, ip.Clo)):
                    if not _walk2(x, y, out):
                        return False
                elif x != y:
                    return False
            return True
        return a.data == b.data
    return a == b


def _state_pairs(sa, sb):
    """Leaf pairs of two suspended states at the same program point (live locals, heap, ghosts), or None."""
    if len(sa.frames) != len(sb.frames):
        return None
    la, lb = au.live_locals(sa), au.live_locals(sb)
    out = []
    for fa, fb in zip(sa.frames, sb.frames):
        if fa.body.key != fb.body.key or fa.bb != fb.bb or fa.si != fb.si:
            return None
        ka = sorted(l for l in fa.locals if l in la[fa.uid])
        kb = sorted(l for l in fb.locals if l in lb[fb.uid])
        if ka != kb:
            return None
        for l in ka:
            if not _walk2(fa.locals[l], fb.locals[l], out):
                return None
    if sorted(sa.heap, key=repr) != sorted(sb.heap, key=repr):
        return None
    for k in sorted(sa.heap, key=repr):
        if not _walk2(sa.heap[k], sb.heap[k], out):
            return None
    ea = sorted(k for k in sa.ext if k.startswith("v:"))
    if ea != sorted(k for k in sb.ext if k.startswith("v:")):
        return None
    for k in ea:
        x, y = sa.ext[k], sb.ext[k]
        if isinstance(x, (Sym, I, Adt, Tup, Opq, Ref)):
            if not _walk2(x, y, out):
                return None
        elif x != y:
            return None
    return out


def is_w(a):
    """Pattern variables of a general shape: every atom but the anchor."""
    return a != "N"


def instance_of(general, concrete):
    """Is the concrete shape an instance of the general one (its widening atoms w* taking values, possibly forms
    over the concrete shape's atoms, within their ranges)? Returns the per-atom value ranges or None."""
    pairs = _state_pairs(general.st, concrete.st)
    if pairs is None:
        return None
    sigma = {}
    cf = {("rng", a): ((r[0], r[1]),) for a, r in concrete.ranges.items()}
    for ga, cb in pairs:
        g, c = lf.to_lf(ga), lf.to_lf(cb)
        ws = [a for a in g[0] if is_w(a)]
        if not ws:
            d = lf.add(c, g, -1)
            if d[0] or d[1] != 0:
                return None
            continue
        if len(ws) != 1 or g[0][ws[0]] not in (1, -1):
            return None
        w = ws[0]
        base = ({a: k for a, k in g[0].items() if a != w}, g[1])
        val = lf.add(c, base, -1)
        if g[0][w] == -1:
            val = ({a: -k for a, k in val[0].items()}, -val[1])
        if any(is_w(a) and a != w for a in val[0]):
            return None
        # the concrete shape may itself carry the same widening atom (a successor of the general shape)
        key = repr((sorted(val[0].items()), val[1]))
        if w in sigma and sigma[w][0] != key:
            return None
        sigma[w] = (key, val)
    out = {}
    for w, (_, val) in sigma.items():
        lo, hi = lf.bounds(cf, val)
        glo, ghi = general.ranges.get(w, (0, MAXCP + 1))
        if lo < glo or (hi > ghi and ghi < MAXCP):
            return None
        out[w] = (lo, hi)
    # the remaining atoms' ranges must be contained as well
    r = concrete.ranges.get("N")
    g = general.ranges.get("N")
    if r is not None and (g is None or r[0] < g[0] or r[1] > g[1]):
        return None
    return out


def generalise(old, new):
    """Anti-unification of two shapes at the same program point that differ only by constants, all moving by the
    same step: the differing forms get a fresh widening atom w (form + step*w, w >= 0). None if not applicable."""
    pairs = _state_pairs(old.st, new.st)
    if pairs is None:
        return None
    deltas = set()
    for a, b in pairs:
        d = lf.add(lf.to_lf(b), lf.to_lf(a), -1)
        if d[0]:
            return None
        if d[1] != 0:
            deltas.add(d[1])
    if len(deltas) != 1:
        return None
    delta = deltas.pop()
    n = 0
    while "w%d" % n in old.ranges:
        n += 1
    w = "w%d" % n
    st = old.st.clone()
    # rebuild: walk old and new in parallel, replacing the differing leaves
    def rebuild(a, b):
        la, lb = (lf.to_lf(a) if isinstance(a, (I, Sym)) else None), (lf.to_lf(b) if isinstance(b, (I, Sym)) else None)
        if la is not None and lb is not None:
            d = lf.add(lb, la, -1)
            if d[1] != 0:
                return lf.from_lf(*lf.add(la, ({w: delta}, 0)), ty=getattr(a, "ty", "u32"))
            return a
        if isinstance(a, Adt):
            return Adt(a.ty, a.variant, tuple(rebuild(x, y) for x, y in zip(a.fields, b.fields)))
        if isinstance(a, Tup):
            return Tup(tuple(rebuild(x, y) for x, y in zip(a.fields, b.fields)))
        if isinstance(a, ip.Clo):
            return ip.Clo(a.defpath, tuple(rebuild(x, y) for x, y in zip(a.captures, b.captures)))
        if isinstance(a, Ref) and a.loc[0] in ("val", "valp"):
            return Ref((a.loc[0], rebuild(a.loc[1], b.loc[1])) + tuple(a.loc[2:]))
        if isinstance(a, Opq) and isinstance(a.data, tuple):
            return Opq(a.kind, tuple(rebuild(x, y) if isinstance(x, (Sym, I, Adt, Tup, Opq, Ref, ip.Clo)) else x for x, y in zip(a.data, b.data)))
        return a

    la, lb = au.live_locals(old.st), au.live_locals(new.st)
    for fa, fb in zip(st.frames, new.st.frames):
        for l in list(fa.locals):
            if l in la[fa.uid] and l in fb.locals:
                fa.locals[l] = rebuild(fa.locals[l], fb.locals[l])
    for k in list(st.heap):
        st.heap[k] = rebuild(st.heap[k], new.st.heap[k])
    for k in list(st.ext):
        if k.startswith("v:") and isinstance(st.ext[k], (Sym, I, Adt, Tup, Opq, Ref)):
            st.ext[k] = rebuild(st.ext[k], new.st.ext[k])
    rr = widen_ranges(old.ranges, new.ranges)
    rr[w] = (0, MAXCP + 1)
    # bring the generalised state to the canonical form (stale parts as N-1-t, atoms renamed in order)
    st.facts = {("rng", a): ((r[0], r[1]),) for a, r in rr.items()}
    abstract_stale(st, st.facts, n_atom="N")
    ren, rng, k = {}, {"N": rr.get("N", (0, MAXCP + 1))}, 0
    for a in state_atoms(st):
        if a == "N":
            continue
        ren[a] = "s%d" % k
        rng["s%d" % k] = lf.atom_range(st.facts, a)
        k += 1
    map_state(st, lambda v: substitute(v, {}, {a: ({b: 1}, 0) for a, b in ren.items()}))
    st.facts = {("rng", a): ((r[0], r[1]),) for a, r in rng.items()}
    return LoopShape(st, rng)


def cover_step_valued(facts, emitted, u, v, first, last, c):
    """cover_step for valued tables. The uncovered run [u..N-1] has class v; the step consumes first..last of
    class c. Runs merge only when adjacent *and* of the same class; every emitted entry must lie within one
    run and carry that run's class. Returns (error, leaves[(facts, {ghosts})])."""

    def pred(f):
        n = ({"N": 1}, 0)
        r1_empty = lf.ask(f, "Gt", lf.add(u, lf.add(n, ({}, 1), -1), -1))
        adjacent = lf.ask(f, "Eq", lf.add(first, n, -1))
        runs = []
        if not r1_empty:
            runs.append([u, lf.add(n, ({}, 1), -1), v])
        if runs and adjacent and v == c:
            runs[-1][1] = last
        else:
            runs.append([first, last, c])
        ti, pos = 0, runs[0][0]
        for lo, hi, cls in emitted:
            lo, hi = lf.to_lf(lo), lf.to_lf(hi)
            d = lf.add(hi, lo, -1)
            if not lf.ask(f, "Ge", d):
                if lf.ask(f, "Eq", lf.add(d, ({}, 1))):
                    continue
                return "emits the inverted entry %s..=%s" % (lf.fmt(lf.simplify(f, lo)), lf.fmt(lf.simplify(f, hi)))
            what = "%s..=%s as %s" % (lf.fmt(lf.simplify(f, lo)), lf.fmt(lf.simplify(f, hi)), cls_name(cls, c, v))
            if ti >= len(runs):
                return "emits %s although every input entry is already covered (a code point would be listed twice)" % what
            if not lf.ask(f, "Eq", lf.add(lo, pos, -1)):
                if lf.ask(f, "Gt", lf.add(lo, pos, -1)):
                    return "emits %s, skipping the entries from %s that are not yet covered" % (what, lf.fmt(lf.simplify(f, pos)))
                return "emits %s, but the first code point not yet covered is %s (a code point would be listed twice)" % (what, lf.fmt(lf.simplify(f, pos)))
            if lf.ask(f, "Gt", lf.add(hi, runs[ti][1], -1)):
                return "emits %s, which reaches past the run ending at %s (code points that are not in the input, or of another class)" % (what, lf.fmt(lf.simplify(f, runs[ti][1])))
            if cls != runs[ti][2]:
                return "emits %s, but those code points have %s" % (what, cls_name(runs[ti][2], c, v))
            if lf.ask(f, "Eq", lf.add(hi, runs[ti][1], -1)):
                ti += 1
                pos = runs[ti][0] if ti < len(runs) else None
            else:
                pos = lf.add(hi, ({}, 1))
        if ti < len(runs) - 1:
            return "keeps the entries from %s (%s) pending together with the new entry at %s (%s): they are not one run" % (lf.fmt(lf.simplify(f, pos)), cls_name(runs[ti][2], c, v), lf.fmt(lf.simplify(f, runs[-1][0])), cls_name(runs[-1][2], c, v))
        if ti < len(runs):
            leaves.append((dict(f), {"v:U": pos, "v:V": ip.Str(runs[ti][2])}))
        else:
            leaves.append((dict(f), {"v:U": lf.add(last, ({}, 1)), "v:V": ip.Str(c)}))
        return None

    leaves = []
    err = lf.forall(facts, pred)
    return err, leaves


def cls_name(tag, cur, pend):
    if tag == cur and tag == pend:
        return "the class of the current and the pending entries"
    if tag == cur:
        return "the class of the current entry"
    if tag == pend:
        return "the class of the pending run"
    return "another class (%s)" % (tag[1] if isinstance(tag, tuple) and len(tag) > 1 else tag)
