"""Linear forms over several integer atoms, for the generators' accumulators (C15).

The base interpreter knows `atom + k`. The run/gap accumulators of precis-tools compute with *two*
unknown magnitudes at once (where the previous entry ended, how far away the next one starts), so their
values are forms  c1*a1 + ... + cn*an + k  over atoms with interval facts. This module gives
 - the representation (a Sym whose name is ('lf', ((atom, coef), ...), k); one atom with coefficient 1
   stays the interpreter's own ('lin', atom, k) so everything else keeps working),
 - exact +/- and comparison by interval bounds, splitting the path on a single undecided atom,
 - `forall`: decide a predicate over forms for *every* valuation of a path's intervals by case split.
A comparison that stays relational (two unfixed atoms, neither bound decides) is an analysis error: the
domain is deliberately not a solver."""
from . import interp as ip
from .interp import AnalysisError, I, Sym, Tup

TY = "u32"


def to_lf(v):
    """(terms: dict atom -> coef, k) or None."""
    if isinstance(v, I):
        return {}, v.v
    if isinstance(v, Sym):
        n = v.name
        if isinstance(n, tuple) and n and n[0] == "lf":
            return dict(n[1]), n[2]
        b, k = ip.lin_parts(v)
        if isinstance(b, str):
            return {b: 1}, k
    return None


def from_lf(terms, k, ty=TY):
    terms = {a: c for a, c in terms.items() if c != 0}
    if not terms:
        return I(k, ty)
    if len(terms) == 1:
        (a, c), = terms.items()
        if c == 1:
            return ip.mk_lin(a, k, ty)
    return Sym(("lf", tuple(sorted(terms.items())), k), ty)


def add(x, y, sign=1):
    tx, kx = x
    ty_, ky = y
    out = dict(tx)
    for a, c in ty_.items():
        out[a] = out.get(a, 0) + sign * c
    return {a: c for a, c in out.items() if c != 0}, kx + sign * ky


def atom_range(facts, a):
    r = facts.get(("rng", a))
    if r is None:
        return 0, 0x110000
    return r[0][0], r[-1][1]


def bounds(facts, lf):
    terms, k = lf
    lo = hi = k
    for a, c in terms.items():
        alo, ahi = atom_range(facts, a)
        if c >= 0:
            lo, hi = lo + c * alo, hi + c * ahi
        else:
            lo, hi = lo + c * ahi, hi + c * alo
    return lo, hi


def simplify(facts, lf):
    """Replace atoms whose interval is a single value by that value."""
    terms, k = lf
    out = {}
    for a, c in terms.items():
        alo, ahi = atom_range(facts, a)
        if alo == ahi:
            k += c * alo
        elif c != 0:
            out[a] = c
    return out, k


OPS = {"Eq": lambda d: d == 0, "Ne": lambda d: d != 0, "Lt": lambda d: d < 0, "Le": lambda d: d <= 0, "Gt": lambda d: d > 0, "Ge": lambda d: d >= 0}


def decide(facts, op, lf):
    """Truth of (lf op 0) for all valuations: True / False / None (depends on the valuation)."""
    lf = simplify(facts, lf)
    lo, hi = bounds(facts, lf)
    f = OPS[op]
    if lo == hi:
        return f(lo)
    if op == "Eq":
        return False if (lo > 0 or hi < 0) else None
    if op == "Ne":
        return True if (lo > 0 or hi < 0) else None
    if op == "Lt":
        return True if hi < 0 else False if lo >= 0 else None
    if op == "Le":
        return True if hi <= 0 else False if lo > 0 else None
    if op == "Gt":
        return True if lo > 0 else False if hi <= 0 else None
    if op == "Ge":
        return True if lo >= 0 else False if hi < 0 else None
    raise KeyError(op)


class LinWorldMixin:
    """binop/compare hooks for a World: exact linear arithmetic, comparisons by bounds or by splitting the
    single unfixed atom."""

    def binop_hook(self, st, op, a, b):
        base = op.replace("WithOverflow", "").replace("Unchecked", "")
        if base not in ("Add", "Sub"):
            return None
        x, y = to_lf(a), to_lf(b)
        if x is None or y is None:
            return None
        if not x[0] and not y[0]:
            return None  # two constants: the interpreter's own arithmetic (with its overflow flag)
        r = from_lf(*add(x, y, 1 if base == "Add" else -1), ty=getattr(a, "ty", TY))
        if op.endswith("WithOverflow"):
            lo, hi = bounds(st.facts, to_lf(r))
            tlo, thi = ip.int_range(getattr(a, "ty", TY))
            ovf = ip.boolean(False) if (tlo <= lo and hi <= thi) else Sym(("may-overflow", op, repr(a), repr(b)), "bool")
            return Tup((r, ovf))
        return r

    def compare_hook(self, st, op, a, b):
        x, y = to_lf(a), to_lf(b)
        if x is None or y is None:
            return None
        if len(x[0]) <= 1 and not y[0] and not (isinstance(getattr(a, "name", None), tuple) and a.name and a.name[0] == "lf"):
            return None  # atom+k against a constant: the interpreter's interval split is exact
        d = simplify(st.facts, add(x, y, -1))
        r = decide(st.facts, op, d)
        if r is not None:
            return r
        terms, k = d
        if len(terms) == 1:
            (atom, c), = terms.items()
            if c in (1, -1):
                # c*atom + k op 0
                if c == 1:
                    return ip.decide_cmp_const(st, op, Sym(atom, TY), -k)
                return ip.decide_cmp_const(st, ip.FLIP[op], Sym(atom, TY), k)
        # several unfixed atoms: peel off boundary values of one atom at a time (a == lo | a > lo); each
        # refinement either decides the comparison or leaves one atom fewer at its boundary. Bounded.
        pk = "peel:%s:%r:%r" % (op, a, b)
        for _ in range(6):
            n_peel = st.ext.get(pk, 0)
            if n_peel >= 4:
                break
            st.ext[pk] = n_peel + 1
            d = simplify(st.facts, add(x, y, -1))
            r = decide(st.facts, op, d)
            if r is not None:
                return r
            terms = d[0]
            if len(terms) == 1:
                return self.compare_hook(st, op, a, b)
            atom = sorted(terms, key=lambda t: (atom_range(st.facts, t)[1] - atom_range(st.facts, t)[0], t))[0]
            lo, _hi = atom_range(st.facts, atom)
            ip.decide_cmp_const(st, "Le", Sym(atom, TY), lo)
        raise AnalysisError("relational comparison %s of %r and %r: not decided by the interval bounds of %s" % (op, a, b, sorted(terms)))


class NeedSplit(Exception):
    def __init__(self, atom, at):
        self.atom, self.at = atom, at


def ask(facts, op, lf):
    """Inside a `forall` predicate: truth of (lf op 0), raising NeedSplit when it depends on the valuation."""
    r = decide(facts, op, lf)
    if r is not None:
        return r
    terms, k = simplify(facts, lf)
    if len(terms) == 1:
        (atom, c), = terms.items()
        if c in (1, -1):
            # split the atom at the value where c*atom + k changes sign
            z = -k if c == 1 else k
            raise NeedSplit(atom, z)
    # several unfixed atoms: peel the lower boundary value off one of them (bounded by forall's depth)
    atom = sorted(terms, key=lambda t: (atom_range(facts, t)[1] - atom_range(facts, t)[0], t))[0]
    lo, hi = atom_range(facts, atom)
    if lo < hi:
        raise NeedSplit(atom, lo)
    raise AnalysisError("relational condition over %s cannot be decided by case split" % sorted(terms))


def forall(facts, pred, depth=0):
    """pred(facts) -> None (holds) or a string (counterexample description), for every valuation of the
    atoms' intervals; splits single atoms at the points the predicate asks about."""
    try:
        return pred(facts)
    except NeedSplit as s:
        if depth > 12:
            raise AnalysisError("case split too deep")
        lo, hi = atom_range(facts, s.atom)
        parts = []
        for a, b in ((lo, s.at - 1), (s.at, s.at), (s.at + 1, hi)):
            a, b = max(a, lo), min(b, hi)
            if a <= b:
                parts.append((a, b))
        if len(parts) <= 1:
            raise AnalysisError("split of %s at %s does not make progress" % (s.atom, s.at))
        for a, b in parts:
            f2 = dict(facts)
            f2[("rng", s.atom)] = ((a, b),)
            r = forall(f2, pred, depth + 1)
            if r is not None:
                return "%s (with %s in %s..%s)" % (r, s.atom, a, b) if "(with" not in r else r
        return None


def fmt(lf):
    terms, k = lf
    parts = []
    for a, c in sorted(terms.items()):
        parts.append(("%s" % a) if c == 1 else ("-%s" % a) if c == -1 else "%d*%s" % (c, a))
    s = " + ".join(parts).replace("+ -", "- ")
    if k or not parts:
        s = (s + (" + %d" % k if k > 0 else " - %d" % -k)) if parts else str(k)
    return s
