"""Export (via the rustc_private driver) and load the JSON facts of /repo's current tree.

The facts are cached under /verif/.facts/<hash of every source file of /repo>/ so the 18 checks
share one export; any edit to /repo changes the hash and forces a fresh export into a fresh
target directory (a warm target dir would make cargo skip the wrapper)."""
import fcntl
import glob
import hashlib
import json
import os
import shutil
import subprocess
import sys
import tempfile
import time

VERIF = os.path.dirname(os.path.dirname(os.path.abspath(__file__)))
REPO = os.environ.get("PRECIS_REPO", "/repo")
DRIVER = os.path.join(VERIF, "driver", "target", "release", "precis-mirdump")
CACHE = os.path.join(VERIF, ".facts")
FACTS_VERSION = "2"

# floors: number of bodies counted on the pinned tree (minus a margin for legitimate shrinkage);
# an export below the floor means the driver did not see the crate and every check fails closed.
BODY_FLOORS = {"precis_core": 150, "precis_profiles": 100, "precis_tools": 120, "pv_positive": 15}  # local bodies (exported std bodies not counted)


class FactsError(Exception):
    pass


def repo_hash(repo=REPO):
    h = hashlib.sha256()
    files = []
    for root, dirs, fs in os.walk(repo):
        dirs[:] = sorted(d for d in dirs if d not in (".git", "target"))
        for f in sorted(fs):
            files.append(os.path.join(root, f))
    for p in files:
        try:
            with open(p, "rb") as fh:
                data = fh.read()
        except OSError:
            continue
        h.update(os.path.relpath(p, repo).encode())
        h.update(b"\0")
        h.update(hashlib.sha256(data).digest())
    # the driver itself and the positive-control source are part of the key
    for extra in (DRIVER, os.path.join(VERIF, "witness", "positive.rs")):
        try:
            with open(extra, "rb") as fh:
                h.update(hashlib.sha256(fh.read()).digest())
        except OSError:
            pass
    h.update(FACTS_VERSION.encode())
    return h.hexdigest()[:24]


def _sysroot():
    return subprocess.check_output(["rustc", "+nightly", "--print", "sysroot"], text=True).strip()


def export(repo, out_dir, all_targets=False, release=False):
    if not os.path.exists(DRIVER):
        raise FactsError("driver not built: run MANIFEST.setup_cmd (%s missing)" % DRIVER)
    target = tempfile.mkdtemp(prefix="pv-target-", dir=os.environ.get("PV_SCRATCH", "/var/tmp"))
    os.makedirs(out_dir, exist_ok=True)
    env = dict(os.environ)
    env.update(
        LD_LIBRARY_PATH=os.path.join(_sysroot(), "lib"),
        RUSTFLAGS="-Zmir-opt-level=0 -Awarnings",
        RUSTC_WORKSPACE_WRAPPER=DRIVER,
        CARGO_TARGET_DIR=target,
        PRECIS_FACTS_DIR=out_dir,
        CARGO_NET_OFFLINE="true",
    )
    cmd = ["cargo", "+nightly", "check", "--offline", "--workspace"]
    if all_targets:
        cmd.append("--all-targets")
    if release:
        cmd.append("--release")
    t0 = time.time()
    try:
        p = subprocess.run(cmd, cwd=repo, env=env, stdout=subprocess.PIPE, stderr=subprocess.STDOUT, text=True)
    finally:
        # keep the generated OUT_DIR sources (tables) for reference, drop the rest
        try:
            gen = os.path.join(out_dir, "generated")
            os.makedirs(gen, exist_ok=True)
            for f in glob.glob(os.path.join(target, "*", "build", "precis-*", "out", "*.rs")):
                pkg = os.path.basename(os.path.dirname(os.path.dirname(f))).rsplit("-", 1)[0]
                os.makedirs(os.path.join(gen, pkg), exist_ok=True)
                shutil.copy(f, os.path.join(gen, pkg, os.path.basename(f)))
        except OSError:
            pass
        shutil.rmtree(target, ignore_errors=True)
    if p.returncode != 0:
        raise FactsError("cargo check of %s failed (the tree does not compile?):\n%s" % (repo, p.stdout[-4000:]))
    # positive controls: compiled by the same driver (plain rustc invocation, std only)
    pos = os.path.join(VERIF, "witness", "positive.rs")
    tmpd = tempfile.mkdtemp(prefix="pv-pos-", dir=os.environ.get("PV_SCRATCH", "/var/tmp"))
    try:
        q = subprocess.run(
            [DRIVER, "rustc", "--edition", "2021", "--crate-type", "lib", "--crate-name", "pv_positive", "--emit=metadata", "-Zmir-opt-level=0", "-Awarnings", "--out-dir", tmpd, pos],
            env=dict(env, RUSTUP_TOOLCHAIN="nightly"),
            stdout=subprocess.PIPE,
            stderr=subprocess.STDOUT,
            text=True,
        )
        if q.returncode != 0:
            raise FactsError("positive-control crate failed to compile:\n%s" % q.stdout[-3000:])
    finally:
        shutil.rmtree(tmpd, ignore_errors=True)
    with open(os.path.join(out_dir, "export.log"), "w") as fh:
        fh.write(p.stdout)
        fh.write("\nexport wall_s=%.1f\n" % (time.time() - t0))
    return time.time() - t0


def ensure(repo=REPO, variant="lib"):
    """Return the directory holding the facts of the current tree, exporting if necessary."""
    os.makedirs(CACHE, exist_ok=True)
    key = repo_hash(repo) + "-" + variant
    d = os.path.join(CACHE, key)
    lock = open(os.path.join(CACHE, ".lock-" + key), "w")
    fcntl.flock(lock, fcntl.LOCK_EX)
    try:
        if not os.path.exists(os.path.join(d, "DONE")):
            shutil.rmtree(d, ignore_errors=True)
            # prune older exports (disk is limited); a short global lock keeps two pruners apart
            g = open(os.path.join(CACHE, ".lock"), "w")
            fcntl.flock(g, fcntl.LOCK_EX)
            try:
                olds = sorted((p for p in glob.glob(os.path.join(CACHE, "*")) if os.path.isdir(p) and not p.endswith(".tmp") and os.path.exists(os.path.join(p, "DONE"))), key=os.path.getmtime)
                for old in olds[:-24]:
                    # least recently *used* first (every use touches the directory); never one used in the
                    # last 20 minutes — a concurrent check may still be reading it
                    if time.time() - os.path.getmtime(old) > 1200:
                        shutil.rmtree(old, ignore_errors=True)
                for lf in glob.glob(os.path.join(CACHE, ".lock-*")):
                    if time.time() - os.path.getmtime(lf) > 3600 and not lf.endswith(key):
                        try:
                            os.unlink(lf)
                        except OSError:
                            pass
            finally:
                fcntl.flock(g, fcntl.LOCK_UN)
                g.close()
            tmp = d + ".tmp"
            shutil.rmtree(tmp, ignore_errors=True)
            export(repo, tmp, all_targets=(variant == "all"), release=(variant == "release"))
            open(os.path.join(tmp, "DONE"), "w").write(key)
            os.rename(tmp, d)
        else:
            try:
                os.utime(d)
            except OSError:
                pass
    finally:
        fcntl.flock(lock, fcntl.LOCK_UN)
        lock.close()
    return d


def load(repo=REPO, variant="lib"):
    d = ensure(repo, variant)
    crates = {}
    for f in sorted(glob.glob(os.path.join(d, "*.json"))):
        with open(f) as fh:
            data = json.load(fh)
        name = data["crate"]
        if name == "build_script_build":
            src = data["src"]
            name = "build_script:" + ("precis-core" if "precis-core" in src else "precis-profiles" if "precis-profiles" in src else "other")
        if data.get("is_test"):
            name = name + "#test"
        if name in crates:
            # precis_tools is compiled twice (build-dependency and dev-dependency): keep one
            if sum(1 for b in data["bodies"] if not b.get("ext")) != sum(1 for b in crates[name]["bodies"] if not b.get("ext")):
                raise FactsError("two exports of %s disagree on body count" % name)
            continue
        data["_file"] = f
        crates[name] = data
    for name, floor in BODY_FLOORS.items():
        if name not in crates:
            raise FactsError("no facts for crate %s in %s" % (name, d))
        n = sum(1 for b in crates[name]["bodies"] if not b.get("ext"))
        if n < floor:
            raise FactsError("crate %s: %d bodies exported, floor %d" % (name, n, floor))
        if crates[name]["errors"]:
            raise FactsError("driver errors for %s: %s" % (name, crates[name]["errors"][:3]))
    return d, crates


if __name__ == "__main__":
    d, crates = load()
    print(d)
    for k, v in crates.items():
        print(k, len(v["bodies"]))
