"""Tiny parser for the type strings the driver prints, and fresh abstract values of a type."""
import re

from .interp import RESULT, OPTION, UNIT, Adt, Opq, Ref, Str, Sym, Top, Tup, I, boolean, INT_BITS

RANGE_INCL = "core::ops::range::RangeInclusive"
COW = "alloc::borrow::Cow"
STRING = "alloc::string::String"
CONTROLFLOW = "core::ops::control_flow::ControlFlow"


def split_top(s, sep=","):
    out, depth, cur = [], 0, ""
    for ch in s:
        if ch in "<([{":
            depth += 1
        elif ch in ">)]}":
            depth -= 1
        if ch == sep and depth == 0:
            out.append(cur.strip())
            cur = ""
        else:
            cur += ch
    if cur.strip():
        out.append(cur.strip())
    return out


def generic_args(ty):
    """('core::option::Option', ['char']) for 'core::option::Option<char>' (lifetimes dropped)."""
    i = ty.find("<")
    if i < 0 or not ty.endswith(">"):
        return ty, []
    args = [a for a in split_top(ty[i + 1 : -1]) if not a.startswith("'")]
    return ty[:i], args


_REF = re.compile(r"^&('[A-Za-z_0-9]+ )?(mut )?(.*)$")


def is_string_ty(ty):
    if ty in ("str", STRING):
        return True
    head, args = generic_args(ty)
    return head == COW and args == ["str"]


def synthetic_variants(ty):
    """Variant lists of the std enums the code matches on."""
    head, args = generic_args(ty)
    if head == OPTION:
        return [{"idx": 0, "name": "None", "fields": []}, {"idx": 1, "name": "Some", "fields": [{"ty": args[0]}]}]
    if head == RESULT:
        return [{"idx": 0, "name": "Ok", "fields": [{"ty": args[0]}]}, {"idx": 1, "name": "Err", "fields": [{"ty": args[1]}]}]
    if head == "core::cmp::Ordering":
        return [{"idx": 0, "name": "Less", "fields": []}, {"idx": 1, "name": "Equal", "fields": []}, {"idx": 2, "name": "Greater", "fields": []}]
    if head == "ucd_parse::common::Codepoints":
        return [{"idx": 0, "name": "Single", "fields": [{"ty": "ucd_parse::common::Codepoint"}]}, {"idx": 1, "name": "Range", "fields": [{"ty": "ucd_parse::common::CodepointRange"}]}]
    if head == CONTROLFLOW:
        return [{"idx": 0, "name": "Continue", "fields": [{"ty": args[1] if len(args) > 1 else "()"}]}, {"idx": 1, "name": "Break", "fields": [{"ty": args[0]}]}]
    return None


def fresh(prog, ty, name, opaque=()):
    """An unconstrained abstract value of type `ty`, named `name` (names must be unique per path)."""
    ty = ty.strip()
    if ty in INT_BITS or ty in ("f32", "f64"):
        return Sym(name, ty)
    if ty == "()":
        return UNIT
    if ty == "!":
        return Top("!")
    m = _REF.match(ty)
    if m:
        inner = m.group(3)
        if is_string_ty(inner):
            return Str(("fresh", name))
        if inner.startswith("[") or inner.startswith("dyn "):
            return Opq("fresh-ref", (inner, name))
        return Ref(("val", fresh(prog, inner, ("deref", name), opaque)))
    if is_string_ty(ty):
        return Str(("fresh", name))
    if ty.startswith("(") and ty.endswith(")"):
        parts = split_top(ty[1:-1])
        return Tup(tuple(fresh(prog, p, ("t", name, i), opaque) for i, p in enumerate(parts)))
    if re.match(r"^[A-Z][A-Za-z0-9]*$", ty):
        # a bare generic parameter: the public API's S/T/A/B are string-likes (Into<Cow<str>> / AsRef<str>),
        # F is the rule function handed to stabilize
        if ty.startswith("F"):
            return Opq("fresh-fn", (ty, name))
        if ty == "Self":
            return Opq("fresh-self", (name,))
        return Str(("fresh", name))
    head, args = generic_args(ty)
    if head in opaque or ty in opaque:
        return Sym(name, ty + "!opaque")
    if head == RANGE_INCL:
        return Adt(RANGE_INCL, 0, (fresh(prog, args[0], ("lo", name), opaque), fresh(prog, args[0], ("hi", name), opaque), Sym(("exhausted", name), "bool")))
    if synthetic_variants(ty) is not None:
        return Sym(name, ty)
    a = prog.adts.get(head)
    if a is not None:
        if a["kind"] == "Enum":
            return Sym(name, ty)
        v = a["variants"][0]
        return Adt(head, 0, tuple(fresh(prog, f["ty"], ("f", name, i), opaque) for i, f in enumerate(v["fields"])))
    return Opq("fresh", (ty, name))


def fresh_args(prog, st, inputs, opaque=()):
    """Unconstrained arguments for a function signature; `&mut T` arguments point to a heap cell so
    that writes through them are possible."""
    out = []
    for i, ty in enumerate(inputs):
        m = _REF.match(ty.strip())
        if m and m.group(2):
            hid = ("arg", i)
            st.heap[hid] = fresh(prog, m.group(3), ("deref", ("arg", i)), opaque)
            out.append(Ref(("heap", hid, ())))
        else:
            out.append(fresh(prog, ty, ("arg", i), opaque))
    return out
