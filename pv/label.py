"""The label abstraction shared by C02 (own sets) and C03 (rule logic).

A context rule sees its label only through reads of single characters. Every read is brought to the
form "the character at position offset+k" (k a constant), whatever iterator expression produced it:
`chars().nth(n)`, `chars().skip(n).nth(j)`, `char_indices().nth(n)`, `split_at(pos)` followed by
`head.chars().rev()` / `tail.chars().skip(j)` cursors stepped by `next()`. A *cursor* is
(direction, next position, lower bound, upper bound) over a sub-string [lo, hi) of the label whose
bounds are themselves positions offset+j (or the label's own start/end)."""
from . import automaton as au
from . import interp as ip
from .interp import AnalysisError, Adt, I, Opq, Outcome, Ref, Str, Sym, Tup, lin_parts, mk_lin, rng_get
from .models import deref_all
from .worlds import OracleWorld

COMMON = "precis_core::common::"


def shift_value(v, d):
    def f(s):
        n = s.name
        if n == "offset":
            return s
        b, k = lin_parts(s)
        if b == "offset":
            return mk_lin("offset", k + d, s.ty)
        if isinstance(n, tuple) and len(n) == 2 and n[0] in ("at", "bytepos"):
            return Sym((n[0], n[1] + d), s.ty)
        return s

    def g(x):
        x = au.map_value(x, f)
        return shift_cursors(x, d)

    if isinstance(v, Sym) and v.name == "offset":
        # a counter that *is* `offset` on the first round (`let mut i = offset; loop { … i += 1 }`): offset + 0
        return mk_lin("offset", d, v.ty)
    return g(v)


def shift_cursors(v, d):
    """Cursor positions are python tuples inside Opq('lcur'): shift the moving position (bounds stay)."""
    if isinstance(v, Opq) and v.kind == "lcur":
        dr, pos, lo, hi, ix, started = v.data
        if pos[0] == "rel":
            pos = ("rel", pos[1] + d)
        return Opq("lcur", (dr, pos, lo, hi, ix, started))
    if isinstance(v, Opq) and v.kind in ADAPTORS:
        return Opq(v.kind, tuple(shift_cursors(x, d) for x in v.data))
    if isinstance(v, Adt):
        return Adt(v.ty, v.variant, tuple(shift_cursors(x, d) for x in v.fields))
    if isinstance(v, Tup):
        return Tup(tuple(shift_cursors(x, d) for x in v.fields))
    if isinstance(v, Ref) and v.loc[0] in ("val", "valp"):
        return Ref((v.loc[0], shift_cursors(v.loc[1], d)) + tuple(v.loc[2:]))
    return v


ADAPTORS = ("map", "skip", "rev", "enumerate", "peekable")


def inner_cursor(v):
    """The label cursor inside an adaptor chain (map(f) over a cursor ...), or None."""
    while (isinstance(v, Opq) and v.kind in ADAPTORS and v.data) or (isinstance(v, Adt) and v.ty == "&snapshot"):
        v = v.data[0] if isinstance(v, Opq) else v.fields[0]
    return v if isinstance(v, Opq) and v.kind == "lcur" else None


def _utf8_len(cp):
    return 1 if cp < 0x80 else 2 if cp < 0x800 else 3 if cp < 0x10000 else 4


class InductionFailure(AnalysisError):
    """The iterations of a scan loop are not position-shifts of one another."""


class LabelWorld(OracleWorld):
    max_steps = 100000

    def __init__(self, prog):
        OracleWorld.__init__(self, prog)
        self.inductions = []

    # ---- predicates of precis_core::common on an atom
    def call(self, m, st, callee, args, term):
        p = callee["path"]
        if p.startswith(COMMON) and p.count("::") == 2:
            name = p.rsplit("::", 1)[1]
            a = args[0]
            if not (isinstance(a, Sym) and isinstance(a.name, tuple) and a.name[0] in ("at", "scan")):
                raise AnalysisError("%s is asked about %r, not about a character of the label" % (name, a))
            return ip.boolean(st.choose(("pred", name, a.name), [True, False]))
        return OracleWorld.call(self, m, st, callee, args, term)

    # ---- reading the label
    # positions: ("abs", n) from the label's start, ("rel", k) = offset+k, None = the label's end
    @staticmethod
    def _pos(v):
        if isinstance(v, I):
            return ("abs", v.v)
        if isinstance(v, Sym):
            b, k = lin_parts(v)
            if b == "offset":
                return ("rel", k)
        raise AnalysisError("label position %r is neither a constant nor offset+k" % (v,))

    @staticmethod
    def _add(p, q):
        """p + q for positions/distances (q may be negative int)."""
        if isinstance(q, int):
            return (p[0], p[1] + q)
        if p[0] == "abs" and q[0] == "rel":
            return ("rel", q[1] + p[1])
        if p[0] == "rel" and q[0] == "abs":
            return ("rel", p[1] + q[1])
        if p[0] == "abs" and q[0] == "abs":
            return ("abs", p[1] + q[1])
        raise AnalysisError("label position offset+%d advanced by offset+%d" % (p[1], q[1]))

    def substr(self, sv):
        """(lo, hi) of a label sub-string value, or None if it is not one."""
        if isinstance(sv, Str):
            if sv.tag == ("label",):
                return (("abs", 0), None)
            if isinstance(sv.tag, tuple) and sv.tag and sv.tag[0] == "label-sub":
                return (sv.tag[1], sv.tag[2])
        return None

    def cursor(self, m, st, it):
        """Normalise an iterator expression over the label to Opq('lcur', (dir, pos, lo, hi, indexed, started))."""
        if isinstance(it, Ref):
            it = deref_all(m, st, it)
        if not isinstance(it, Opq):
            raise AnalysisError("label iterator expected, got %r" % (it,))
        if it.kind == "lcur":
            return it
        if it.kind in ("chars", "char_indices"):
            sub = self.substr(it.data[0])
            if sub is None:
                raise AnalysisError("iteration over %r, which is not (a part of) the label" % (it.data[0],))
            return Opq("lcur", (1, sub[0], sub[0], sub[1], it.kind == "char_indices", False))
        if it.kind == "skip":
            c = self.cursor(m, st, it.data[0])
            d, pos, lo, hi, ix, started = c.data
            n = self._pos(it.data[1])
            if d != 1:
                raise AnalysisError("skip on a reversed label iterator")
            return Opq("lcur", (d, self._add(pos, n) if n != ("abs", 0) else pos, lo, hi, ix, True))
        if it.kind == "rev":
            c = self.cursor(m, st, it.data[0])
            d, pos, lo, hi, ix, started = c.data
            if started or d != 1:
                raise AnalysisError("rev() of a label iterator that has already been advanced")
            if hi is None:
                raise AnalysisError("rev() of an iterator that runs to the label's end (position not relative to the rule's own)")
            return Opq("lcur", (-1, self._add(hi, -1), lo, hi, ix, True))
        raise AnalysisError("label iterator expected, got %r" % (it,))

    def iter_rev(self, m, st, it):
        return Opq("rev", (it,))

    def read_at(self, m, st, cur, pos):
        """The Option<char> (or Option<(usize, char)>) at `pos` of the cursor's sub-string."""
        d, _, lo, hi, ix, _ = cur.data
        if pos[0] == "abs":
            # a position counted from the label's start is a position relative to the rule's own when the path
            # has fixed `offset` to one value (e.g. the `offset == 0` branch of a helper)
            r0 = rng_get(st, Sym("offset", "usize"))
            if len(r0) == 1 and r0[0][0] == r0[0][1]:
                pos = ("rel", pos[1] - r0[0][0])
        if pos[0] != "rel":
            raise AnalysisError("label read at the absolute position %r, not at a position relative to the rule's own" % (pos[1],))
        k = pos[1]
        pres = None
        if lo is not None and lo[0] == "rel" and k < lo[1]:
            pres = False
        if hi is not None and hi[0] == "rel" and k >= hi[1]:
            pres = False
        if lo is not None and lo[0] == "abs" and lo[1] != 0:
            raise AnalysisError("label sub-string starting at the absolute position %d" % lo[1])
        if hi is not None and hi[0] == "abs":
            raise AnalysisError("label sub-string ending at the absolute position %d" % hi[1])
        if pres is None:
            pres = self.present(st, k)
        if pres is None:
            pres = st.choose(("at", k), ["present", "absent"]) == "present"
        st.emit(("read", k, pres))
        if not pres:
            return ip.none()
        c = Sym(("at", k), "char")
        if ix:
            return ip.some(Tup((Sym(("bytepos", k), "usize"), c)))
        return ip.some(c)

    def _store_cursor(self, m, st, itref, cur):
        if isinstance(itref, Ref):
            r = itref
            while True:
                v = m.load(st, r.loc)
                if isinstance(v, Ref):
                    r = v
                else:
                    break
            if r.loc[0] != "val":
                m.store(st, r.loc, cur)

    def iter_nth(self, m, st, itref, n):
        cur = self.cursor(m, st, itref)
        d, pos, lo, hi, ix, started = cur.data
        if d == 1:
            tgt = self._add(pos, self._pos(n)) if not (isinstance(n, I) and n.v == 0) else pos
        else:
            nn = self._pos(n)
            if nn[0] != "abs":
                raise AnalysisError("nth(offset+k) on a reversed label iterator")
            tgt = self._add(pos, -nn[1])
        r = self.read_at(m, st, cur, tgt)
        self._store_cursor(m, st, itref, Opq("lcur", (d, self._add(tgt, d), lo, hi, ix, True)))
        return r

    def cursor_next(self, m, st, itref, cur):
        d, pos, lo, hi, ix, started = cur.data
        r = self.read_at(m, st, cur, pos)
        self._store_cursor(m, st, itref, Opq("lcur", (d, self._add(pos, d), lo, hi, ix, True)))
        return r

    def iter_next(self, m, st, ref, it):
        if isinstance(it, Opq) and it.kind in ("lcur", "rev", "skip"):
            return self.cursor_next(m, st, ref, self.cursor(m, st, it))
        return None

    def str_strip_prefix(self, m, st, sv, pat):
        """sub.strip_prefix(c) for a character constant: reads the first character of the sub-string."""
        sub = self.substr(sv)
        if sub is None or not (isinstance(pat, I) and pat.ty == "char"):
            raise AnalysisError("strip_prefix(%r) on %r" % (pat, sv))
        lo, hi = sub
        cur = Opq("lcur", (1, lo, lo, hi, False, True))
        r = self.read_at(m, st, cur, lo)
        if isinstance(r, Adt) and r.variant == 0:
            return ip.none()
        c = r.fields[0]
        if not ip.compare(st, "Eq", c, pat, self):
            return ip.none()
        nxt = self._add(lo, 1) if lo[0] in ("rel", "abs") else lo
        return ip.some(Ref(("val", Str(("label-sub", nxt, hi)))))

    def str_split_once(self, m, st, sv, pat, name):
        raise AnalysisError("the label is cut with %s(%s): that is the %s occurrence of the character in the label, which is the rule's own position only if the character does not occur %s — a repeated contextual character would be judged in the context of another occurrence" % (name, "the character at offset" if isinstance(pat, Sym) and pat.name == ("at", 0) else repr(pat), "first" if name == "split_once" else "last", "earlier" if name == "split_once" else "later"))

    def iter_next_back(self, m, st, itref, it):
        """chars().next_back() on a forward cursor over [lo, hi): the character at hi-1; hi moves down."""
        cur = self.cursor(m, st, it)
        d, pos, lo, hi, ix, started = cur.data
        if d != 1:
            raise AnalysisError("next_back on a reversed label iterator")
        if hi is None:
            raise AnalysisError("next_back on an iterator that runs to the label's end (position not relative to the rule's own)")
        tgt = self._add(hi, -1)
        # (nothing before the cursor's current position is left to yield)
        if pos[0] == tgt[0] and tgt[1] < pos[1]:
            st.emit(("read", tgt[1], False))
            return ip.none()
        r = self.read_at(m, st, cur, tgt)
        self._store_cursor(m, st, itref, Opq("lcur", (d, pos, lo, tgt, ix, started)))
        return r

    def skip_next(self, m, st, itref):
        it = m.load(st, itref.loc) if isinstance(itref, Ref) else itref
        return self.cursor_next(m, st, itref, self.cursor(m, st, it))

    def char_indices_next(self, m, st, itref):
        it = m.load(st, itref.loc) if isinstance(itref, Ref) else itref
        return self.cursor_next(m, st, itref, self.cursor(m, st, it))

    def split_at(self, m, st, sv, mid):
        sub = self.substr(sv)
        if sub is None:
            raise AnalysisError("split_at on %r, which is not (a part of) the label" % (sv,))
        if not (isinstance(mid, Sym) and isinstance(mid.name, tuple) and mid.name[0] == "bytepos"):
            raise AnalysisError("split_at(%r): not the byte position of a character that was read" % (mid,))
        p = ("rel", mid.name[1])
        return Tup((Ref(("val", Str(("label-sub", sub[0], p)))), Ref(("val", Str(("label-sub", p, sub[1]))))))

    def _bytepos(self, v):
        """rel position k for the byte position of the character offset+k (as read with char_indices)."""
        if isinstance(v, Sym) and isinstance(v.name, tuple) and len(v.name) == 2 and v.name[0] == "bytepos":
            return ("rel", v.name[1])
        return None

    def str_slice(self, m, st, sv, rng, callee):
        """&label[..p] / &label[p..] / &label[p..q] with p, q byte positions of characters that were read."""
        sub = self.substr(sv)
        if sub is None:
            raise AnalysisError("slice of %r, which is not (a part of) the label" % (sv,))
        r = rng if isinstance(rng, Adt) else deref_all(m, st, rng)
        kind = r.ty.rsplit("::", 1)[1]
        lo, hi = sub
        names = {"RangeTo": (None, 0), "RangeFrom": (0, None), "Range": (0, 1), "RangeFull": (None, None)}
        if kind not in names:
            raise AnalysisError("label sliced with %s" % r.ty)
        li, hi_i = names[kind]
        for which, fi in (("lo", li), ("hi", hi_i)):
            if fi is None:
                continue
            b = r.fields[fi]
            if isinstance(b, I) and b.v == 0 and which == "lo":
                continue
            p_ = self._bytepos(b)
            if p_ is None and which == "lo" and isinstance(b, I) and sub[0] is not None and sub[0][0] == "rel":
                # &rest[c.len_utf8()..] where rest starts with the character c = label[offset+k]
                k = sub[0][1]
                r_ = rng_get(st, Sym(("at", k), "char"))
                if self.present(st, k) and _utf8_len(r_[0][0]) == _utf8_len(r_[-1][1]) == b.v:
                    p_ = ("rel", k + 1)
            if p_ is None:
                raise AnalysisError("label slice bound %r: not the byte position of a character that was read" % (b,))
            if which == "lo":
                lo = p_
            else:
                hi = p_
        return Str(("label-sub", lo, hi))

    def binop_hook(self, st, op, a, b):
        # bytepos(k) + len_utf8(label[k])  =  bytepos(k+1)
        base = op.replace("WithOverflow", "").replace("Unchecked", "")
        if base == "Add":
            for x, y in ((a, b), (b, a)):
                px = self._bytepos(x)
                if px is None:
                    continue
                k = px[1]
                okk = False
                if isinstance(y, Sym) and y.name == ("utf8len", k):
                    okk = True
                elif isinstance(y, I):
                    r = rng_get(st, Sym(("at", k), "char"))
                    okk = _utf8_len(r[0][0]) == _utf8_len(r[-1][1]) == y.v
                if okk:
                    res = Sym(("bytepos", k + 1), x.ty)
                    return Tup((res, ip.boolean(False))) if op.endswith("WithOverflow") else res
        return OracleWorld.binop_hook(self, st, op, a, b) if hasattr(OracleWorld, "binop_hook") else None

    def present(self, st, k):
        f = st.facts.get(("at", k))
        if f is not None:
            return f == "present"
        known_present = [kk for (t, kk), v in ((key, v) for key, v in st.facts.items() if isinstance(key, tuple) and len(key) == 2 and key[0] == "at") if v == "present"]
        known_absent = [kk for (t, kk), v in ((key, v) for key, v in st.facts.items() if isinstance(key, tuple) and len(key) == 2 and key[0] == "at") if v == "absent"]
        # a position that certainly lies at or after the label's start and is absent lies beyond its end: so do
        # all later ones
        r0 = rng_get(st, Sym("offset", "usize"))
        if any(kk <= k and (kk >= 0 or r0[0][0] + kk >= 0) for kk in known_absent):
            return False
        if k >= 0:
            if any(kk >= k for kk in known_present):
                return True
            return None
        # k < 0: position offset+k exists iff offset+k >= 0, provided the rule's own position exists
        r = rng_get(st, Sym("offset", "usize"))
        lo, hi = r[0][0], r[-1][1]
        own = any(kk >= 0 for kk in known_present)
        if lo + k >= 0 and own:
            return True
        if hi + k < 0:
            return False
        return None

    def chars_next(self, m, st, itref):
        it = m.load(st, itref.loc) if isinstance(itref, Ref) else itref
        if isinstance(it, Ref):
            it = deref_all(m, st, it)
        if isinstance(it, Opq) and (it.kind == "lcur" or (it.kind == "chars" and self.substr(it.data[0]) not in (None, (("abs", 0), None)))):
            return self.cursor_next(m, st, itref, self.cursor(m, st, it))
        r0 = rng_get(st, Sym("offset", "usize"))
        if isinstance(it, Opq) and it.kind == "chars" and self.substr(it.data[0]) == (("abs", 0), None) and len(r0) == 1 and r0[0][0] == r0[0][1] and not st.ext.get("scan"):
            # `offset` is one known value on this path: reads from the label's start are reads at known
            # positions relative to it
            return self.cursor_next(m, st, itref, self.cursor(m, st, it))
        n = st.ext.get("scan", 0) + 1
        ans = st.choose(("scan-next", n), ["Some", "None"])
        st.ext["scan"] = n
        if ans == "None":
            st.emit(("scan-end",))
            return ip.none()
        st.emit(("scan", n))
        return ip.some(Sym(("scan", n), "char"))

    # ---- loops
    def loop_policy(self, body, head):
        return "custom"

    def loop_arrival(self, m, st, fr, target):
        loops = dict(st.ext.get("loops") or {})
        key = (fr.uid, target)
        live = au.live_locals(st)[fr.uid] | set()
        # liveness at the loop head itself
        live_in, _ = au._live_sets(fr.body)
        live = set(live_in[target])
        def snap(v, depth=0):
            # a reference to mutable state (an iterator borrowed by an adaptor's loop): the state it points at
            if isinstance(v, Ref) and v.loc[0] not in ("static", "val", "valp") and depth < 3:
                try:
                    return Adt("&snapshot", 0, (snap(m.load(st, v.loc), depth + 1),))
                except AnalysisError:
                    return v
            return v

        cur = {l: snap(v) for l, v in fr.locals.items() if l in live}
        prev = loops.get(key)
        if prev is None:
            loops[key] = cur
            loops[("facts",) + key] = dict(st.facts)
            st.ext["loops"] = loops
            st.consulted = set()
            return None
        facts1 = loops.get(("facts",) + key, {})
        # whole-label scan: nothing but the scanned atoms changes
        changed = [l for l in cur if cur[l] != prev.get(l)]
        if not changed:
            return Outcome("closed", None, st, "loop closed (state repeats)")
        # shift induction
        d = None
        for l in changed:
            a, b_ = prev.get(l), cur[l]
            if isinstance(a, Sym) and isinstance(b_, Sym):
                ba, ka = lin_parts(a)
                bb, kb = lin_parts(b_)
                if ba == bb == "offset":
                    d = kb - ka
                    break
        if d is None:
            for l in changed:
                a, b_ = inner_cursor(prev.get(l)), inner_cursor(cur[l])
                if isinstance(a, Opq) and isinstance(b_, Opq) and a.kind == b_.kind == "lcur" and a.data[1][0] == b_.data[1][0] == "rel":
                    d = b_.data[1][1] - a.data[1][1]
                    break
        if d is None and any(inner_cursor(cur[l]) is not None and inner_cursor(prev.get(l)) is None for l in changed):
            # the first round turned an iterator expression into a cursor: compare from this arrival on
            n = loops.get(("n",) + key, 0) + 1
            if n <= 3:
                loops[("n",) + key] = n
                loops[key] = cur
                loops[("facts",) + key] = dict(st.facts)
                st.ext["loops"] = loops
                st.consulted = set()
                return None
        if d is None:
            # (not a verdict about the scan: the loop's state is not one this abstraction follows)
            raise AnalysisError("loop at bb%d of %s: the state changes from one round to the next but no label position steps (a loop over something other than relative label positions)" % (target, fr.body.id))
        if d == 0:
            # the state changed although no position stepped (a buffered element of a Peekable was taken, a flag
            # set on the first round): a preliminary round — compare from this arrival on
            n = loops.get(("n",) + key, 0) + 1
            if n <= 3:
                loops[("n",) + key] = n
                loops[key] = cur
                loops[("facts",) + key] = dict(st.facts)
                st.ext["loops"] = loops
                st.consulted = set()
                return None
        for l in changed:
            if shift_value(prev.get(l), d) != cur[l]:
                raise InductionFailure("loop at bb%d of %s: `%s` is not the previous round's value shifted by %+d (the scan does not visit consecutive positions uniformly) [was %r, is %r]" % (target, fr.body.id, fr.body.local_name(l), d, prev.get(l), cur[l]))
        # what the previous round knew about its character *and used* must also hold for this round's
        # character; otherwise the previous round was a special case: re-anchor on this arrival and go on
        special = None
        for l in changed:
            syms = []
            au.map_value(prev.get(l), lambda s: (syms.append(s), s)[1])
            for s in syms:
                if isinstance(s.name, tuple) and len(s.name) == 2 and s.name[0] == "at":
                    k = s.name[1]
                    for fk, fv in list(facts1.items()):
                        if isinstance(fk, tuple) and len(fk) == 3 and fk[0] == "pred" and fk[2] == ("at", k) and fk in st.consulted:
                            if st.facts.get(("pred", fk[1], ("at", k + d))) != fv:
                                special = fk[1]
                    if ("rng", ("at", k)) in facts1 and any(isinstance(x, tuple) and len(x) >= 2 and x[0] == "cmp" and x[1] == ("at", k) for x in st.consulted):
                        special = "code point"
        if special is not None:
            n = loops.get(("n",) + key, 0) + 1
            if n > 3:
                raise InductionFailure("loop at bb%d of %s: no two consecutive rounds are shifts of one another (round depends on %s known beforehand)" % (target, fr.body.id, special))
            loops[("n",) + key] = n
            loops[key] = cur
            loops[("facts",) + key] = dict(st.facts)
            st.ext["loops"] = loops
            st.consulted = set()
            return None
        if not loops.get(("confirmed",) + key):
            # The first pair of arrivals may contain a special first round whose character is read *inside* the body
            # (`let mut i = offset; loop { read(i); test; … }`): its exits are then judged against the specification
            # for the first position only. One more round is interpreted before the induction closes the loop, so
            # that the exits of a generic round (e.g. a test that is right at -1 and wrong at -2) are judged too.
            loops[("confirmed",) + key] = True
            loops[key] = cur
            loops[("facts",) + key] = dict(st.facts)
            st.ext["loops"] = loops
            st.consulted = set()
            return None
        self.inductions.append({"fn": fr.body.id, "head": target, "step": d, "locals": [fr.body.local_name(l) for l in changed]})
        return Outcome("closed", None, st, "closed by shift induction (step %+d)" % d)


