"""Program model over the exported facts: bodies, CFG helpers, call graph (A1), dominators (A2)."""
import collections
import re

from . import facts as _facts

WORKSPACE = ("precis_core", "precis_profiles", "precis_tools")


_OUT = re.compile(r"^.*/build/(precis-[a-z]+)-[0-9a-f]+/out/")


def norm_file(f):
    """Generated sources live in a scratch OUT_DIR: name them stably."""
    return _OUT.sub(lambda m: "OUT_DIR(%s)/" % m.group(1), f or "?")


class Body:
    def __init__(self, crate, data):
        self.crate = crate
        self.d = data
        self.id = data["id"]
        self.kind = data["kind"]
        self.promoted = data["promoted"]
        self.blocks = data["blocks"]
        self.locals = data["locals"]
        self.arg_count = data["arg_count"]
        self.span = data["span"]
        self.ext = bool(data.get("ext"))
        self.key = self.id if self.promoted is None else "%s::promoted[%d]" % (self.id, self.promoted)

    @property
    def file(self):
        return self.span["file"]

    @property
    def line(self):
        return self.span["line"]

    def where(self):
        return "%s:%d" % (norm_file(self.span["file"]), self.span["line"])

    def succs(self, bb, include_unwind=False):
        t = self.blocks[bb]["term"]
        k = t["k"]
        out = []
        if k == "goto":
            out = [t["target"]]
        elif k == "switch":
            out = [x[1] for x in t["targets"]] + [t["otherwise"]]
        elif k in ("drop", "assert"):
            out = [t["target"]]
        elif k == "call":
            out = [t["target"]] if t["target"] is not None else []
        if include_unwind and t.get("unwind") is not None:
            out.append(t["unwind"])
        # dedupe, keep order
        seen = []
        for x in out:
            if x not in seen:
                seen.append(x)
        return seen

    def calls(self):
        """Yield (bb, terminator) for every call terminator in non-cleanup blocks."""
        for i, bl in enumerate(self.blocks):
            if bl["cleanup"]:
                continue
            t = bl["term"]
            if t["k"] == "call":
                yield i, t

    def reachable_blocks(self):
        seen = {0}
        work = [0]
        while work:
            b = work.pop()
            for s in self.succs(b):
                if s not in seen:
                    seen.add(s)
                    work.append(s)
        return seen

    def preds(self):
        p = collections.defaultdict(list)
        for b in range(len(self.blocks)):
            for s in self.succs(b):
                p[s].append(b)
        return p

    def dominators(self):
        """Iterative dominator sets over the non-unwind CFG."""
        reach = sorted(self.reachable_blocks())
        preds = self.preds()
        dom = {b: set(reach) for b in reach}
        dom[0] = {0}
        changed = True
        while changed:
            changed = False
            for b in reach:
                if b == 0:
                    continue
                ps = [p for p in preds[b] if p in dom]
                if not ps:
                    continue
                new = set.intersection(*(dom[p] for p in ps)) | {b}
                if new != dom[b]:
                    dom[b] = new
                    changed = True
        return dom

    def back_edges(self):
        dom = self.dominators()
        out = []
        for b in dom:
            for s in self.succs(b):
                if s in dom[b]:
                    out.append((b, s))
        return out

    def natural_loop(self, tail, head):
        body = {head, tail}
        work = [tail]
        preds = self.preds()
        while work:
            b = work.pop()
            if b == head:
                continue
            for p in preds[b]:
                if p not in body:
                    body.add(p)
                    work.append(p)
        return body

    def loops(self):
        """Natural loops: dict head -> set(blocks)."""
        out = {}
        for t, h in self.back_edges():
            out.setdefault(h, set()).update(self.natural_loop(t, h))
        return out

    def local_name(self, l):
        return self.locals[l]["name"] or "_%d" % l


# canonical path -> actual path of the private helpers that were located by role in this process (evidence)
RENAMED = {}


class Program:
    def __init__(self, repo=None, variant="lib", resolve_roles=True):
        self.dir, self.crates = _facts.load(repo or _facts.REPO, variant)
        self.renamed, self.unresolved_roles = {}, []
        self._build()
        if resolve_roles:
            # private helpers are located by role, not by path (see roles.py): a renamed / moved helper is
            # given its canonical path before any rule looks at the program
            from . import roles

            found, self.unresolved_roles = roles.discover(self)
            if found:
                self.crates = roles.rewrite(self.crates, found)
                self.renamed = found
                RENAMED.update(found)
                self._build()

    def _build(self):
        self.bodies = {}
        self.by_crate = collections.defaultdict(list)
        for cname, data in self.crates.items():
            for bd in data["bodies"]:
                b = Body(cname, bd)
                if b.ext:
                    # an exported std body (available to the interpreter; not part of any workspace crate)
                    b.crate = "std"
                    self.bodies.setdefault(b.key, b)
                    continue
                if b.key in self.bodies and cname.startswith("build_script"):
                    b.key = cname + "::" + b.key
                self.bodies[b.key] = b
                self.by_crate[cname].append(b)
        from . import synth

        for k, b in synth.build().items():
            self.bodies.setdefault(k, b)
        self.externs = {}
        for data in self.crates.values():
            self.externs.update(data["externs"])
        self.adts = {}
        self.statics = {}
        self.impls = []
        self.fns = {}
        for cname, data in self.crates.items():
            for a in data["adts"]:
                a["crate"] = cname
                self.adts[a["path"]] = a
            for s in data["statics"]:
                s["crate"] = cname
                self.statics[s["path"]] = s
            for i in data["impls"]:
                i["crate"] = cname
                self.impls.append(i)
            for f in data["fns"]:
                f["crate"] = cname
                self.fns[f["path"]] = f

    def body(self, key):
        return self.bodies.get(key)

    def is_ws(self, key):
        """Is `key` a body of the workspace (as opposed to an exported std body)?"""
        b = self.bodies.get(key)
        return b is not None and not b.ext

    _REFP = re.compile(r"^(&('[A-Za-z_0-9]+ )?(mut )?|\*const |\*mut )")

    def field_type(self, parent_ty, idx):
        """Type of field `idx` of (external) struct type `parent_ty`, learned from the MIR's own place
        projections (the driver prints the type of every field projection)."""
        ft = getattr(self, "_field_types", None)
        if ft is None:
            ft = self._field_types = {}
            for b in self.bodies.values():
                def visit(p):
                    cur = b.locals[p["l"]]["ty"]
                    for e in p["p"]:
                        if e["k"] == "deref":
                            cur = self._REFP.sub("", cur) if cur else cur
                        elif e["k"] == "field":
                            if cur:
                                ft.setdefault((self._REFP.sub("", cur), e["i"]), e["ty"])
                            cur = e["ty"]
                        elif e["k"] == "downcast":
                            cur = None  # fields of enum variants are not recorded here
                        else:
                            cur = None
                for bl in b.blocks:
                    for st in bl["stmts"]:
                        if st["k"] == "assign":
                            visit(st["place"])
                            rv = st["rv"]
                            if "place" in rv:
                                visit(rv["place"])
                            for o in _operands_of_rvalue(rv):
                                if o.get("k") in ("copy", "move"):
                                    visit(o["place"])
                    t = bl["term"]
                    for o in t.get("args", []) + ([t["discr"]] if t.get("discr") else []):
                        if o.get("k") in ("copy", "move"):
                            visit(o["place"])
        return ft.get((self._REFP.sub("", parent_ty), idx))

    def promoted(self, owner, idx):
        return self.bodies.get("%s::promoted[%d]" % (owner, idx))

    def is_workspace_callee(self, callee):
        return callee is not None and callee["crate"] in WORKSPACE

    def callee_body(self, callee):
        if callee is None or not callee["resolved"]:
            return None
        return self.bodies.get(callee["path"])

    # ------------------------------------------------------------------ A1: call graph
    def call_edges(self, body, dyn_impls=True):
        """Yield (kind, target_key_or_path, terminator, bb) for each call/closure/fn-reification in body.

        kind: 'call' (resolved workspace body), 'ext' (external), 'unresolved', 'closure', 'fnptr'"""
        for i, bl in enumerate(body.blocks):
            if bl["cleanup"]:
                continue
            for st in bl["stmts"]:
                if st["k"] != "assign":
                    continue
                rv = st["rv"]
                if rv["k"] == "aggregate" and rv.get("agg") == "closure":
                    yield ("closure", rv["def"], st, i)
                for op in _operands_of_rvalue(rv):
                    if op.get("k") == "fn":
                        yield ("fnptr", op["fn"]["path"], st, i)
            t = bl["term"]
            if t["k"] == "call":
                c = t["callee"]
                for a in t["args"]:
                    if a.get("k") == "fn":
                        yield ("fnptr", a["fn"]["path"], t, i)
                if c is None:
                    yield ("indirect", t["fn_ty"], t, i)
                elif c["resolved"] and c["path"] in self.bodies and not self.bodies[c["path"]].ext:
                    yield ("call", c["path"], t, i)
                elif c["resolved"]:
                    yield ("ext", c["path"], t, i)
                else:
                    yield ("unresolved", c["orig_full"], t, i)

    def impl_methods(self, trait_path, method_name):
        out = []
        for im in self.impls:
            if im["trait"] == trait_path:
                for p, n in zip(im["items"], im["item_names"]):
                    if n == method_name:
                        out.append(p)
        return out

    def reachable(self, roots, crates=None):
        """Closure of workspace bodies reachable from the root body keys. Returns dict key -> parent key."""
        parent = {}
        work = []
        for r in roots:
            if r in self.bodies and r not in parent:
                parent[r] = None
                work.append(r)
        while work:
            k = work.pop()
            b = self.bodies[k]
            for kind, tgt, t, bb in self.call_edges(b):
                nxt = []
                if kind in ("call", "closure", "fnptr"):
                    if tgt in self.bodies and not self.bodies[tgt].ext:
                        nxt.append(tgt)
                elif kind == "unresolved":
                    c = t["callee"]
                    # a trait method call that is not resolved: every workspace impl of that method
                    if c.get("trait"):
                        nxt.extend(self.impl_methods(c["trait"], c["name"]))
                        # and the default body, if any
                        if c["orig"] in self.bodies:
                            nxt.append(c["orig"])
                for n in nxt:
                    if n in self.bodies and n not in parent:
                        if crates is not None and self.bodies[n].crate not in crates:
                            continue
                        parent[n] = k
                        work.append(n)
            # promoted bodies of this body
            for pk, pb in self.bodies.items():
                if pb.promoted is not None and pb.id == b.id and pk not in parent:
                    parent[pk] = k
        return parent

    def path_to(self, parent, key):
        out = []
        while key is not None:
            out.append(key)
            key = parent.get(key)
        return list(reversed(out))


def _operands_of_rvalue(rv):
    k = rv["k"]
    if k in ("use", "cast", "repeat"):
        return [rv["op"]]
    if k == "binop":
        return [rv["a"], rv["b"]]
    if k == "unop":
        return [rv["a"]]
    if k == "aggregate":
        return rv["ops"]
    return []


def operands_of_rvalue(rv):
    return _operands_of_rvalue(rv)


def place_str(body, p):
    s = body.local_name(p["l"])
    for e in p["p"]:
        if e["k"] == "deref":
            s = "(*%s)" % s
        elif e["k"] == "field":
            s = "%s.%d" % (s, e["i"])
        elif e["k"] == "downcast":
            s = "(%s as %s)" % (s, e["name"])
        elif e["k"] == "index":
            s = "%s[%s]" % (s, body.local_name(e["l"]))
        else:
            s = "%s.<%s>" % (s, e["k"])
    return s


# ---------------------------------------------------------------------- A2: liveness
def _place_uses(p, uses):
    uses.add(p["l"])
    for e in p["p"]:
        if e["k"] == "index":
            uses.add(e["l"])


def _operand_uses(o, uses):
    if o["k"] in ("copy", "move"):
        _place_uses(o["place"], uses)


def stmt_uses_defs(st):
    uses, defs = set(), set()
    if st["k"] == "assign":
        rv = st["rv"]
        k = rv["k"]
        if k in ("ref", "raw_ptr", "discriminant"):
            _place_uses(rv["place"], uses)
        else:
            for o in _operands_of_rvalue(rv):
                _operand_uses(o, uses)
        p = st["place"]
        if p["p"]:
            # partial write: needs the base (a use when it goes through a deref), not a kill
            if any(e["k"] == "deref" for e in p["p"]):
                uses.add(p["l"])
            for e in p["p"]:
                if e["k"] == "index":
                    uses.add(e["l"])
        else:
            defs.add(p["l"])
    elif st["k"] == "set_discriminant":
        pass
    elif st["k"] == "storage_dead":
        defs.add(st["l"])
    return uses, defs


def term_uses_defs(t):
    uses, defs = set(), set()
    k = t["k"]
    if k == "call":
        if t["func"].get("k") in ("copy", "move"):
            _operand_uses(t["func"], uses)
        for a in t["args"]:
            _operand_uses(a, uses)
        if not t["dest"]["p"]:
            defs.add(t["dest"]["l"])
        else:
            uses.add(t["dest"]["l"])
    elif k == "switch":
        _operand_uses(t["discr"], uses)
    elif k == "assert":
        _operand_uses(t["cond"], uses)
        for o in t.get("msg_ops", []):
            _operand_uses(o, uses)
    elif k == "return":
        uses.add(0)
    # drop is deliberately not a use: dropping a value does not observe it
    return uses, defs


def liveness(body):
    """Backward may-liveness of locals over the non-cleanup CFG. Returns (live_in, live_out) per block.
    Taking a reference counts as a use; drops do not."""
    n = len(body.blocks)
    gen = [set() for _ in range(n)]
    kill = [set() for _ in range(n)]
    for i, bl in enumerate(body.blocks):
        g, k = set(), set()
        items = [stmt_uses_defs(s) for s in bl["stmts"]] + [term_uses_defs(bl["term"])]
        for uses, defs in reversed(items):
            g -= defs
            k |= defs
            g |= uses
        gen[i], kill[i] = g, k
    live_in = [set() for _ in range(n)]
    live_out = [set() for _ in range(n)]
    changed = True
    while changed:
        changed = False
        for i in reversed(range(n)):
            if body.blocks[i]["cleanup"]:
                continue
            out = set()
            for s in body.succs(i):
                out |= live_in[s]
            inn = gen[i] | (out - kill[i])
            if out != live_out[i] or inn != live_in[i]:
                live_out[i], live_in[i] = out, inn
                changed = True
    return live_in, live_out
