"""Loop-automaton / transducer extraction (A4 driver).

The designated input iterator's `next()` is a cut point. Between two cut points the code sees one
*letter* of a finite alphabet supplied by the rule (a character known only by its class). The abstract
environment at a cut point — concrete enum/bool state, abstract characters named by (age, class),
indices named by age — is the automaton state; running from a state under each letter (or END) to the
next cut point or to `return` gives the transition, together with the observable actions recorded on
the way (pushes, pops). The reachable states form a DFA / sequential transducer that is exact for
*all* strings, because the code's behaviour depends on a character only through the oracles that the
letter determines (anything else is an AnalysisError)."""
import collections

from . import interp as ip
from .interp import AnalysisError, Adt, Clo, I, Opq, Outcome, Ref, Str, Sym, Top, Tup
from .worlds import OracleWorld

END = "<end>"
MAX_AGE = 3


def ch(age, cls, ty="char"):
    return Sym(("ch", age, cls), ty)


def is_ch(v):
    return isinstance(v, Sym) and isinstance(v.name, tuple) and len(v.name) == 3 and v.name[0] == "ch"


def is_idx(v):
    return isinstance(v, Sym) and isinstance(v.name, tuple) and len(v.name) == 2 and v.name[0] in ("idx", "boff")


def map_value(v, f):
    """Apply f to every Sym inside a value."""
    if isinstance(v, Sym):
        return f(v)
    if isinstance(v, Adt):
        return Adt(v.ty, v.variant, tuple(map_value(x, f) for x in v.fields))
    if isinstance(v, Tup):
        return Tup(tuple(map_value(x, f) for x in v.fields))
    if isinstance(v, Clo):
        return Clo(v.defpath, tuple(map_value(x, f) for x in v.captures))
    if isinstance(v, Ref) and v.loc[0] in ("val", "valp"):
        return Ref((v.loc[0], map_value(v.loc[1], f)) + tuple(v.loc[2:]))
    if isinstance(v, Opq):
        return Opq(v.kind, tuple(map_value(x, f) if isinstance(x, (Sym, Adt, Tup, Opq, Ref, Clo)) else x for x in v.data) if isinstance(v.data, tuple) else v.data)
    return v


def age_sym(s):
    n = s.name
    if isinstance(n, tuple) and n and n[0] == "ch" and len(n) == 3:
        return Sym(("ch", min(n[1] + 1, MAX_AGE), n[2]), s.ty)
    if isinstance(n, tuple) and n and n[0] in ("idx", "boff") and len(n) == 2:
        return Sym((n[0], min(n[1] + 1, MAX_AGE)), s.ty)
    if isinstance(n, tuple) and n and n[0] == "lin" and isinstance(n[1], tuple) and n[1] and n[1][0] in ("idx", "boff"):
        return Sym(("lin", (n[1][0], min(n[1][1] + 1, MAX_AGE)), n[2]), s.ty)
    return s


def age_state(st):
    for fr in st.frames:
        for l in list(fr.locals):
            fr.locals[l] = map_value(fr.locals[l], age_sym)
    for k in list(st.heap):
        st.heap[k] = map_value(st.heap[k], age_sym)
    for k in list(st.ext):
        if k.startswith("v:"):
            st.ext[k] = map_value(st.ext[k], age_sym)


def _refs_in(v, out):
    if isinstance(v, Ref):
        if v.loc[0] == "frame":
            out.add((v.loc[1], v.loc[2]))
        elif v.loc[0] in ("val", "valp"):
            _refs_in(v.loc[1], out)
    elif isinstance(v, (Adt, Tup)):
        for x in v.fields:
            _refs_in(x, out)
    elif isinstance(v, Clo):
        for x in v.captures:
            _refs_in(x, out)
    elif isinstance(v, Opq) and isinstance(v.data, tuple):
        for x in v.data:
            _refs_in(x, out)


def _live_sets(body):
    ls = getattr(body, "_live", None)
    if ls is None:
        from . import mir

        ls = body._live = mir.liveness(body)
    return ls


def live_locals(st):
    """Per frame uid: locals whose value can still be observed (liveness at the suspension point, closed
    under references held by live values)."""
    from . import mir

    live = {}
    for i, fr in enumerate(st.frames):
        live_in, live_out = _live_sets(fr.body)
        t = fr.body.blocks[fr.bb]["term"]
        if i == len(st.frames) - 1:
            uses, defs = mir.term_uses_defs(t)
            cur = (set(live_out[fr.bb]) - defs) | uses
        else:
            # a caller frame waiting for its callee: what is live when the call returns
            cur = set(live_in[t["target"]]) - ({t["dest"]["l"]} if not t["dest"]["p"] else set()) if t.get("target") is not None else set()
        live[fr.uid] = cur
    changed = True
    by_uid = {fr.uid: fr for fr in st.frames}
    while changed:
        changed = False
        for fr in st.frames:
            for l in list(live[fr.uid]):
                if l in fr.locals:
                    refs = set()
                    _refs_in(fr.locals[l], refs)
                    for uid, ll in refs:
                        if uid in live and ll not in live[uid]:
                            live[uid].add(ll)
                            changed = True
    return live


def canon(st):
    """Hashable description of a suspended state (dead locals do not distinguish states)."""
    live = live_locals(st)
    frames = []
    for fr in st.frames:
        items = tuple(sorted((l, v) for l, v in fr.locals.items() if l in live[fr.uid]))
        frames.append((fr.body.key, fr.bb, fr.si, items))
    heap = tuple(sorted(st.heap.items(), key=repr))
    ext = tuple(sorted(((k, v) for k, v in st.ext.items() if k.startswith("v:")), key=repr))
    return (tuple(frames), heap, ext)


class CutWorld(OracleWorld):
    """World with a designated input string whose character iterator is the cut point."""

    def __init__(self, prog, input_tag, oracles=None, uf=None, with_index=True):
        OracleWorld.__init__(self, prog, oracles, uf)
        self.input_tag = input_tag
        self.with_index = with_index

    # letters are delivered through st.ext["letter"]
    def _deliver(self, m, st, itref, enumerate_):
        it = m.load(st, itref.loc) if isinstance(itref, Ref) else itref
        inner = it
        idx_kind = "idx"
        if isinstance(inner, Opq) and inner.kind == "enumerate":
            inner = inner.data[0]
        elif isinstance(inner, Opq) and inner.kind == "char_indices":
            idx_kind = "boff"
        if not (isinstance(inner, Opq) and inner.kind in ("chars", "char_indices") and isinstance(inner.data[0], Str) and inner.data[0].tag == self.input_tag):
            raise AnalysisError("iteration over something other than the designated input: %r" % (inner,))
        letter = st.ext.get("letter")
        if letter is None:
            return Outcome("suspend", None, st, "next")
        st.ext["letter"] = None
        if letter == END:
            st.ext["v:ended"] = True
            return ip.none()
        if st.ext.get("v:ended"):
            raise AnalysisError("next() after the iterator returned None")
        age_state(st)
        c = ch(0, letter)
        if enumerate_ or idx_kind == "boff":
            return ip.some(Tup((Sym((idx_kind, 0), "usize"), c)))
        return ip.some(c)

    def chars_next(self, m, st, itref):
        return self._deliver(m, st, itref, False)

    def enumerate_next(self, m, st, itref):
        return self._deliver(m, st, itref, True)

    def char_indices_next(self, m, st, itref):
        return self._deliver(m, st, itref, True)

    def cast_hook(self, st, v, from_ty, to_ty):
        if is_ch(v) and to_ty == "u32":
            return Sym(v.name, "u32")
        return None

    def collection_contains(self, m, st, coll, item):
        # membership of a character in a collection built from earlier characters: not a function of the
        # current letter — both answers are possible (the extraction then reports the non-determinism)
        n = st.ext.get("v:contains", 0) + 1
        ans = st.choose(("contains?", n), [True, False])
        return ip.boolean(ans)


class Nondeterministic(AnalysisError):
    """A step has several outcomes although the letter is fixed: the code depends on something the
    alphabet does not describe (numeric positions, other characters, ...)."""


Transition = collections.namedtuple("Transition", "letter events target result")


class Automaton:
    def __init__(self):
        self.states = {}  # canon -> id
        self.repr_state = {}  # id -> State (suspended)
        self.delta = {}  # (id, letter) -> Transition
        self.initial = None  # list of Transition-like from the start (before any letter)
        self.pre = []

    def nstates(self):
        return len(self.states)


def extract(prog, world, body_key, args, alphabet, result_of=None, max_states=5000):
    """Explore the loop automaton of `body_key`. result_of(outcome) -> hashable result description."""
    m = ip.Machine(prog, world)
    aut = Automaton()
    result_of = result_of or (lambda o: o.value)

    def settle(outs, where):
        """Exactly one outcome expected (the code is deterministic once the letter is fixed)."""
        live = [o for o in outs if o.kind != "closed"]
        if len(live) != 1:
            raise Nondeterministic("%s: %d outcomes: the step depends on something the letter does not determine (decisions: %s)" % (where, len(live), sorted({repr(k) for o in live for k, v in o.state.log})[:3]))
        return live[0]

    st0 = m.start(body_key, args)
    st0.ext["letter"] = None
    o = settle(m.run(st0), "start")
    work = []

    def intern(o):
        key = canon(o.state)
        if key not in aut.states:
            if len(aut.states) >= max_states:
                raise AnalysisError("more than %d automaton states" % max_states)
            aut.states[key] = len(aut.states)
            aut.repr_state[aut.states[key]] = o.state
            work.append(aut.states[key])
        return aut.states[key]

    if o.kind == "suspend":
        aut.initial = Transition(None, tuple(o.state.events), intern(o), None)
    elif o.kind == "return":
        aut.initial = Transition(None, tuple(o.state.events), None, result_of(o))
    else:
        raise AnalysisError("start: %s %s" % (o.kind, o.info))
    while work:
        q = work.pop()
        base = aut.repr_state[q]
        for a in list(alphabet) + [END]:
            s = base.clone()
            s.ext["letter"] = a
            s.events = []
            s.log = []
            s.steps = 0
            o = settle(m.run(s), "state %d letter %s" % (q, a))
            if o.kind == "suspend":
                aut.delta[(q, a)] = Transition(a, tuple(o.state.events), intern(o), None)
            elif o.kind == "return":
                aut.delta[(q, a)] = Transition(a, tuple(o.state.events), None, result_of(o))
            elif o.kind == "panic":
                aut.delta[(q, a)] = Transition(a, tuple(o.state.events), None, ("panic", o.info))
            else:
                raise AnalysisError("state %d letter %s: %s %s" % (q, a, o.kind, o.info))
    return aut


def run_word(aut, word):
    """Follow a word (without END) then END; returns (events, result)."""
    t = aut.initial
    evs = list(t.events)
    if t.target is None:
        return evs, t.result
    q = t.target
    for a in list(word) + [END]:
        t = aut.delta[(q, a)]
        evs += list(t.events)
        if t.target is None:
            return evs, t.result
        q = t.target
    return evs, ("no-return-after-end",)
