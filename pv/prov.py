"""A3 — provenance: where does a value come from? Intraprocedural def-use tracing over exported MIR.

`origin(body, local)` follows copies, moves, reborrows and pointer casts backwards to a root:
  ('arg', n, projs) | ('static', path, projs) | ('call', callee_dict, bb, projs) | ('const', operand, projs)
  | ('agg', rvalue, projs) | ('op', rvalue, projs) | ('multi', local, projs) | ('undef', local, projs)
`projs` is the list of projections applied on the way (outermost last), with derefs/refs dropped
(reborrow chains `&(*x)` are identities for provenance)."""
import collections


class Defs:
    def __init__(self, body):
        self.body = body
        self.defs = collections.defaultdict(list)  # local -> [(kind, bb, idx, payload)]
        for bi, bl in enumerate(body.blocks):
            if bl["cleanup"]:
                continue
            for si, st in enumerate(bl["stmts"]):
                if st["k"] == "assign":
                    p = st["place"]
                    self.defs[p["l"]].append(("assign", bi, si, st, bool(p["p"])))
            t = bl["term"]
            if t["k"] == "call":
                p = t["dest"]
                self.defs[p["l"]].append(("call", bi, None, t, bool(p["p"])))

    def whole_defs(self, l):
        return [d for d in self.defs.get(l, []) if not d[4]]


def _clean(projs):
    return [p for p in projs if p["k"] not in ("deref",)]


def origin(body, local, defs=None, projs=None, depth=0, seen=None):
    defs = defs or Defs(body)
    projs = list(projs or [])
    seen = seen or set()
    if local in seen or depth > 60:
        return ("multi", local, _clean(projs))
    seen = seen | {local}
    if 1 <= local <= body.arg_count:
        # an argument that is never reassigned as a whole (writes through it / to its fields do not rebind it)
        if not defs.whole_defs(local):
            return ("arg", local, _clean(projs))
    ds = defs.defs.get(local, [])
    whole = [d for d in ds if not d[4]]
    if len(ds) == 0:
        return ("undef", local, _clean(projs))
    if len(ds) != 1 or len(whole) != 1:
        return ("multi", local, _clean(projs))
    kind, bi, si, payload, _ = whole[0]
    if kind == "call":
        return ("call", payload["callee"], bi, _clean(projs), payload)
    rv = payload["rv"]
    k = rv["k"]
    if k == "use" or (k == "cast" and rv["kind"] != "IntToInt"):
        o = rv["op"]
        if o["k"] in ("copy", "move"):
            pl = o["place"]
            return origin(body, pl["l"], defs, pl["p"] + projs, depth + 1, seen)
        if o["k"] == "static_ref":
            return ("static", o["static"], _clean(projs))
        return ("const", o, _clean(projs))
    if k == "ref" or k == "raw_ptr":
        pl = rv["place"]
        return origin(body, pl["l"], defs, pl["p"] + projs, depth + 1, seen)
    if k == "aggregate":
        # projecting a field out of a freshly built aggregate
        cp = _clean(projs)
        if cp and cp[0]["k"] == "field" and rv["agg"] in ("tuple", "adt", "closure") and cp[0]["i"] < len(rv["ops"]):
            o = rv["ops"][cp[0]["i"]]
            if o["k"] in ("copy", "move"):
                pl = o["place"]
                return origin(body, pl["l"], defs, pl["p"] + cp[1:], depth + 1, seen)
            if o["k"] == "static_ref":
                return ("static", o["static"], cp[1:])
            return ("const", o, cp[1:])
        return ("agg", rv, cp)
    return ("op", rv, _clean(projs), payload)


def operand_origin(body, o, defs=None):
    if o["k"] in ("copy", "move"):
        pl = o["place"]
        return origin(body, pl["l"], defs, pl["p"])
    if o["k"] == "static_ref":
        return ("static", o["static"], [])
    return ("const", o, [])


def fields_of(projs):
    return [p["i"] for p in projs if p["k"] == "field"]


def describe(org):
    k = org[0]
    if k == "arg":
        return "arg%d%s" % (org[1], "".join(".%d" % i for i in fields_of(org[2])))
    if k == "static":
        return "static %s%s" % (org[1], "".join(".%d" % i for i in fields_of(org[2])))
    if k == "call":
        c = org[1]
        return "result of %s" % (c["full"] if c else "<indirect call>")
    if k == "const":
        o = org[1]
        return "const %s" % (o.get("v", o.get("ty")))
    return "%s(%s)" % (k, org[1] if not isinstance(org[1], dict) else org[1].get("k"))
