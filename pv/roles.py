"""Role resolution — the rules name the crate's *private* helpers by path (`precis_profiles::common::
case_mapping_rule`, `precis_core::common::is_letter_digit`, …). Those paths are not part of any interface:
renaming or moving a helper is a behaviour-preserving edit and must not raise an alarm. So before any
rule runs, every helper the rules name is located by its *role*, which is anchored in things that cannot
be renamed without changing the public interface or the generated data:

  * the single workspace function a public trait method (`<Profile as Rules>::<rule>`) delegates to;
  * a function's signature together with the place it is called from (`&str -> Option<usize>` under the
    Nickname mapping is the scan that finds the first space to fix);
  * for the table predicates of precis-core: the set of generated table statics the function consults
    (`is_letter_digit` is the `u32 -> bool` that reads exactly the seven general-category tables);
  * for a generated table static: its name (a string in build.rs) — the module that include!s the generated file
    may change.

When the canonical path is missing and exactly one function fills the role, the facts are rewritten so
that the function carries its canonical path (Program(...).renamed records canonical -> actual, and every
evidence file lists it). A role that nobody or more than one function fills is left alone: the rule
that needs it then fails closed ("function not found") exactly as before. Resolution never looks at a
function's body beyond its direct calls and static references, so it cannot make a wrong body look right:
whatever function is given the canonical name is then checked against the full obligations of that role.
"""
import json
import re

PP = "precis_profiles::"
PC = "precis_core::"
RULES = "precis_core::profile::Rules"
UCM = PP + "usernames::UsernameCaseMapped"
NICK = PP + "nicknames::Nickname"
OPAQUE = PP + "passwords::OpaqueString"
IDC = PC + "stringclasses::IdentifierClass"
SC = PC + "stringclasses::StringClass"


def _method(ty, trait, name):
    return "<%s as %s>::%s" % (ty, trait, name)


def _statics_in(x, out):
    if isinstance(x, dict):
        s = x.get("static")
        if isinstance(s, str):
            out.add(s)
        for v in x.values():
            _statics_in(v, out)
    elif isinstance(x, list):
        for v in x:
            _statics_in(v, out)


class _View:
    def __init__(self, prog):
        self.prog = prog
        self._st = {}
        self.static_alias = {}

    def fn(self, key):
        return self.prog.fns.get(key)

    def family(self, key):
        """The body and its closures / promoteds."""
        return [b for k, b in self.prog.bodies.items() if not b.ext and (k == key or k.startswith(key + "::{closure") or k.startswith(key + "::promoted["))]

    def callees(self, key, deep=False):
        """Workspace functions (free functions with a body, not closures) called or reified by `key` and its
        closures, in order of first appearance; `deep` follows them transitively inside the same crate."""
        out, seen, work = [], {key}, [key]
        while work:
            k = work.pop(0)
            for b in self.family(k):
                for kind, tgt, _t, _bb in self.prog.call_edges(b):
                    if kind not in ("call", "fnptr") or tgt in seen:
                        continue
                    tb = self.prog.bodies.get(tgt)
                    if tb is None or tb.ext or tb.kind != "fn" or "{closure" in tgt:
                        continue
                    seen.add(tgt)
                    out.append(tgt)
                    if deep:
                        work.append(tgt)
        return out

    def statics(self, key):
        if key not in self._st:
            s = set()
            for b in self.family(key):
                _statics_in(b.blocks, s)
            self._st[key] = {self.static_alias.get(x, x) for x in s}
        return self._st[key]

    def sig(self, key, inputs, output):
        f = self.fn(key)
        if f is None or f.get("trait_of"):
            return False
        ins = [re.sub(r"&'[a-z_0-9]+ ", "&", i) for i in f["inputs"]]
        out = re.sub(r"&'[a-z_0-9]+ ", "&", f["output"])
        return ins == list(inputs) and (out == output if isinstance(output, str) else bool(output(out)))


def discover(prog):
    """canonical path -> actual path, for every canonical helper that is missing and whose role is filled by
    exactly one function. Also returns the list of (canonical, reason) that could not be resolved."""
    v = _View(prog)
    found, unresolved = {}, []
    taken = set()

    # --- generated table statics: the name (a string in build.rs) is the anchor; the module that include!s the
    # generated file is not
    try:
        from spec import tables_spec as ts

        table_paths = list(ts.TABLES) + [ts.C + "EXCEPTIONS", ts.C + "BACKWARD_COMPATIBLE"]
    except Exception:  # pragma: no cover
        table_paths = []
    for canon in table_paths:
        if canon in prog.statics:
            continue
        crate, last = canon.split("::", 1)[0], canon.rsplit("::", 1)[1]
        cands = [k for k, s_ in prog.statics.items() if s_.get("crate") == crate and k.rsplit("::", 1)[1] == last and k not in table_paths]
        if len(cands) == 1:
            found[canon] = cands[0]
            v.static_alias[cands[0]] = canon
        else:
            unresolved.append((canon, "table static: %d statics of %s are called %s" % (len(cands), crate, last)))

    def have(canon):
        return canon in prog.bodies and not prog.bodies[canon].ext

    def actual(canon):
        return canon if have(canon) else found.get(canon)

    def settle(canon, cands, why):
        if have(canon):
            return
        cands = [c for c in dict.fromkeys(cands) if c not in taken and not _is_canonical(c)]
        if len(cands) == 1:
            found[canon] = cands[0]
            taken.add(cands[0])
        else:
            unresolved.append((canon, "%s: %d candidates %s" % (why, len(cands), cands[:4])))

    def delegate(canon, ty, rule, crate):
        m = _method(ty, RULES, rule)
        if m not in prog.bodies:
            if not have(canon):
                unresolved.append((canon, "%s not found" % m))
            return
        settle(canon, [c for c in v.callees(m) if c.startswith(crate)], "the function %s delegates to" % m)

    # --- precis-profiles: what the public rule methods delegate to
    delegate(PP + "common::case_mapping_rule", UCM, "case_mapping_rule", PP)
    delegate(PP + "usernames::width_mapping_rule", UCM, "width_mapping_rule", PP)
    delegate(PP + "usernames::directionality_rule", UCM, "directionality_rule", PP)
    delegate(PP + "common::normalization_form_nfc", UCM, "normalization_rule", PP)
    delegate(PP + "common::normalization_form_nfkc", NICK, "normalization_rule", PP)
    delegate(PP + "nicknames::trim_spaces", NICK, "additional_mapping_rule", PP)

    def under(canon_parent, canon, inputs, output, deep=False, why=None):
        p = actual(canon_parent)
        if p is None:
            if not have(canon):
                unresolved.append((canon, "its caller %s is not resolved" % canon_parent))
            return
        settle(canon, [c for c in v.callees(p, deep) if v.sig(c, inputs, output)], why or "the %s -> %s called from %s" % (",".join(inputs), output, p))

    under(PP + "nicknames::trim_spaces", PP + "nicknames::find_disallowed_space", ["&str"], "core::option::Option<usize>")
    under(PP + "usernames::width_mapping_rule", PP + "usernames::get_decomposition_mapping", ["u32"], "core::option::Option<u32>", deep=True)
    # the bidi rule: directionality_rule asks has_rtl first and satisfy_bidi_rule second
    d = actual(PP + "usernames::directionality_rule")
    if d is not None:
        two = [c for c in v.callees(d) if v.sig(c, ["&str"], "bool")]
        want = [PP + "bidi::has_rtl", PP + "bidi::satisfy_bidi_rule"]
        missing = [w for w in want if not have(w)]
        if missing:
            if len(two) == 2 and len(missing) == 2:
                settle(want[0], [two[0]], "the first &str -> bool asked by %s" % d)
                settle(want[1], [two[1]], "the second &str -> bool asked by %s" % d)
            elif len(two) == 2 and len(missing) == 1:
                settle(missing[0], [c for c in two if c not in want], "the other &str -> bool asked by %s" % d)
            else:
                for w in missing:
                    unresolved.append((w, "%s asks %d &str -> bool functions" % (d, len(two))))
    bc_out = PP + "bidi::BidiClass"
    under(PP + "bidi::satisfy_bidi_rule", PP + "bidi::bidi_class", ["char"], bc_out, deep=True)
    under(PP + "bidi::bidi_class", PP + "bidi::bidi_class_cp", ["u32"], bc_out, deep=True)
    under(PP + "nicknames::find_disallowed_space", PP + "common::is_space_separator", ["char"], "bool", deep=True)
    m = _method(OPAQUE, RULES, "additional_mapping_rule")
    if m in prog.bodies:
        settle(PP + "common::is_non_ascii_space", [c for c in v.callees(m) if v.sig(c, ["char"], "bool") and c != actual(PP + "common::is_space_separator")], "the char -> bool asked by %s" % m)

    # --- precis-core: the decision function and the table predicates
    gdpv = PC + "stringclasses::get_derived_property_value"
    m = _method(IDC, SC, "get_value_from_codepoint")
    if m in prog.bodies:
        settle(gdpv, [c for c in v.callees(m) if c.startswith(PC)], "the function %s delegates to" % m)
    try:
        from spec import precis_spec as ps

        preds = ps.PREDICATES
    except Exception:  # pragma: no cover
        preds = {}
    core_fns = [b.id for b in prog.by_crate.get("precis_core", []) if b.kind == "fn" and b.promoted is None and "{closure" not in b.id]

    def tabs(names):
        return {PC + "common::" + n for n in names}

    for name, f in preds.items():
        canon = PC + "common::" + name
        if have(canon):
            continue
        want = tabs(f[1] if f[0] == "or" else [f[1], f[2]])
        settle(canon, [c for c in core_fns if v.sig(c, ["u32"], "bool") and v.statics(c) == want], "the u32 -> bool that consults exactly %s" % sorted(x.rsplit("::", 1)[1] for x in want))
    for name, tab in (("get_exception_val", "EXCEPTIONS"), ("get_backward_compatible_val", "BACKWARD_COMPATIBLE")):
        canon = PC + "common::" + name
        if not have(canon):
            settle(canon, [c for c in core_fns if v.sig(c, ["u32"], lambda o: o.startswith("core::option::Option<")) and v.statics(c) == tabs([tab])], "the u32 -> Option that consults exactly %s" % tab)
    g = actual(gdpv)
    if g is not None and not have(PC + "common::has_compat"):
        settle(PC + "common::has_compat", [c for c in v.callees(g) if v.sig(c, ["u32"], "bool") and not v.statics(c) and not any(v.statics(x) for x in v.callees(c, True))], "the table-free u32 -> bool asked by %s" % g)
    if not have(PC + "common::is_in_table"):
        users = [actual(PC + "common::" + n) for n in preds]
        cands = []
        for u in users:
            if u:
                cands += [c for c in v.callees(u) if v.sig(c, ["u32", "&[precis_core::Codepoints]"], "bool")]
        settle(PC + "common::is_in_table", cands, "the (u32, &[Codepoints]) -> bool the table predicates share")
    # --- precis-tools: private helpers that are the only function of their crate with their signature
    for canon, ins, out in SIGNATURE_ROLES:
        if have(canon):
            continue
        crate = canon.split("::", 1)[0]
        cands = [k for k, f in prog.fns.items() if f.get("crate") == crate and f.get("has_body") and not k.startswith("<") and v.sig(k, ins, out) and k in prog.bodies]
        settle(canon, cands, "the only %s -> %s of %s" % (",".join(ins), out, crate))
    return found, unresolved


_E = "precis_tools::error::Error"
_CPS = "ucd_parse::common::Codepoints"
SIGNATURE_ROLES = [
    ("precis_tools::common::get_codepoints_vector", ["&std::collections::hash::set::HashSet<u32>"], "alloc::vec::Vec<%s>" % _CPS),
    ("precis_tools::generators::bidi_class::BidiClassGen::compress_into_ranges", ["&mut precis_tools::generators::bidi_class::BidiClassGen"], "()"),
    ("precis_tools::file_writer::generate_code_from_vec", ["&mut std::fs::File", "&str", "&[%s]" % _CPS], "core::result::Result<(), %s>" % _E),
    ("precis_tools::csv_parser::parse_precis_table_line", ["&str"], "core::result::Result<(%s, precis_tools::csv_parser::DerivedProperties, &str), %s>" % (_CPS, _E)),
    ("precis_tools::csv_parser::parse_codepoints", ["&str"], "core::result::Result<%s, %s>" % (_CPS, _E)),
    ("precis_tools::csv_parser::parse_codepoint_range", ["&str"], "core::result::Result<ucd_parse::common::CodepointRange, %s>" % _E),
    ("precis_tools::csv_parser::parse_derived_properties", ["&str"], "core::result::Result<precis_tools::csv_parser::DerivedProperties, %s>" % _E),
    ("precis_tools::csv_parser::parse_derived_property_tuple", ["&str"], "core::result::Result<(precis_tools::csv_parser::DerivedProperty, precis_tools::csv_parser::DerivedProperty), %s>" % _E),
]

_CANON = None


def _is_canonical(path):
    """A path some rule names: such a function is never given another role."""
    global _CANON
    if _CANON is None:
        try:
            from spec import precis_spec as ps

            preds = list(ps.PREDICATES)
        except Exception:  # pragma: no cover
            preds = []
        _CANON = {PC + "common::" + n for n in preds + ["get_exception_val", "get_backward_compatible_val", "has_compat", "is_in_table"]}
        _CANON |= {PP + x for x in ("common::case_mapping_rule", "usernames::width_mapping_rule", "usernames::directionality_rule", "common::normalization_form_nfc", "common::normalization_form_nfkc", "nicknames::trim_spaces", "nicknames::find_disallowed_space", "usernames::get_decomposition_mapping", "bidi::has_rtl", "bidi::satisfy_bidi_rule", "bidi::bidi_class", "bidi::bidi_class_cp", "common::is_space_separator", "common::is_non_ascii_space")}
        _CANON.add(PC + "stringclasses::get_derived_property_value")
        _CANON |= {c for c, _i, _o in SIGNATURE_ROLES}
    return path in _CANON


def rewrite(crates, found):
    """Rewrite the facts so that each resolved function carries its canonical path (its closures, promoteds,
    fn-item types and call sites follow)."""
    if not found:
        return crates
    pairs = sorted(((a, c) for c, a in found.items()), key=lambda p: -len(p[0]))
    rx = re.compile("(?<![A-Za-z0-9_])(" + "|".join(re.escape(a) for a, _ in pairs) + ")(?![A-Za-z0-9_])")
    m = dict(pairs)
    out = {}
    for name, data in crates.items():
        f = data.get("_file")
        txt = json.dumps(data)
        if not rx.search(txt):
            out[name] = data
            continue
        nd = json.loads(rx.sub(lambda mo: m[mo.group(1)], txt))
        if f is not None:
            nd["_file"] = f
        out[name] = nd
    return out
