"""Synthetic MIR for std's internal-iteration entry points.

`String::extend(iter)`, `iter.collect::<String>()`, `iter.for_each(f)` are loops whose std bodies go
through fold/try_fold specialisations that are not plain MIR. Their *meaning* is a three-block loop
around `Iterator::next`; this module writes that loop as MIR in the exporter's JSON vocabulary, so every
world sees an ordinary loop (cut points, widening, termination and panic rules apply unchanged).
The bodies are flagged `ext` (they are not workspace code) and `synthetic`."""
from .mir import Body

SPAN = {"file": "<synthetic>", "line": 0, "col": 0, "end_line": 0, "exp": True}
OPT_VARIANTS = [[0, 0, "None"], [1, 1, "Some"]]


def P(l, *proj):
    return {"l": l, "p": list(proj)}


def cp(l, *proj):
    return {"k": "copy", "place": P(l, *proj)}


def mv(l, *proj):
    return {"k": "move", "place": P(l, *proj)}


def assign(l, rv):
    return {"k": "assign", "place": P(l), "rv": rv, "span": SPAN}


def use(op):
    return {"k": "use", "op": op}


def ref(l, mut=True):
    return {"k": "ref", "mut": mut, "place": P(l)}


def unit():
    return {"k": "aggregate", "agg": "tuple", "ops": []}


def tup(*ops):
    return {"k": "aggregate", "agg": "tuple", "ops": list(ops)}


def callee(path, name=None, crate="core"):
    return {"path": path, "full": path, "orig": path, "orig_full": path, "local": False, "crate": crate, "resolved": True, "virtual": False, "inst": "item", "trait": None, "self_ty": None, "args": [], "orig_args": [], "name": name or path.rsplit("::", 1)[1]}


def call(path, args, dest, target):
    return {"k": "call", "func": {"k": "fn_item"}, "callee": callee(path), "fn_ty": "synthetic", "args": list(args), "dest": P(dest), "target": target, "unwind": None, "span": SPAN}


def goto(bb):
    return {"k": "goto", "target": bb}


def block(stmts, term):
    return {"stmts": list(stmts), "term": term, "cleanup": False}


def some_payload(l, ty):
    return cp(l, {"k": "downcast", "v": 1, "name": "Some"}, {"k": "field", "i": 0, "ty": ty})


def body(name, arg_count, local_tys, blocks):
    locs = [{"ty": t, "name": None, "mut": True} for t in local_tys]
    return Body("std", {"id": name, "ext": True, "synthetic": True, "kind": "fn", "promoted": None, "def_kind": "Fn", "span": SPAN, "vis": "pub", "exported": False, "unsafe": False, "unsafe_blocks": 0, "arg_count": arg_count, "impl_trait": None, "impl_self": None, "trait_of": None, "parent": None, "in_test": False, "locals": locs, "upvars": [], "blocks": blocks})


NEXT = "core::iter::traits::iterator::Iterator::next"


def each_loop(name, item_ty, consume, ret_init=None, ret_ty="()"):
    """fn name(_1: X, _2: I) { let it = &mut _2; loop { match it.next() { None => return, Some(x) => consume(_1, x) } } }
    `consume(item_local, unit_local, next_bb)` gives the terminator of the body block."""
    # locals: 0 ret, 1 first arg, 2 iterator, 3 &mut iterator, 4 Option<item>, 5 discr, 6 item, 7 unit, 8 arg tuple
    tys = [ret_ty, "?", "I", "&mut I", "core::option::Option<%s>" % item_ty, "isize", item_ty, "()", "(%s,)" % item_ty]
    blocks = [
        block([assign(3, ref(2))], goto(1)),
        block([], call(NEXT, [cp(3)], 4, 2)),
        block([assign(5, {"k": "discriminant", "place": P(4), "ty": tys[4], "variants": OPT_VARIANTS})], {"k": "switch", "discr": mv(5), "ty": "isize", "targets": [[0, 5], [1, 3]], "otherwise": 6, "span": SPAN}),
        block([assign(6, use(some_payload(4, item_ty)))], consume(6, 7, 4)),
        block([], goto(1)),
        block([assign(0, ret_init or unit())], {"k": "return"}),
        block([], {"k": "unreachable"}),
    ]
    return body(name, 2, tys, blocks)


def build():
    out = {}
    # <String as Extend<char>>::extend(&mut String, I)
    b = each_loop("pv::synth::string_extend_chars", "char", lambda item, u, nxt: call("alloc::string::String::push", [cp(1), mv(item)], u, nxt))
    out[b.key] = b
    # Iterator::for_each(I, F)  — note the argument order (iterator first): handled by the model
    b = each_loop("pv::synth::for_each", "T", lambda item, u, nxt: {"k": "call", "func": {"k": "fn_item"}, "callee": callee("core::ops::function::FnMut::call_mut"), "fn_ty": "synthetic", "args": [{"k": "copy", "place": P(9)}, mv(8)], "dest": P(u), "target": nxt, "unwind": None, "span": SPAN})
    # for_each needs `&mut f` and the argument tuple: patch block 0 / block 3
    b.locals.append({"ty": "&mut F", "name": None, "mut": True})  # _9
    b.blocks[0]["stmts"].append(assign(9, ref(1)))
    b.blocks[3]["stmts"].append(assign(8, tup(mv(6))))
    out[b.key] = b
    # <String as FromIterator<char>>::from_iter(I) / Iterator::collect::<String>(I)
    tys = ["alloc::string::String", "I", "&mut alloc::string::String", "()"]
    blocks = [
        block([], call("alloc::string::String::new", [], 0, 1)),
        block([assign(2, ref(0))], call("<alloc::string::String as core::iter::traits::collect::Extend<char>>::extend", [mv(2), mv(1)], 3, 2)),
        block([], {"k": "return"}),
    ]
    b = body("pv::synth::string_from_chars", 1, tys, blocks)
    out[b.key] = b
    # <Result<String, E> as FromIterator<Result<char, E>>>::from_iter(I): push every Ok(c), stop at the first Err
    # locals: 0 ret Result<String,E>, 1 iterator, 2 &mut iterator, 3 Option<Result<char,E>>, 4 discr, 5 Result<char,E>,
    #         6 discr, 7 String, 8 &mut String, 9 char, 10 unit, 11 E
    RES = "core::result::Result"
    tys = ["%s<alloc::string::String, E>" % RES, "I", "&mut I", "core::option::Option<%s<char, E>>" % RES, "isize", "%s<char, E>" % RES, "isize", "alloc::string::String", "&mut alloc::string::String", "char", "()", "E"]
    res_variants = [[0, 0, "Ok"], [1, 1, "Err"]]
    blocks = [
        block([assign(2, ref(1))], call("alloc::string::String::new", [], 7, 1)),
        block([], call(NEXT, [cp(2)], 3, 2)),
        block([assign(4, {"k": "discriminant", "place": P(3), "ty": tys[3], "variants": OPT_VARIANTS})], {"k": "switch", "discr": mv(4), "ty": "isize", "targets": [[0, 7], [1, 3]], "otherwise": 9, "span": SPAN}),
        block([assign(5, use(some_payload(3, tys[5]))), assign(6, {"k": "discriminant", "place": P(5), "ty": tys[5], "variants": res_variants})], {"k": "switch", "discr": mv(6), "ty": "isize", "targets": [[0, 4], [1, 6]], "otherwise": 9, "span": SPAN}),
        block([assign(9, use(cp(5, {"k": "downcast", "v": 0, "name": "Ok"}, {"k": "field", "i": 0, "ty": "char"}))), assign(8, ref(7))], call("alloc::string::String::push", [mv(8), mv(9)], 10, 5)),
        block([], goto(1)),
        block([assign(11, use(mv(5, {"k": "downcast", "v": 1, "name": "Err"}, {"k": "field", "i": 0, "ty": "E"}))), assign(0, {"k": "aggregate", "agg": "adt", "adt": RES, "adt_full": tys[0], "variant": 1, "variant_name": "Err", "discr": 1, "is_enum": True, "active_field": None, "ops": [mv(11)]})], {"k": "return"}),
        block([assign(0, {"k": "aggregate", "agg": "adt", "adt": RES, "adt_full": tys[0], "variant": 0, "variant_name": "Ok", "discr": 0, "is_enum": True, "active_field": None, "ops": [mv(7)]})], {"k": "return"}),
        block([], {"k": "unreachable"}),
        block([], {"k": "unreachable"}),
    ]
    b = body("pv::synth::result_string_from_results", 1, tys, blocks)
    out[b.key] = b
    # String::extend(&mut String, inner.flat_map(f)):  for x in inner { String::extend(s, f(x)) }
    # locals: 0 ret, 1 &mut String, 2 inner iterator, 3 f, 4 &mut inner, 5 Option<T>, 6 discr, 7 item, 8 unit, 9 (T,), 10 &mut F, 11 U
    EXT = "<alloc::string::String as core::iter::traits::collect::Extend<char>>::extend"
    tys = ["()", "&mut alloc::string::String", "I", "F", "&mut I", "core::option::Option<T>", "isize", "T", "()", "(T,)", "&mut F", "U"]
    blocks = [
        block([assign(4, ref(2)), assign(10, ref(3))], goto(1)),
        block([], call(NEXT, [cp(4)], 5, 2)),
        block([assign(6, {"k": "discriminant", "place": P(5), "ty": tys[5], "variants": OPT_VARIANTS})], {"k": "switch", "discr": mv(6), "ty": "isize", "targets": [[0, 6], [1, 3]], "otherwise": 7, "span": SPAN}),
        block([assign(7, use(some_payload(5, "T"))), assign(9, tup(mv(7)))], call("core::ops::function::FnMut::call_mut", [cp(10), mv(9)], 11, 4)),
        block([], call(EXT, [cp(1), mv(11)], 8, 5)),
        block([], goto(1)),
        block([assign(0, unit())], {"k": "return"}),
        block([], {"k": "unreachable"}),
    ]
    b = body("pv::synth::string_extend_flat_map", 3, tys, blocks)
    out[b.key] = b
    # str::replace(pred, to) continued from a buffer:  for c in chars { if pred(c) { buf.push_str(to) } else { buf.push(c) } } buf
    # locals: 0 ret, 1 buf, 2 chars, 3 pred, 4 to, 5 &mut chars, 6 Option<char>, 7 discr, 8 char, 9 (char,), 10 &mut pred, 11 bool, 12 unit, 13 &mut buf
    S = "alloc::string::String"
    tys = [S, S, "I", "F", "&str", "&mut I", "core::option::Option<char>", "isize", "char", "(char,)", "&mut F", "bool", "()", "&mut " + S]
    blocks = [
        block([assign(5, ref(2)), assign(10, ref(3)), assign(13, ref(1))], goto(1)),
        block([], call(NEXT, [cp(5)], 6, 2)),
        block([assign(7, {"k": "discriminant", "place": P(6), "ty": tys[6], "variants": OPT_VARIANTS})], {"k": "switch", "discr": mv(7), "ty": "isize", "targets": [[0, 7], [1, 3]], "otherwise": 8, "span": SPAN}),
        block([assign(8, use(some_payload(6, "char"))), assign(9, tup(cp(8)))], call("core::ops::function::FnMut::call_mut", [cp(10), mv(9)], 11, 4)),
        block([], {"k": "switch", "discr": mv(11), "ty": "bool", "targets": [[0, 5]], "otherwise": 6, "span": SPAN}),
        block([], call("alloc::string::String::push", [cp(13), cp(8)], 12, 1)),
        block([], call("alloc::string::String::push_str", [cp(13), cp(4)], 12, 1)),
        block([assign(0, use(mv(1)))], {"k": "return"}),
        block([], {"k": "unreachable"}),
    ]
    b = body("pv::synth::str_replace_pred", 4, tys, blocks)
    out[b.key] = b
    # push_str(&mut String, run) for a lazily read run of a split:  while pv::fsplit::step(buf, run) {}
    tys = ["()", "&mut alloc::string::String", "Run", "bool"]
    blocks = [
        block([], goto(1)),
        block([], call("pv::fsplit::step", [cp(1), cp(2)], 3, 2)),
        block([], {"k": "switch", "discr": mv(3), "ty": "bool", "targets": [[0, 3]], "otherwise": 1, "span": SPAN}),
        block([assign(0, unit())], {"k": "return"}),
    ]
    b = body("pv::synth::push_run", 2, tys, blocks)
    out[b.key] = b
    # Filter::next(&mut inner, &mut pred):  loop { match inner.next() { None => return None, Some(x) => if pred(&x) { return Some(x) } } }
    # locals: 0 ret Option<T>, 1 &mut I, 2 &mut P, 3 Option<T>, 4 discr, 5 T, 6 &T, 7 (&T,), 8 bool
    tys = ["core::option::Option<T>", "&mut I", "&mut P", "core::option::Option<T>", "isize", "T", "&T", "(&T,)", "bool"]
    OPT = "core::option::Option"
    blocks = [
        block([], goto(1)),
        block([], call(NEXT, [cp(1)], 3, 2)),
        block([assign(4, {"k": "discriminant", "place": P(3), "ty": tys[3], "variants": OPT_VARIANTS})], {"k": "switch", "discr": mv(4), "ty": "isize", "targets": [[0, 5], [1, 3]], "otherwise": 7, "span": SPAN}),
        block([assign(5, use(some_payload(3, "T"))), assign(6, {"k": "ref", "mut": False, "place": P(5)}), assign(7, tup(cp(6)))], call("core::ops::function::FnMut::call_mut", [cp(2), mv(7)], 8, 4)),
        block([], {"k": "switch", "discr": mv(8), "ty": "bool", "targets": [[0, 1]], "otherwise": 6, "span": SPAN}),
        block([assign(0, {"k": "aggregate", "agg": "adt", "adt": OPT, "adt_full": tys[0], "variant": 0, "variant_name": "None", "discr": 0, "is_enum": True, "active_field": None, "ops": []})], {"k": "return"}),
        block([assign(0, {"k": "aggregate", "agg": "adt", "adt": OPT, "adt_full": tys[0], "variant": 1, "variant_name": "Some", "discr": 1, "is_enum": True, "active_field": None, "ops": [mv(5)]})], {"k": "return"}),
        block([], {"k": "unreachable"}),
    ]
    b = body("pv::synth::filter_next", 2, tys, blocks)
    out[b.key] = b
    # SkipWhile::next(&mut inner, &mut pred, &mut done):
    #   loop { let x = inner.next()?; if *done { return Some(x) } if pred(&x) { continue } *done = true; return Some(x) }
    # locals: 0 ret, 1 &mut I, 2 &mut P, 3 &mut bool, 4 Option<T>, 5 discr, 6 T, 7 &T, 8 (&T,), 9 bool, 10 bool
    tys = ["core::option::Option<T>", "&mut I", "&mut P", "&mut bool", "core::option::Option<T>", "isize", "T", "&T", "(&T,)", "bool", "bool"]
    DEREF3 = {"l": 3, "p": [{"k": "deref"}]}
    blocks = [
        block([], goto(1)),
        block([], call(NEXT, [cp(1)], 4, 2)),
        block([assign(5, {"k": "discriminant", "place": P(4), "ty": tys[4], "variants": OPT_VARIANTS})], {"k": "switch", "discr": mv(5), "ty": "isize", "targets": [[0, 7], [1, 3]], "otherwise": 9, "span": SPAN}),
        block([assign(6, use(some_payload(4, "T"))), assign(10, use({"k": "copy", "place": DEREF3}))], {"k": "switch", "discr": mv(10), "ty": "bool", "targets": [[0, 4]], "otherwise": 6, "span": SPAN}),
        block([assign(7, {"k": "ref", "mut": False, "place": P(6)}), assign(8, tup(cp(7)))], call("core::ops::function::FnMut::call_mut", [cp(2), mv(8)], 9, 5)),
        block([], {"k": "switch", "discr": mv(9), "ty": "bool", "targets": [[0, 8]], "otherwise": 1, "span": SPAN}),
        block([assign(0, {"k": "aggregate", "agg": "adt", "adt": OPT, "adt_full": tys[0], "variant": 1, "variant_name": "Some", "discr": 1, "is_enum": True, "active_field": None, "ops": [mv(6)]})], {"k": "return"}),
        block([assign(0, {"k": "aggregate", "agg": "adt", "adt": OPT, "adt_full": tys[0], "variant": 0, "variant_name": "None", "discr": 0, "is_enum": True, "active_field": None, "ops": []})], {"k": "return"}),
        block([{"k": "assign", "place": DEREF3, "rv": use({"k": "int", "v": 1, "ty": "bool"}), "span": SPAN}], goto(6)),
        block([], {"k": "unreachable"}),
    ]
    b = body("pv::synth::skip_while_next", 3, tys, blocks)
    out[b.key] = b
    return out
