"""A4 — finite-domain, path-sensitive abstract interpreter of the exported MIR.

Nothing here executes compiled code. The interpreter evaluates MIR transfer functions over abstract
values: concrete scalars and enum variants are kept exact; everything else is an *atom* (`Sym`) about
which the only knowledge is a set of recorded facts (finite attribute answers, interval partitions of
integers). Whenever a branch needs an answer that the facts do not determine, the current path is split
(`Fork`) — one successor per possible answer — so the set of explored paths covers every concrete
execution. Calls are inlined when the callee is a workspace body, answered by an explicit model
(`models.py`) when it is a std item, answered by the rule's oracle when the rule designates it as a
leaf, and are an `AnalysisError` otherwise (fail closed: silence must mean "decided")."""
import collections

I = collections.namedtuple("I", "v ty")  # concrete scalar (int / bool / char)
Sym = collections.namedtuple("Sym", "name ty")  # atom; knowledge lives in State.facts
Adt = collections.namedtuple("Adt", "ty variant fields")  # enum / struct value
Tup = collections.namedtuple("Tup", "fields")
Ref = collections.namedtuple("Ref", "loc")  # loc: ('frame', uid, local, path) | ('static', path) | ('heap', id) | ('val', value)
Fn = collections.namedtuple("Fn", "path full")
Clo = collections.namedtuple("Clo", "defpath captures")
Str = collections.namedtuple("Str", "tag")  # abstract string content: str / String / Cow<str> alike
Opq = collections.namedtuple("Opq", "kind data")  # opaque model object (iterator, range, ...)
Top = collections.namedtuple("Top", "ty")
UNIT = Tup(())

OPTION = "core::option::Option"
RESULT = "core::result::Result"
ORDERING = "core::cmp::Ordering"
CONTROLFLOW = "core::ops::control_flow::ControlFlow"


def none():
    return Adt(OPTION, 0, ())


def some(v):
    return Adt(OPTION, 1, (v,))


def ok(v):
    return Adt(RESULT, 0, (v,))


def err(v):
    return Adt(RESULT, 1, (v,))


def boolean(b):
    return I(1 if b else 0, "bool")


def ordering(c):  # c in -1,0,1
    return Adt(ORDERING, c + 1, ())


INT_BITS = {"u8": 8, "u16": 16, "u32": 32, "u64": 64, "u128": 128, "usize": 64, "i8": 8, "i16": 16, "i32": 32, "i64": 64, "i128": 128, "isize": 64, "char": 32, "bool": 1}


def is_signed(ty):
    return ty.startswith("i")


def int_range(ty):
    if ty == "char":
        return (0, 0x10FFFF)
    b = INT_BITS.get(ty, 64)
    if is_signed(ty):
        return (-(1 << (b - 1)), (1 << (b - 1)) - 1)
    return (0, (1 << b) - 1)


class AnalysisError(Exception):
    """The analysis met a construct it has no model for. Checks turn this into a failed obligation."""


class Fork(Exception):
    def __init__(self, key, options):
        Exception.__init__(self, "fork %r" % (key,))
        self.key = key
        self.options = options


class Infeasible(Exception):
    """The current path contradicts its own facts (dropped silently)."""


class Frame:
    __slots__ = ("body", "locals", "bb", "si", "uid", "dest", "target", "note", "post")

    def __init__(self, body, uid, dest=None, target=None):
        self.body = body
        self.locals = {}
        self.bb = 0
        self.si = 0
        self.uid = uid
        self.dest = dest
        self.target = target
        self.note = None
        self.post = None  # continuation applied to the return value (models of map/map_err/...)

    def clone(self):
        f = Frame(self.body, self.uid, self.dest, self.target)
        f.locals = dict(self.locals)
        f.bb = self.bb
        f.si = self.si
        f.note = self.note
        f.post = self.post
        return f


class State:
    def __init__(self):
        self.frames = []
        self.facts = {}
        self.log = []  # ordered decisions (key, value)
        self.events = []  # observable actions recorded by models / oracles
        self.heap = {}
        self.nuid = 0
        self.ext = {}  # analysis-specific data (copied shallowly)
        self.steps = 0
        self.consulted = set()  # decision keys looked up (answered from facts or freshly decided)

    def clone(self):
        s = State()
        s.frames = [f.clone() for f in self.frames]
        s.facts = dict(self.facts)
        s.log = list(self.log)
        s.events = list(self.events)
        s.heap = dict(self.heap)
        s.nuid = self.nuid
        s.ext = dict(self.ext)
        s.steps = self.steps
        s.consulted = set(self.consulted)
        return s

    def choose(self, key, options):
        """Return the decided answer for `key`, or split the path."""
        self.consulted.add(key)
        if key in self.facts:
            return self.facts[key]
        if len(options) == 1:
            self.facts[key] = options[0]
            return options[0]
        raise Fork(key, list(options))

    def set_fact(self, key, val):
        self.facts[key] = val
        self.log.append((key, val))

    def fresh(self):
        self.nuid += 1
        return self.nuid

    def frame(self, uid):
        for f in self.frames:
            if f.uid == uid:
                return f
        raise AnalysisError("dangling reference to frame %r" % uid)

    def emit(self, ev):
        self.events.append(ev)


Outcome = collections.namedtuple("Outcome", "kind value state info")  # kind: return | panic | suspend | diverge


# ---------------------------------------------------------------------------------- interval facts
def rng_get(st, sym):
    r = st.facts.get(("rng", sym.name))
    if r is None:
        lo, hi = int_range(sym.ty)
        return ((lo, hi),)
    return r


def _rng_split(r, op, c):
    """Split interval list r by predicate (x op c): returns (true_part, false_part)."""
    t, f = [], []
    for lo, hi in r:
        if op == "Eq":
            if lo <= c <= hi:
                t.append((c, c))
                if lo < c:
                    f.append((lo, c - 1))
                if c < hi:
                    f.append((c + 1, hi))
            else:
                f.append((lo, hi))
        elif op == "Lt":  # x < c
            if hi < c:
                t.append((lo, hi))
            elif lo >= c:
                f.append((lo, hi))
            else:
                t.append((lo, c - 1))
                f.append((c, hi))
        elif op == "Le":
            if hi <= c:
                t.append((lo, hi))
            elif lo > c:
                f.append((lo, hi))
            else:
                t.append((lo, c))
                f.append((c + 1, hi))
        else:
            raise AnalysisError("rng_split op %s" % op)
    return tuple(sorted(t)), tuple(sorted(f))


def decide_cmp_const(st, op, sym, c):
    """Decide (sym op c) for an integer atom against a constant, splitting the path if needed."""
    r = rng_get(st, sym)
    neg = False
    if op == "Ne":
        op, neg = "Eq", True
    elif op == "Gt":  # x > c  == not (x <= c)
        op, neg = "Le", True
    elif op == "Ge":  # x >= c == not (x < c)
        op, neg = "Lt", True
    t, f = _rng_split(r, op, c)
    if not t:
        res = False
    elif not f:
        res = True
    else:
        key = ("cmp", sym.name, op, c)
        res = st.choose(key, [True, False])
        # refine (idempotent: re-executed after the fork)
        st.facts[("rng", sym.name)] = t if res else f
    return res != neg


FLIP = {"Lt": "Gt", "Gt": "Lt", "Le": "Ge", "Ge": "Le", "Eq": "Eq", "Ne": "Ne"}


def lin_parts(v):
    """A Sym whose name is ('lin', base, k) denotes base + k."""
    if isinstance(v, Sym) and isinstance(v.name, tuple) and len(v.name) == 3 and v.name[0] == "lin":
        return v.name[1], v.name[2]
    if isinstance(v, Sym):
        return v.name, 0
    return None, None


def mk_lin(base, k, ty):
    if k == 0:
        return Sym(base, ty)
    return Sym(("lin", base, k), ty)


def discr_allowed(st, name):
    """Discriminant values an enum atom may still have (see Machine.rvalue 'discriminant')."""
    return st.facts.get(("dset", name)) or tuple(d for _, d in st.facts[("dmap", name)])


CMP = {"Eq": lambda x, y: x == y, "Ne": lambda x, y: x != y, "Lt": lambda x, y: x < y, "Le": lambda x, y: x <= y, "Gt": lambda x, y: x > y, "Ge": lambda x, y: x >= y}


def compare(st, op, a, b, world=None):
    """Abstract comparison of two scalar values; returns a python bool (may Fork)."""
    if isinstance(a, I) and isinstance(b, I):
        x, y = a.v, b.v
        return {"Eq": x == y, "Ne": x != y, "Lt": x < y, "Le": x <= y, "Gt": x > y, "Ge": x >= y}[op]
    if isinstance(a, Sym) and isinstance(b, I) and isinstance(a.name, tuple) and a.name and a.name[0] == "discr" and ("dmap", a.name[1]) in st.facts:
        allowed = discr_allowed(st, a.name[1])
        yes = tuple(x for x in allowed if CMP[op](x, b.v))
        no = tuple(x for x in allowed if not CMP[op](x, b.v))
        if not yes or not no:
            return bool(yes)
        ans = st.choose(("dcmp", a.name[1], allowed, op, b.v), [True, False])
        st.facts[("dset", a.name[1])] = yes if ans else no
        return ans
    if isinstance(a, Sym) and isinstance(b, I):
        base, k = lin_parts(a)
        if world is not None:
            r = world.compare_hook(st, op, a, b)
            if r is not None:
                return r
        return decide_cmp_const(st, op, Sym(base, a.ty), b.v - k)
    if isinstance(a, I) and isinstance(b, Sym):
        return compare(st, FLIP[op], b, a, world)
    if isinstance(a, Sym) and isinstance(b, Sym):
        ba, ka = lin_parts(a)
        bb_, kb = lin_parts(b)
        if ba == bb_:
            return compare(st, op, I(ka, a.ty), I(kb, b.ty))
        if world is not None:
            r = world.compare_hook(st, op, a, b)
            if r is not None:
                return r
        # order oracle between two atoms, memoised on the ordered pair
        if repr(ba) > repr(bb_):
            return compare(st, FLIP[op], b, a, world)
        c = st.choose(("ord", a.name, b.name), [-1, 0, 1])
        return {"Eq": c == 0, "Ne": c != 0, "Lt": c < 0, "Le": c <= 0, "Gt": c > 0, "Ge": c >= 0}[op]
    if isinstance(a, Adt) and isinstance(b, Adt) and not a.fields and not b.fields and op in ("Eq", "Ne"):
        return (a.variant == b.variant) == (op == "Eq")
    raise AnalysisError("compare %s of %r and %r" % (op, a, b))


# ---------------------------------------------------------------------------------- the machine
class World:
    """Per-analysis policy. Subclasses designate oracles (leaf calls), alphabets and cut points."""

    max_steps = 200000
    inline_depth = 40

    def __init__(self, prog):
        self.prog = prog

    def call(self, m, st, callee, args, term):
        """Return a Value to answer the call, INLINE to force inlining, or None for default handling."""
        return None

    def indirect_call(self, m, st, fval, args, term):
        raise AnalysisError("indirect call through %r" % (fval,))

    def compare_hook(self, st, op, a, b):
        return None

    def on_assert(self, m, st, term, cond):
        """A symbolic assert condition. Default: assume it passes and record it (C01 owns asserts)."""
        st.emit(("assumed-assert", term["msg"]))
        return True

    def enum_variants(self, ty):
        from . import types as _types

        sv = _types.synthetic_variants(ty)
        if sv is not None:
            return sv
        a = self.prog.adts.get(ty.split("<")[0])
        if a is None:
            raise AnalysisError("no variant list for enum type %s" % ty)
        return a["variants"]

    def fresh_field(self, st, sym, variant, i, ty):
        from . import types as _types

        return _types.fresh(self.prog, ty, ("field", sym.name, variant, i), getattr(self, "opaque_types", ()))

    # ---- loops: "unroll" (default: concrete loops) or "widen" (havoc what changes, close the path on subsumption)
    def loop_policy(self, body, head):
        return "unroll"

    def check_invariant(self, m, st, fr, local, assumed, arriving):
        return None

    def widen(self, m, st, fr, local, old, new, n):
        from . import types as _types

        return _types.fresh(self.prog, fr.body.locals[local]["ty"], ("w", fr.uid, local, n), getattr(self, "opaque_types", ()))

    def cast_hook(self, st, v, from_ty, to_ty):
        return None

    def binop_hook(self, st, op, a, b):
        return None

    # ---- hooks with fail-closed defaults (an analysis overrides what its abstraction justifies)
    def _no(self, what):
        raise AnalysisError("%s: no model in %s" % (what, type(self).__name__))

    def static_value(self, st, path):
        return Opq("static", (path,))

    def static_array(self, m, st, path):
        """Elements of a workspace static array whose initialiser is straight-line (constants, fn items)."""
        cache = self.__dict__.setdefault("_static_arrays", {})
        if path in cache:
            return cache[path]
        b = self.prog.body(path)
        val = None
        if b is not None and not b.ext and len(b.blocks) <= 64 and sum(len(bl["stmts"]) for bl in b.blocks) <= 400:
            sub = State()
            sub.nuid = 50_000
            fr = Frame(b, sub.fresh())
            sub.frames.append(fr)
            try:
                outs = m.run(sub, keep_frames=True)
                if len(outs) == 1 and outs[0].kind == "return" and isinstance(outs[0].value, Opq) and outs[0].value.kind == "array":
                    val = outs[0].value
            except AnalysisError:
                val = None
        cache[path] = val
        return val

    def unevaluated_const(self, st, c):
        self._no("unevaluated constant %s" % c.get("repr"))

    def opaque_field(self, st, v, step):
        self._no("field %r of opaque %r" % (step, v))

    def str_eq(self, st, a, b):
        self._no("string equality")

    def new_buf(self, st, content):
        self._no("String::from")

    def buf_content(self, st, buf):
        self._no("content of a String buffer")

    def str_len(self, st, s):
        return Top("usize")

    def str_is_empty(self, st, s):
        self._no("str::is_empty")

    def buf_push(self, m, st, bufref, ch):
        self._no("String::push")

    def buf_pop(self, m, st, bufref):
        self._no("String::pop")

    def chars_next(self, m, st, itref):
        self._no("Chars::next")

    def enumerate_next(self, m, st, itref):
        self._no("Enumerate::next")

    def char_indices_next(self, m, st, itref):
        self._no("CharIndices::next")

    def iter_nth(self, m, st, itref, n):
        self._no("Iterator::nth")

    def str_find(self, m, st, s, pred):
        self._no("str::find")

    def str_slice(self, m, st, s, rng, callee):
        self._no("str slicing")

    def char_from_u32(self, m, st, v):
        self._no("char::from_u32")


INLINE = object()


class Machine:
    def __init__(self, prog, world, models=None):
        self.prog = prog
        self.world = world
        from . import models as _models

        self.models = dict(_models.MODELS)
        if models:
            self.models.update(models)
        self.stats = collections.Counter()

    # ------------------------------------------------------------ exported std bodies
    STD = ("core", "alloc", "std")
    STD_PREFIX = ("core::", "alloc::", "std::", "<core::", "<alloc::", "<std::", "<I as core::", "<T as core::", "<T as alloc::", "<&", "<F as core::")
    DISPATCH = {"next", "call", "call_mut", "call_once", "branch", "from_residual", "from_output", "into_iter", "into", "from", "as_ref", "deref", "clone", "eq", "ne", "lt", "le", "gt", "ge", "cmp", "partial_cmp", "next_back", "size_hint", "extend", "push", "default"}

    def is_std_body(self, body):
        return body is not None and (body.crate not in ("precis_core", "precis_profiles", "precis_tools", "pv_positive") and not body.crate.startswith("build_script")) or (body is not None and not body.id.startswith(("precis_", "<precis_", "pv_positive", "<pv_positive")) and body.d.get("span", {}).get("file", "").startswith("/") and "/library/" in body.d["span"]["file"])

    def default_method_body(self, callee):
        """The provided (default) body of a trait method, exported from std: used when the call is not
        resolved (generic receiver) or when the resolved override is not plain MIR — overrides of provided
        iterator/option methods are behaviourally equivalent to the default by the trait's contract."""
        tr = callee.get("trait")
        if not tr:
            return None
        b = self.prog.bodies.get("%s::%s" % (tr, callee["name"]))
        if b is not None and b.ext:
            return b
        return None

    def ext_simple(self, key, depth=0, stack=()):
        """May an exported std body be interpreted instead of modelled? Only plain MIR: no raw pointers,
        transmutes, intrinsics or inline asm, and every callee is modelled, dispatched on a trait the
        machine dispatches itself, or simple in turn."""
        memo = self.__dict__.setdefault("_ext_simple", {})
        if key in memo:
            return memo[key]
        if key in stack:
            return True
        b = self.prog.bodies.get(key)
        if b is None or depth > 8:
            return False
        from . import models as _models

        ok = True
        for bl in b.blocks:
            if bl["cleanup"]:
                continue
            for st in bl["stmts"]:
                if st["k"] in ("intrinsic", "other"):
                    ok = False
                elif st["k"] == "assign":
                    rv = st["rv"]
                    k = rv["k"]
                    if k in ("raw_ptr", "other_rvalue", "thread_local_ref", "repeat"):
                        ok = False
                    elif k == "cast" and (rv["kind"] in ("Transmute", "PtrToPtr", "FnPtrToPtr") or "Expose" in rv["kind"]):
                        ok = False
                    elif k == "binop" and rv["op"] == "Offset":
                        ok = False
            t = bl["term"]
            if t["k"] == "other":
                ok = False
            elif t["k"] == "call":
                c = t["callee"]
                if c is None:
                    continue  # call through a fn pointer / closure value: dispatched at run time
                p = c["path"]
                if p in self.models or _models.pattern_model(c["full"]) or _models.pattern_model(p):
                    continue
                if (not c["resolved"] or c.get("virtual")) and c["name"] in self.DISPATCH:
                    continue
                dflt = self.default_method_body(c)
                if dflt is not None and dflt.key != key and self.ext_simple(dflt.key, depth + 1, stack + (key,)):
                    continue
                if p.startswith("core::intrinsics::") or p.startswith("core::ub_checks") or "precondition_check" in p:
                    ok = False
                elif p in self.prog.bodies:
                    if not self.ext_simple(p, depth + 1, stack + (key,)):
                        ok = False
                else:
                    ok = False
            if not ok:
                break
        memo[key] = ok
        return ok

    # ------------------------------------------------------------ state construction
    def start(self, body_key, args, st=None):
        body = self.prog.body(body_key)
        if body is None:
            raise AnalysisError("no body %s" % body_key)
        st = st or State()
        fr = Frame(body, st.fresh())
        for i, a in enumerate(args):
            fr.locals[i + 1] = a
        st.frames.append(fr)
        return st

    # ------------------------------------------------------------ places
    def _resolve(self, st, fr, place):
        """Resolve a place to (kind, base, path): kind 'frame' → (frame, local), path = tuple of field idx."""
        loc = ("frame", fr.uid, place["l"], ())
        for e in place["p"]:
            k = e["k"]
            if k == "deref":
                v = self.load(st, loc)
                if isinstance(v, Ref):
                    loc = v.loc
                elif isinstance(v, Str):
                    # &str / &String / Box<str> content values are their own referent
                    loc = ("val", v)
                elif isinstance(v, (Opq, Top, Sym, Clo, Adt, Tup, Fn)):
                    loc = ("val", v)
                else:
                    raise AnalysisError("deref of %r in %s" % (v, fr.body.id))
            elif k == "field":
                loc = self._sub(loc, e["i"])
            elif k == "downcast":
                loc = self._sub(loc, ("as", e["v"]))
            elif k == "index":
                idx = fr.locals.get(e["l"])
                loc = self._sub(loc, ("idx", idx))
            elif k == "const_index":
                loc = self._sub(loc, ("idx", I(e["offset"], "usize")))
            else:
                raise AnalysisError("projection %s in %s" % (k, fr.body.id))
        return loc

    @staticmethod
    def _sub(loc, step):
        if loc[0] == "frame":
            return ("frame", loc[1], loc[2], loc[3] + (step,))
        if loc[0] == "static":
            return ("static", loc[1], loc[2] + (step,))
        if loc[0] == "heap":
            return ("heap", loc[1], loc[2] + (step,))
        if loc[0] == "val":
            return ("valp", loc[1], (step,))
        if loc[0] == "valp":
            return ("valp", loc[1], loc[2] + (step,))
        raise AnalysisError("sub of %r" % (loc,))

    def _project(self, st, v, path):
        for step in path:
            if isinstance(step, tuple) and step[0] == "as":
                if isinstance(v, Str):
                    continue
                if isinstance(v, Sym):
                    v = self.concretize(st, v)
                if isinstance(v, Adt) and v.variant != step[1]:
                    raise AnalysisError("downcast of %r to variant %r" % (v, step[1]))
                continue
            if isinstance(step, tuple) and step[0] == "idx":
                v = self.world_index(st, v, step[1])
                continue
            if isinstance(step, tuple) and step[0] == "opq":
                if not (isinstance(v, Opq) and isinstance(v.data, tuple)):
                    raise AnalysisError("component %r of %r" % (step, v))
                v = v.data[step[1]]
                continue
            if isinstance(v, Sym):
                v = self.concretize(st, v)
            if isinstance(v, Str) and step == 0:
                continue  # payload of Cow::Borrowed / Cow::Owned: the same content
            if isinstance(v, (Adt, Tup)):
                if step >= len(v.fields):
                    if isinstance(v, Adt) and not v.fields and step == 0:
                        v = UNIT  # zero-sized payload of a constant enum value
                        continue
                    raise AnalysisError("field %r of %r" % (step, v))
                v = v.fields[step]
            elif isinstance(v, Clo):
                v = v.captures[step]
            elif isinstance(v, Top):
                v = Top("?")
            elif isinstance(v, Opq):
                v = self.world.opaque_field(st, v, step)
            else:
                raise AnalysisError("field %r of %r" % (step, v))
        return v

    def world_index(self, st, v, idx):
        h = getattr(self.world, "index_hook", None)
        if h is not None:
            return h(st, v, idx)
        raise AnalysisError("indexing %r[%r]" % (v, idx))

    def load(self, st, loc):
        k = loc[0]
        if k == "frame":
            fr = st.frame(loc[1])
            if loc[2] not in fr.locals:
                raise AnalysisError("read of uninitialised local _%d in %s" % (loc[2], fr.body.id))
            return self._project(st, fr.locals[loc[2]], loc[3])
        if k == "heap":
            return self._project(st, st.heap[loc[1]], loc[2])
        if k == "static":
            return self._project(st, self.world.static_value(st, loc[1]), loc[2])
        if k == "val":
            return loc[1]
        if k == "valp":
            return self._project(st, loc[1], loc[2])
        raise AnalysisError("load %r" % (loc,))

    def _update(self, st, v, path, new):
        if not path:
            return new
        step = path[0]
        if isinstance(step, tuple) and step[0] == "as":
            return self._update(st, v, path[1:], new)
        if isinstance(step, tuple) and step[0] == "opq":
            if not (isinstance(v, Opq) and isinstance(v.data, tuple)):
                raise AnalysisError("component update %r of %r" % (step, v))
            d = list(v.data)
            d[step[1]] = self._update(st, d[step[1]], path[1:], new)
            return Opq(v.kind, tuple(d))
        if isinstance(v, Sym):
            v = self.concretize(st, v)
        if isinstance(v, Adt):
            fs = list(v.fields)
            while len(fs) <= step:
                fs.append(Top("?"))
            fs[step] = self._update(st, fs[step], path[1:], new)
            return Adt(v.ty, v.variant, tuple(fs))
        if isinstance(v, Tup):
            fs = list(v.fields)
            fs[step] = self._update(st, fs[step], path[1:], new)
            return Tup(tuple(fs))
        if isinstance(v, Clo):
            fs = list(v.captures)
            fs[step] = self._update(st, fs[step], path[1:], new)
            return Clo(v.defpath, tuple(fs))
        if isinstance(v, (Opq, Top)):
            # a write into an opaque (external) value: the value stays unconstrained
            return v
        raise AnalysisError("field update %r of %r" % (step, v))

    def store(self, st, loc, val):
        k = loc[0]
        if k == "frame":
            fr = st.frame(loc[1])
            if loc[3]:
                old = fr.locals.get(loc[2], Top("?"))
                fr.locals[loc[2]] = self._update(st, old, loc[3], val)
            else:
                fr.locals[loc[2]] = val
        elif k == "heap":
            st.heap[loc[1]] = self._update(st, st.heap[loc[1]], loc[2], val)
        elif k in ("val", "valp"):
            raise AnalysisError("store through a value reference %r" % (loc,))
        else:
            raise AnalysisError("store to %r" % (loc,))

    def read_place(self, st, fr, place):
        if not place["p"]:
            if place["l"] not in fr.locals:
                raise AnalysisError("read of uninitialised local _%d (%s) in %s" % (place["l"], fr.body.local_name(place["l"]), fr.body.id))
            return fr.locals[place["l"]]
        return self.load(st, self._resolve(st, fr, place))

    def write_place(self, st, fr, place, val):
        if not place["p"]:
            fr.locals[place["l"]] = val
        else:
            self.store(st, self._resolve(st, fr, place), val)

    # ------------------------------------------------------------ symbolic enums
    def concretize(self, st, v):
        """Turn an atom of (fieldless) enum type into a concrete variant, splitting the path."""
        if not isinstance(v, Sym):
            return v
        variants = self.world.enum_variants(v.ty)
        opts = [x["idx"] for x in variants]
        opts = self.world.restrict_variants(st, v, opts) if hasattr(self.world, "restrict_variants") else opts
        if ("dmap", v.name) in st.facts:
            allowed = discr_allowed(st, v.name)
            d_of = dict(st.facts[("dmap", v.name)])
            opts = [i for i in opts if d_of.get(i) in allowed]
        idx = st.choose(("val", v.name), opts)
        nf = len(variants[idx]["fields"])
        fields = tuple(self.world.fresh_field(st, v, idx, i, variants[idx]["fields"][i]["ty"]) for i in range(nf))
        return Adt(v.ty.split("<")[0], idx, fields)

    # ------------------------------------------------------------ operands / constants
    def const(self, st, fr, c):
        k = c["k"]
        if k == "int":
            if "variant" in c:
                return Adt(c["ty"].split("<")[0], c["variant"], ())
            return I(c["v"], c["ty"])
        if k == "str":
            return Str(("lit", c["v"]))
        if k == "fn":
            f = c["fn"]
            self.fninfo[f["full"]] = f
            return Fn(f["path"], f["full"])
        if k == "zst":
            return Adt(c["ty"], 0, ()) if c["ty"] != "()" else UNIT
        if k == "static_ref":
            return Ref(("static", c["static"], ()))
        if k == "promoted":
            pb = self.prog.promoted(c["owner"], c["idx"])
            if pb is None:
                raise AnalysisError("promoted %s[%d] not exported" % (c["owner"], c["idx"]))
            return self.eval_promoted(st, pb)
        if k == "adt":
            fields = tuple(self.const(st, fr, f) for f in c["fields"])
            if c["variant"] is None:
                return Tup(fields)
            return Adt(c["ty"].split("<")[0], c["variant"], fields)
        if k == "unevaluated":
            return self.world.unevaluated_const(st, c)
        h = getattr(self.world, "opaque_const", None)
        if h is not None:
            return h(st, c)
        raise AnalysisError("constant kind %s (%s)" % (k, c.get("ty")))

    fninfo = {}

    def eval_promoted(self, st, pb):
        """Promoted bodies are straight-line: evaluate in a scratch frame and box the result."""
        sub = State()
        sub.nuid = st.nuid + 1000
        fr = Frame(pb, sub.fresh())
        sub.frames.append(fr)
        outs = self.run(sub, keep_frames=True)
        if len(outs) != 1 or outs[0].kind != "return":
            raise AnalysisError("promoted body %s is not straight-line" % pb.key)
        v = outs[0].value
        # a promoted returns a reference into its own frame: re-home the referent into the heap
        if isinstance(v, Ref) and v.loc[0] == "frame":
            inner = self.load(outs[0].state, v.loc)
            hid = ("promoted", pb.key)
            st.heap[hid] = inner
            return Ref(("heap", hid, ()))
        return v

    def operand(self, st, fr, o):
        k = o["k"]
        if k in ("copy", "move"):
            return self.read_place(st, fr, o["place"])
        return self.const(st, fr, o)

    # ------------------------------------------------------------ rvalues
    def rvalue(self, st, fr, rv):
        k = rv["k"]
        if k == "use":
            return self.operand(st, fr, rv["op"])
        if k == "ref" or k == "raw_ptr":
            loc = self._resolve(st, fr, rv["place"])
            if loc[0] == "val" and isinstance(loc[1], (Str, Opq)):
                return loc[1]  # content values / opaque objects are their own referent
            return Ref(loc)
        if k == "aggregate":
            ops = tuple(self.operand(st, fr, o) for o in rv["ops"])
            agg = rv["agg"]
            if agg == "tuple":
                return Tup(ops)
            if agg == "adt":
                if rv["adt"] == "alloc::borrow::Cow" and len(ops) == 1:
                    return ops[0]  # Cow::Borrowed(x) / Cow::Owned(x): the content is what matters
                return Adt(rv["adt"], rv["variant"], ops)
            if agg == "closure":
                return Clo(rv["def"], ops)
            if agg == "array":
                return Opq("array", ops)
            raise AnalysisError("aggregate %s" % agg)
        if k == "discriminant":
            v = self.read_place(st, fr, rv["place"])
            if isinstance(v, Opq) and v.kind == "from_output":
                from . import models as _models

                v = _models.coerce_try_output(v, rv.get("ty", ""))
            if isinstance(v, Sym) and getattr(self.world, "lazy_discriminant", False) and ("val", v.name) not in st.facts and len(rv.get("variants") or ()) > 2:
                # a field-less enum of unknown variant: keep the discriminant symbolic; switches and
                # comparisons split it by outcome (not by variant) and narrow the set of possible values
                vs = self.world.enum_variants(v.ty)
                if all(not x["fields"] for x in vs):
                    st.facts.setdefault(("dmap", v.name), tuple((idx, discr) for idx, discr, _ in rv["variants"]))
                    return Sym(("discr", v.name), "isize")
            if isinstance(v, Sym):
                v = self.concretize(st, v)
            if isinstance(v, Adt):
                for idx, discr, _name in rv["variants"]:
                    if idx == v.variant:
                        return I(discr, "isize")
                if not rv["variants"]:
                    return I(0, "isize")
            h = getattr(self.world, "str_variant", None)
            if h is not None and isinstance(v, Str):
                return I(h(st, v, rv), "isize")
            if isinstance(v, Opq) and v.kind in ("uf", "fresh") and rv.get("variants"):
                # the enum-valued result of an uninterpreted function: one answer per term and path
                names = [nm for _i, _d, nm in rv["variants"]]
                ans = st.choose(("uf-variant", v.data), names)
                for _i, discr, nm in rv["variants"]:
                    if nm == ans:
                        return I(discr, "isize")
            raise AnalysisError("discriminant of %r" % (v,))
        if k == "binop":
            a = self.operand(st, fr, rv["a"])
            b = self.operand(st, fr, rv["b"])
            return self.binop(st, rv["op"], a, b)
        if k == "unop":
            a = self.operand(st, fr, rv["a"])
            return self.unop(st, rv["op"], a)
        if k == "cast":
            v = self.operand(st, fr, rv["op"])
            return self.cast(st, rv["kind"], v, rv["from_ty"], rv["ty"])
        raise AnalysisError("rvalue %s: %s" % (k, rv.get("repr")))

    def cast(self, st, kind, v, from_ty, to_ty):
        h = self.world.cast_hook(st, v, from_ty, to_ty)
        if h is not None:
            return h
        if kind == "IntToInt":
            if isinstance(v, I):
                lo, hi = int_range(to_ty)
                x = v.v
                if not (lo <= x <= hi):
                    bits = INT_BITS.get(to_ty, 64)
                    x &= (1 << bits) - 1
                    if is_signed(to_ty) and x >= (1 << (bits - 1)):
                        x -= 1 << bits
                return I(x, to_ty)
            if isinstance(v, Sym):
                flo, fhi = int_range(from_ty) if from_ty in INT_BITS else (None, None)
                tlo, thi = int_range(to_ty)
                if flo is not None and tlo <= flo and fhi <= thi:
                    return Sym(v.name, to_ty)  # value-preserving: same atom, same facts
                return Sym(("cast", v.name, to_ty), to_ty)
            if isinstance(v, Adt) and not v.fields:
                # fieldless enum as integer
                return I(v.variant, to_ty)
            if isinstance(v, Top):
                return Top(to_ty)
        if kind.startswith("PointerCoercion") or kind in ("PtrToPtr", "Transmute") or "Unsize" in kind or "ReifyFnPointer" in kind or "ClosureFnPointer" in kind:
            return v
        raise AnalysisError("cast %s of %r to %s" % (kind, v, to_ty))

    def binop(self, st, op, a, b):
        h = self.world.binop_hook(st, op, a, b)
        if h is not None:
            return h
        if op in ("Eq", "Ne", "Lt", "Le", "Gt", "Ge"):
            if isinstance(a, Top) or isinstance(b, Top):
                raise AnalysisError("comparison %s on widened value %r / %r" % (op, a, b))
            return boolean(compare(st, op, a, b, self.world))
        if op == "Cmp":
            lt = compare(st, "Lt", a, b, self.world)
            if lt:
                return ordering(-1)
            eq = compare(st, "Eq", a, b, self.world)
            return ordering(0 if eq else 1)
        base = op.replace("WithOverflow", "").replace("Unchecked", "")
        checked = op.endswith("WithOverflow")
        if isinstance(a, I) and isinstance(b, I):
            x, y = a.v, b.v
            if base == "Add":
                r = x + y
            elif base == "Sub":
                r = x - y
            elif base == "Mul":
                r = x * y
            elif base == "BitAnd":
                r = x & y
            elif base == "BitOr":
                r = x | y
            elif base == "BitXor":
                r = x ^ y
            elif base == "Shl":
                r = x << y
            elif base == "Shr":
                r = x >> y
            elif base == "Div" and y != 0:
                r = abs(x) // abs(y) * (1 if (x >= 0) == (y >= 0) else -1)
            elif base == "Rem" and y != 0:
                r = abs(x) % abs(y) * (1 if x >= 0 else -1)
            else:
                raise AnalysisError("binop %s" % op)
            lo, hi = int_range(a.ty)
            ovf = not (lo <= r <= hi)
            if ovf:
                bits = INT_BITS.get(a.ty, 64)
                r &= (1 << bits) - 1
                if is_signed(a.ty) and r >= (1 << (bits - 1)):
                    r -= 1 << bits
            if checked:
                return Tup((I(r, a.ty), boolean(ovf)))
            return I(r, a.ty)
        if base in ("Add", "Sub") and isinstance(a, Sym) and isinstance(b, I):
            bs, k = lin_parts(a)
            k2 = k + b.v if base == "Add" else k - b.v
            r = mk_lin(bs, k2, a.ty)
            if checked:
                return Tup((r, Sym(("ovf", a.name, base, b.v), "bool")))
            return r
        if base == "Sub" and isinstance(a, Sym) and isinstance(b, Sym):
            ba, ka = lin_parts(a)
            bb_, kb = lin_parts(b)
            if ba == bb_:
                r = I(ka - kb, a.ty)
                return Tup((r, boolean(ka < kb))) if checked else r
        if isinstance(a, (Sym, Top, I)) and isinstance(b, (Sym, Top, I)):
            r = self.world.arith_hook(st, op, a, b) if hasattr(self.world, "arith_hook") else None
            if r is not None:
                return r
            r = Top(a.ty if hasattr(a, "ty") else "?")
            return Tup((r, Sym(("ovf?", st.fresh()), "bool"))) if checked else r
        raise AnalysisError("binop %s on %r, %r" % (op, a, b))

    def unop(self, st, op, a):
        if op == "Not":
            if isinstance(a, I) and a.ty == "bool":
                return boolean(not a.v)
            if isinstance(a, Sym) and a.ty == "bool":
                return boolean(not self.truth(st, a))
            if isinstance(a, I):
                bits = INT_BITS.get(a.ty, 64)
                return I((~a.v) & ((1 << bits) - 1), a.ty)
        if op == "Neg" and isinstance(a, I):
            return I(-a.v, a.ty)
        if op == "PtrMetadata":
            h = getattr(self.world, "len_hook", None)
            if h is not None:
                return h(st, a)
            return Top("usize")
        raise AnalysisError("unop %s on %r" % (op, a))

    def truth(self, st, v):
        if isinstance(v, I):
            return v.v != 0
        if isinstance(v, Sym) and v.ty == "bool":
            return st.choose(("bool", v.name), [True, False])
        raise AnalysisError("truth of %r" % (v,))

    # ------------------------------------------------------------ stepping
    def run(self, st, keep_frames=False, max_paths=200000):
        """Explore all paths from `st`. Returns the list of outcomes."""
        max_paths = getattr(self, "max_paths", max_paths)
        outs = []
        work = [st]
        while work:
            s = work.pop()
            while True:
                if s.steps > self.world.max_steps:
                    outs.append(Outcome("diverge", None, s, "step budget exhausted"))
                    break
                try:
                    res = self.step(s, keep_frames)
                except Fork as f:
                    for opt in f.options:
                        c = s.clone()
                        c.set_fact(f.key, opt)
                        work.append(c)
                    self.stats["forks"] += 1
                    if len(outs) + len(work) > max_paths or len(s.log) > 4000:
                        self.last_outs = outs
                        self.last_fork = f.key
                        raise AnalysisError("path explosion (> %d pending paths, or a path with > 4000 decisions; last decision %r)" % (max_paths, f.key))
                    break
                except Infeasible:
                    break
                if res is not None:
                    outs.append(res)
                    break
                if len(outs) + len(work) > max_paths:
                    self.last_outs = outs
                    raise AnalysisError("path explosion (> %d paths)" % max_paths)
        return outs

    def step(self, st, keep_frames=False):
        st.steps += 1
        fr = st.frames[-1]
        bl = fr.body.blocks[fr.bb]
        if fr.si < len(bl["stmts"]):
            s = bl["stmts"][fr.si]
            k = s["k"]
            if k == "assign":
                v = self.rvalue(st, fr, s["rv"])
                self.write_place(st, fr, s["place"], v)
            elif k == "storage_dead":
                fr.locals.pop(s["l"], None)
            elif k == "storage_live":
                pass
            elif k == "set_discriminant":
                old = self.read_place(st, fr, s["place"])
                if isinstance(old, Adt):
                    self.write_place(st, fr, s["place"], Adt(old.ty, s["variant"], old.fields))
                else:
                    raise AnalysisError("set_discriminant on %r" % (old,))
            elif k == "intrinsic":
                pass
            else:
                raise AnalysisError("statement %s" % k)
            fr.si += 1
            return None
        t = bl["term"]
        k = t["k"]
        if k == "goto":
            return self.jump(st, fr, t["target"])
        elif k == "switch":
            d = self.operand(st, fr, t["discr"])
            return self.jump(st, fr, self.switch(st, d, t))
        elif k == "return":
            ret = fr.locals.get(0, UNIT)
            if fr.post is not None:
                ret = fr.post(self, st, ret)
            if len(st.frames) == 1 or fr.note == "probe":
                if not keep_frames:
                    st.frames.pop()
                return Outcome("return", ret, st, None)
            st.frames.pop()
            caller = st.frames[-1]
            if isinstance(ret, Opq) and ret.kind == "from_output" and not fr.dest["p"]:
                from . import models as _models

                ret = _models.coerce_try_output(ret, caller.body.locals[fr.dest["l"]]["ty"])
            self.write_place(st, caller, fr.dest, ret)
            if fr.target is None:
                raise AnalysisError("return into a diverging call site")
            return self.jump(st, caller, fr.target)
        elif k == "drop":
            return self.jump(st, fr, t["target"])
        elif k == "assert":
            c = self.operand(st, fr, t["cond"])
            h = getattr(self.world, "visit_assert", None)
            if h is not None:
                h(st, t)
            if isinstance(c, I):
                passed = (c.v != 0) == t["expected"]
            else:
                passed = self.world.on_assert(self, st, t, c)
            if passed:
                return self.jump(st, fr, t["target"])
            else:
                return Outcome("panic", None, st, "assert %s at %s:%d" % (t["msg"], t["span"]["file"], t["span"]["line"]))
        elif k == "call":
            return self.do_call(st, fr, t)
        elif k == "unreachable":
            raise Infeasible()
        else:
            raise AnalysisError("terminator %s in %s" % (k, fr.body.id))
        return None

    _MISSING = object()

    def loop_heads(self, body):
        lh = getattr(body, "_loop_heads", None)
        if lh is None:
            lh = body._loop_heads = set(body.loops().keys())
        return lh

    def jump(self, st, fr, target):
        """Transfer control inside `fr`; at a loop head under the 'widen' policy apply widening."""
        fr.bb, fr.si = target, 0
        if target not in self.loop_heads(fr.body):
            return None
        pol = self.world.loop_policy(fr.body, target)
        if pol == "custom":
            return self.world.loop_arrival(self, st, fr, target)
        if pol != "widen":
            return None
        loops = st.ext.get("loops")
        loops = dict(loops) if loops else {}
        key = (fr.uid, target)
        info = loops.get(key)
        if info is None:
            loops[key] = (dict(fr.locals), frozenset(), 0)
            st.ext["loops"] = loops
            return None
        snap, havoc, n = info
        diff = [l for l in fr.locals if l not in havoc and fr.locals[l] != snap.get(l, self._MISSING)]
        # invariants assumed for havoc'd locals must be re-established by the value arriving on the back edge
        for l in havoc:
            if l in fr.locals:
                if self.world.check_invariant(self, st, fr, l, snap.get(l), fr.locals[l]) == "rewiden":
                    # the arriving value has a shape the widened one does not cover yet: join once more
                    diff.append(l)
        if not diff:
            return Outcome("closed", None, st, "loop at bb%d of %s closed" % (target, fr.body.id))
        if n > 8:
            raise AnalysisError("loop at bb%d of %s does not stabilise under widening" % (target, fr.body.id))
        snap = dict(snap)
        for l in diff:
            w = self.world.widen(self, st, fr, l, snap.get(l, self._MISSING), fr.locals[l], n)
            fr.locals[l] = w
            snap[l] = w
        for l in list(snap):
            if l not in fr.locals:
                del snap[l]
        loops[key] = (snap, havoc | frozenset(diff), n + 1)
        st.ext["loops"] = loops
        st.emit(("widened", fr.body.id, target, tuple(sorted(diff))))
        return None

    def switch(self, st, d, t):
        if isinstance(d, I):
            for v, bb in t["targets"]:
                if v == d.v:
                    return bb
            return t["otherwise"]
        if isinstance(d, Sym) and isinstance(d.name, tuple) and d.name and d.name[0] == "discr" and ("dmap", d.name[1]) in st.facts:
            allowed = discr_allowed(st, d.name[1])
            tmap = {v: bb for v, bb in t["targets"]}
            groups = {}
            for x in allowed:
                groups.setdefault(tmap.get(x, t["otherwise"]), []).append(x)
            bbs = sorted(groups)
            bb = bbs[0] if len(bbs) == 1 else st.choose(("dsw", d.name[1], allowed, tuple(bbs)), bbs)
            st.facts[("dset", d.name[1])] = tuple(groups[bb])
            return bb
        if isinstance(d, Sym):
            if d.ty == "bool":
                b = self.truth(st, d)
                for v, bb in t["targets"]:
                    if v == (1 if b else 0):
                        return bb
                return t["otherwise"]
            for v, bb in t["targets"]:
                if compare(st, "Eq", d, I(v, d.ty), self.world):
                    return bb
            return t["otherwise"]
        raise AnalysisError("switch on %r" % (d,))

    def do_call(self, st, fr, t):
        callee = t["callee"]
        args = [self.operand(st, fr, a) for a in t["args"]]
        if callee is None:
            fval = self.operand(st, fr, t["func"])
            if isinstance(fval, Fn):
                callee = self.fninfo[fval.full]
            else:
                r = self.world.indirect_call(self, st, fval, args, t)
                return self.finish_call(st, fr, t, r)
        if (not callee["resolved"] or callee.get("virtual")) and callee.get("trait") and args:
            # a trait method called on a generic receiver from an inlined helper: the receiver's value has a
            # concrete type here, so the call is the impl's method (what monomorphisation would call)
            recv = args[0]
            depth = 0
            while isinstance(recv, Ref) and depth < 4:
                try:
                    recv = self.load(st, recv.loc)
                except AnalysisError:
                    break
                depth += 1
            if isinstance(recv, Adt) and self.prog.is_ws("<%s as %s>::%s" % (recv.ty, callee["trait"], callee["name"])):
                key = "<%s as %s>::%s" % (recv.ty, callee["trait"], callee["name"])
                callee = dict(callee, path=key, full=key, resolved=True, virtual=False, local=True)
        r = self.world.call(self, st, callee, args, t)
        if r is None:
            h = self.models.get(callee["path"])
            if h is None:
                from . import models as _models

                h = _models.pattern_model(callee["full"]) or _models.pattern_model(callee["path"])
            if h is not None:
                r = h(self, st, callee, args, t)
        if r is None or r is INLINE:
            body = self.prog.callee_body(callee)
            if callee.get("trait") == "core::iter::traits::iterator::Iterator" and callee["name"] != "next" and args and (body is None or body.ext):
                # a provided Iterator method on one of the machine's abstract iterators: run the trait's own
                # default body (a loop around next()), not the adaptor's specialised override
                from . import models as _models

                d = self.prog.bodies.get("core::iter::traits::iterator::Iterator::" + callee["name"])
                if d is not None and d.ext and (body is None or d.key != body.key) and _models._known_iter(self, st, args[0]) and self.ext_simple(d.key):
                    body = d
            if body is not None and body.ext and not self.ext_simple(body.key):
                body = None  # an exported std body that is not plain MIR: needs a model
            if body is None:
                d = self.default_method_body(callee)
                if d is not None and self.ext_simple(d.key):
                    body = d
            if body is not None:
                return self.push_frame(st, fr, t, body, args)
            c = self.ctor_of(callee["path"])
            if c is not None:
                return self.finish_call(st, fr, t, Adt(c[0], c[1], tuple(args)))
            raise AnalysisError("unmodelled call to %s (%s) at %s:%d" % (callee["full"], "resolved" if callee["resolved"] else "unresolved", t["span"]["file"], t["span"]["line"]))
        if isinstance(r, tuple) and len(r) in (3, 4) and r[0] is INLINE:
            return self.push_frame(st, fr, t, r[1], r[2], r[3] if len(r) == 4 else None)
        return self.finish_call(st, fr, t, r)

    def finish_call(self, st, fr, t, r):
        if isinstance(r, Outcome):
            return r
        if t["target"] is None:
            return Outcome("panic", None, st, "diverging call")
        self.write_place(st, fr, t["dest"], r)
        return self.jump(st, fr, t["target"])

    def push_frame(self, st, fr, t, body, args, post=None):
        if len(st.frames) > self.world.inline_depth:
            raise AnalysisError("inline depth exceeded at %s (recursion?)" % body.id)
        nf = Frame(body, st.fresh(), t["dest"], t["target"])
        nf.post = post
        if body.kind == "closure" and len(args) == 2 and isinstance(args[1], Tup) and body.arg_count != 2:
            args = [args[0]] + list(args[1].fields)
        elif body.kind == "closure" and len(args) == 2 and isinstance(args[1], Tup) and body.arg_count == 2 and len(args[1].fields) == 1:
            args = [args[0], args[1].fields[0]]
        if len(args) != body.arg_count:
            raise AnalysisError("arity mismatch calling %s: %d args for %d" % (body.id, len(args), body.arg_count))
        for i, a in enumerate(args):
            nf.locals[i + 1] = a
        st.frames.append(nf)
        return None

    def ctor_of(self, path):
        """`Enum::Variant` / tuple-struct name used as a function value: (adt path, variant index)."""
        t = getattr(self.world, "ctor_table", None)
        if t and path in t:
            return t[path]
        if "::" in path:
            parent, name = path.rsplit("::", 1)
            a = self.prog.adts.get(parent)
            if a is not None:
                for v in a["variants"]:
                    if v["name"] == name:
                        return (parent, v["idx"])
            a = self.prog.adts.get(path)
            if a is not None and a["kind"] == "Struct":
                return (path, 0)
        return None

    def call_value(self, st, fval, args, t):
        """Used by models of Fn::call & co: returns (INLINE, body, args) or a value."""
        if isinstance(fval, Ref):
            fval = self.load(st, fval.loc)
        if isinstance(fval, Clo):
            body = self.prog.body(fval.defpath)
            if body is None:
                raise AnalysisError("closure body %s not exported" % fval.defpath)
            # closure bodies take (&self | &mut self | self, args...) depending on the closure kind
            selfarg = Ref(("val", fval)) if body.locals[1]["ty"].startswith("&") else fval
            return (INLINE, body, [selfarg] + list(args))
        if isinstance(fval, Fn):
            info = self.fninfo[fval.full]
            r = self.world.call(self, st, info, list(args), t)
            if r is not None and r is not INLINE:
                return r
            h = self.models.get(info["path"])
            if h is not None:
                r = h(self, st, info, list(args), t)
                if r is not None:
                    return r
            body = self.prog.callee_body(info)
            if body is None:
                c = self.ctor_of(fval.path)
                if c is not None:
                    return Adt(c[0], c[1], tuple(args))
                raise AnalysisError("call of fn value %s: no body" % fval.full)
            return (INLINE, body, list(args))
        return self.world.indirect_call(self, st, fval, list(args), t)
