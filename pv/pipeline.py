"""Pipeline extraction (A4 + A3): which leaf rules a profile operation applies, in which order, on which
string, and what every exit returns. Leaves are oracles answering Ok(fresh content) | Err(fresh error);
the extracted set of paths is compared with the path set generated from a pipeline specification."""
from . import interp as ip
from .interp import AnalysisError, Adt, I, Opq, Ref, Str, Sym
from .models import deref_all
from .worlds import OracleWorld

P = "precis_profiles::"
ERROR = "precis_core::error::Error"

# resolved callee path -> leaf name (the rule implementations; their own semantics are C09-C12)
LEAVES = {
    P + "usernames::width_mapping_rule": "width",
    P + "usernames::directionality_rule": "dir",
    P + "common::case_mapping_rule": "case",
    P + "common::normalization_form_nfc": "nfc",
    P + "common::normalization_form_nfkc": "nfkc",
    P + "nicknames::trim_spaces": "trim",
    "<precis_profiles::passwords::OpaqueString as precis_core::profile::Rules>::additional_mapping_rule": "space-map",
}
ALLOWS = "precis_core::stringclasses::StringClass::allows"
STABILIZE = "precis_core::profile::stabilize"
from . import oncecell  # noqa: E402

LAZY_GET = oncecell.LAZY_STATIC_GET

PROFILES = {
    "UsernameCaseMapped": ("precis_profiles::usernames::UsernameCaseMapped", "precis_core::stringclasses::IdentifierClass"),
    "UsernameCasePreserved": ("precis_profiles::usernames::UsernameCasePreserved", "precis_core::stringclasses::IdentifierClass"),
    "OpaqueString": ("precis_profiles::passwords::OpaqueString", "precis_core::stringclasses::FreeformClass"),
    "Nickname": ("precis_profiles::nicknames::Nickname", "precis_core::stringclasses::FreeformClass"),
}


def profile_value(name):
    p, c = PROFILES[name]
    return Adt(p, 0, (Adt(c, 0, ()),))


class UnexpectedCall(AnalysisError):
    """The operation does something that is not a step of the specified pipeline."""


class PipeWorld(OracleWorld):
    """Leaves answer Ok(("out", n)) / Err(("err", n)); every leaf call is logged as an event."""

    max_steps = 60000

    def __init__(self, prog, extra_leaves=None, intercept=None):
        OracleWorld.__init__(self, prog)
        self.leaves = dict(LEAVES)
        if extra_leaves:
            self.leaves.update(extra_leaves)
        self.intercept = intercept or {}

    def _step(self, st):
        return st.ext.get("nsteps", 0) + 1

    def call(self, m, st, callee, args, term):
        p = callee["path"]
        if p in self.intercept:
            return self.intercept[p](self, m, st, callee, args, term)
        if p in self.leaves:
            return self.leaf(m, st, self.leaves[p], args[-1], callee)
        if p == ALLOWS:
            return self.allows(m, st, callee, args)
        if p == P + "nicknames::find_disallowed_space":
            # a probe of the string that does not transform it: its answer may steer the pipeline
            s = self._content(m, st, args[0])
            ans = st.choose(("probe", "find_disallowed_space", s.tag), ["None", "Some"])
            st.emit(("probe", "find_disallowed_space", s.tag, ans))
            return ip.none() if ans == "None" else ip.some(Sym(("pos", s.tag), "usize"))
        if p == STABILIZE:
            return self.stabilize(m, st, callee, args)
        if p in oncecell.ALL:
            return oncecell.access(m, st, callee, args, term)
        r = OracleWorld.call(self, m, st, callee, args, term)
        if r is None and len(args) == 1 and callee["name"] in ("Ok", "Err", "Some") and p.startswith(("core::result::Result::", "core::option::Option::")):
            # a variant constructor used as a function (`Ok` passed as the identity step): builds a value, does nothing
            return {"Ok": ip.ok, "Err": ip.err, "Some": ip.some}[callee["name"]](args[0])
        if r is None and m.ctor_of(p) is not None:
            return None
        if r is None and p not in m.models and not self.prog.is_ws(p) and not (p in self.prog.bodies and m.ext_simple(p)) and not callee.get("virtual"):
            raise UnexpectedCall("calls %s, which is not a step of the specified pipeline (every transforming or inspecting step must be one of the profile's rules)" % callee["full"])
        return r

    def opaque_const(self, st, c):
        return Opq("const", (c.get("ty"), c["k"]))

    def _content(self, m, st, v):
        v = deref_all(m, st, v)
        if not isinstance(v, Str):
            raise AnalysisError("a rule is applied to something that is not a tracked string: %r" % (v,))
        return v

    def leaf(self, m, st, name, arg, callee):
        s = self._content(m, st, arg)
        n = self._step(st)
        ans = st.choose(("step", n), ["Ok", "Err"])
        st.ext["nsteps"] = n
        st.emit(("leaf", n, name, s.tag, ans))
        if ans == "Ok":
            return ip.ok(Str(("out", n)))
        return ip.err(Sym(("err", n), ERROR + "!opaque"))

    def allows(self, m, st, callee, args):
        cls = deref_all(m, st, args[0])
        s = self._content(m, st, args[1])
        n = self._step(st)
        ans = st.choose(("step", n), ["Ok", "Err"])
        st.ext["nsteps"] = n
        cname = cls.ty if isinstance(cls, Adt) else repr(cls)
        st.emit(("leaf", n, "allows:" + cname.split("::")[-1], s.tag, ans))
        if ans == "Ok":
            return ip.ok(ip.UNIT)
        return ip.err(Sym(("err", n), ERROR + "!opaque"))

    def stabilize(self, m, st, callee, args):
        s = self._content(m, st, args[0])
        f = args[1]
        if isinstance(f, Ref):
            f = m.load(st, f.loc)
        if not isinstance(f, ip.Clo):
            raise AnalysisError("stabilize is given %r instead of a closure literal" % (f,))
        n = self._step(st)
        ans = st.choose(("step", n), ["Ok", "Err"])
        st.ext["nsteps"] = n
        caps = tuple(self._cap(m, st, c) for c in f.captures)
        st.emit(("leaf", n, "stabilize", s.tag, ans, f.defpath, caps))
        if ans == "Ok":
            return ip.ok(Str(("out", n)))
        return ip.err(Sym(("err", n), ERROR + "!opaque"))

    def _cap(self, m, st, c):
        v = deref_all(m, st, c)
        if isinstance(v, (Adt, ip.I)):
            return v  # (hashable values: the closure's pipeline is extracted with what it really captured)
        return repr(v)

    def enum_variants(self, ty):
        if ty.endswith("!opaque"):
            raise AnalysisError("a rule's error value is inspected or converted instead of being returned unchanged")
        return OracleWorld.enum_variants(self, ty)

    def str_is_empty(self, st, s):
        if isinstance(s, Str):
            return ip.boolean(st.choose(("empty?", s.tag), [True, False]))
        raise AnalysisError("is_empty of %r" % (s,))

    def str_eq(self, st, a, b):
        if isinstance(a, Str) and isinstance(b, Str):
            return st.choose(("str-eq", a.tag, b.tag), [True, False])
        raise AnalysisError("string equality of %r / %r" % (a, b))


def describe_result(prog, v):
    if isinstance(v, Adt) and v.ty == ip.RESULT:
        x = v.fields[0]
        if v.variant == 0:
            if isinstance(x, Str):
                return ("Ok", x.tag)
            if isinstance(x, I):
                return ("Ok", bool(x.v))
            if x == ip.UNIT:
                return ("Ok", ())
            return ("Ok", repr(x))
        if isinstance(x, Sym) and isinstance(x.name, tuple) and x.name[0] == "err":
            return ("Err", ("leaf", x.name[1]))
        if isinstance(x, Adt) and x.ty == ERROR:
            names = {vv["idx"]: vv["name"] for vv in prog.adts[ERROR]["variants"]}
            nm = names.get(x.variant, x.variant)
            if x.fields and isinstance(x.fields[0], Adt):
                sub = prog.adts.get(x.fields[0].ty)
                if sub:
                    nm = "%s(%s)" % (nm, {vv["idx"]: vv["name"] for vv in sub["variants"]}.get(x.fields[0].variant))
            return ("Err", nm)
        return ("Err", repr(x))
    return ("?", repr(v))


def extract(prog, body_key, args, world=None):
    """Run the body; return the list of paths [(events, result)], events in execution order."""
    world = world or PipeWorld(prog)
    m = ip.Machine(prog, world)
    outs = m.run(m.start(body_key, args))
    paths = []
    for o in outs:
        if o.kind != "return":
            paths.append(("!" + o.kind, str(o.info)))
            continue
        evs = []
        # merge leaf events and the empty?/str-eq decisions in execution order
        # (decisions are logged at the moment they are taken; leaf events carry their step number)
        log = [(k, v) for k, v in o.state.log if isinstance(k, tuple) and k[0] in ("empty?", "str-eq", "step", "probe")]
        leaf_by_n = {e[1]: e for e in o.state.events if e[0] == "leaf"}
        for k, v in log:
            if k[0] == "step":
                e = leaf_by_n.get(k[1])
                if e is not None:
                    evs.append(e[2:])  # (name, in_tag, ans[, closure, caps])
            elif k[0] == "empty?":
                evs.append(("empty?", k[1], v))
            elif k[0] == "probe":
                evs.append(("probe:" + k[1], k[2], v))
            else:
                evs.append(("str-eq", k[1], k[2], v))
        paths.append((tuple(evs), describe_result(prog, o.value)))
    return paths


# ---------------------------------------------------------------------------- specification side
class Spec:
    """A pipeline: list of steps over a current-string register.
    ("leaf", name) replaces the current string by the leaf's output; ("check", name) applies a rule to
    the current string without replacing it; ("nonempty",) rejects an empty current string with Invalid;
    ("stabilize", closure_spec_name) is a leaf whose closure is checked separately."""

    def __init__(self, steps):
        self.steps = steps


def spec_paths(steps, start_tag, n0=0):
    """All (events, result, n) of running `steps` on start_tag with leaf numbering starting after n0."""
    out = []

    def go(i, cur, n, evs):
        if i == len(steps):
            out.append((tuple(evs), ("Ok", cur), n))
            return
        s = steps[i]
        if s[0] == "leaf" or s[0] == "stabilize":
            k = n + 1
            extra = tuple(s[2:]) if s[0] == "stabilize" else ()
            nm = s[1] if s[0] == "leaf" else "stabilize"
            out.append((tuple(evs + [(nm, cur, "Err") + extra]), ("Err", ("leaf", k)), k))
            go(i + 1, ("out", k), k, evs + [(nm, cur, "Ok") + extra])
        elif s[0] == "check":
            k = n + 1
            out.append((tuple(evs + [(s[1], cur, "Err")]), ("Err", ("leaf", k)), k))
            go(i + 1, cur, k, evs + [(s[1], cur, "Ok")])
        elif s[0] == "nonempty":
            out.append((tuple(evs + [("empty?", cur, True)]), ("Err", "Invalid"), n))
            go(i + 1, cur, n, evs + [("empty?", cur, False)])
        else:
            raise KeyError(s)

    go(0, start_tag, n0, [])
    return out


def spec_compare_paths(steps, stab_like=False):
    """compare(a, b) = Ok(pipeline(a)? == pipeline(b)?)"""
    out = []
    for ev1, r1, n1 in spec_paths(steps, ("input", 1), 0):
        if r1[0] == "Err":
            out.append((ev1, r1))
            continue
        for ev2, r2, n2 in spec_paths(steps, ("input", 2), n1):
            if r2[0] == "Err":
                out.append((ev1 + ev2, r2))
                continue
            for ans in (True, False):
                out.append((ev1 + ev2 + (("str-eq", r1[1], r2[1], ans),), ("Ok", ans)))
    return out


def commute_empty(paths, leaf="width"):
    """Canonical order for an emptiness test next to a length-class-preserving leaf.
    `width` maps every character to exactly one character and can fail only on a non-empty string, so
    `is_empty(x)` and `is_empty(width(x))` are the same test and the two checks commute: a path set that tests
    emptiness *before* the leaf is rewritten to the specification's order (leaf first). The per-character
    discipline this relies on is C11's, which the profile checks adopt as a dependency."""
    paths = list(paths)
    out = []
    # which (prefix, tag) pairs are followed by the leaf on a sibling path
    follows = {}
    for p in paths:
        evs = p[0]
        if not isinstance(evs, tuple):
            continue
        for i in range(len(evs) - 1):
            e, f = evs[i], evs[i + 1]
            if e[0] == "empty?" and e[2] is False and f[0] == leaf and f[1] == e[1]:
                k = 1 + sum(1 for x in evs[:i] if x[0] not in ("empty?", "str-eq") and not x[0].startswith("probe:"))
                follows[(evs[:i], e[1])] = k
    for p in paths:
        evs = p[0]
        if not isinstance(evs, tuple):
            out.append(p)
            continue
        new = []
        i = 0
        changed = False
        while i < len(evs):
            e = evs[i]
            if e[0] == "empty?" and e[2] is False and i + 1 < len(evs) and evs[i + 1][0] == leaf and evs[i + 1][1] == e[1] and (evs[:i], e[1]) in follows:
                f = evs[i + 1]
                k = follows[(evs[:i], e[1])]
                new.append(f)
                if f[2] == "Ok":
                    new.append(("empty?", ("out", k), False))
                i += 2
                changed = True
                continue
            if e[0] == "empty?" and e[2] is True and i == len(evs) - 1 and (evs[:i], e[1]) in follows and p[1] == ("Err", "Invalid"):
                k = follows[(evs[:i], e[1])]
                new.append((leaf, e[1], "Ok"))
                new.append(("empty?", ("out", k), True))
                i += 1
                changed = True
                continue
            new.append(e)
            i += 1
        out.append((tuple(new), p[1]) if changed else p)
    return out


def diff_paths(got, want):
    """Human-readable differences between two path sets."""
    gs, ws = set(got), set(want)
    msgs = []
    for p in sorted(ws - gs, key=repr)[:3]:
        msgs.append("missing path: %s ⇒ %s" % (fmt_events(p[0]), p[1]))
    for p in sorted(gs - ws, key=repr)[:3]:
        msgs.append("unexpected path: %s ⇒ %s" % (fmt_events(p[0]) if isinstance(p[0], tuple) else p[0], p[1]))
    return msgs


def fmt_events(evs):
    out = []
    for e in evs:
        if e[0] == "empty?":
            out.append("empty(%s)=%s" % (fmt_tag(e[1]), e[2]))
        elif e[0] == "str-eq":
            out.append("%s==%s:%s" % (fmt_tag(e[1]), fmt_tag(e[2]), e[3]))
        else:
            out.append("%s(%s)%s" % (e[0], fmt_tag(e[1]), "" if e[2] == "Ok" else "✗"))
    return " → ".join(out)


def fmt_tag(t):
    if isinstance(t, tuple) and t and t[0] == "out":
        return "s%d" % t[1]
    if isinstance(t, tuple) and t and t[0] == "input":
        return "in%s" % ("" if len(t) == 1 else t[1])
    return repr(t)


def steps_of(paths):
    """The success path's leaf sequence (for evidence samples)."""
    best = None
    for p in paths:
        if isinstance(p[0], tuple) and p[1][0] == "Ok":
            if best is None or len(p[0]) > len(best[0]):
                best = p
    return fmt_events(best[0]) + " ⇒ " + str(best[1]) if best else "(no successful path)"
