"""L2 + L5 on every table static: order (searchability) and equality with the UCD, code point by code point.
Results are cached per facts directory so that the property checks that cite them share one computation."""
import json
import os

from spec import tables_spec as ts

from . import facts, tables, ucd


class Reference:
    """The independent reading of the repository's own UCD files."""

    def __init__(self, repo):
        self.repo = repo
        cu = os.path.join(repo, ts.CORE_UCD)
        pu = os.path.join(repo, ts.PROF_UCD)
        self.ud6 = ucd.UnicodeData(os.path.join(cu, "UnicodeData.txt"))
        self.ud16 = ucd.UnicodeData(os.path.join(pu, "UnicodeData.txt"))
        self.scripts, self.v_scripts = ucd.property_file(os.path.join(cu, "Scripts.txt"))
        self.jt, self.v_jt = ucd.property_file(os.path.join(cu, "extracted", "DerivedJoiningType.txt"))
        self.proplist, self.v_proplist = ucd.property_file(os.path.join(cu, "PropList.txt"))
        self.coreprop, self.v_coreprop = ucd.property_file(os.path.join(cu, "DerivedCoreProperties.txt"))
        self.hst, self.v_hst = ucd.property_file(os.path.join(cu, "HangulSyllableType.txt"))
        self._gc6 = None

    def expected_mask(self, source, sel):
        z = bytearray(ucd.MAXCP + 1)
        if source == "gc":
            return self.ud6.set_where(2, lambda v: v == sel)
        if source == "gc16":
            return self.ud16.set_where(2, lambda v: v == sel)
        if source == "cn":
            a = self.ud6.assigned_mask()
            return bytearray(1 - x for x in a)
        if source == "ccc":
            return self.ud6.set_where(3, lambda v: v == sel)
        if source == "script":
            return self.scripts.get(sel, z)
        if source == "jt":
            return self.jt.get(sel, z)
        if source == "proplist":
            return self.proplist.get(sel, z)
        if source == "coreprop":
            return self.coreprop.get(sel, z)
        if source == "hst":
            return self.hst.get(sel, z)
        raise KeyError(source)


def _fmt(cp):
    return "U+%04X" % cp


def compute(prog, repo):
    tabs, errs = tables.all_tables(prog)
    ref = Reference(repo)
    res = {"tables": {}, "errors": errs, "n_rows": 0}
    for path, rows in sorted(tabs.items()):
        r = {"rows": len(rows), "order": tables.check_order(rows), "diff": None, "spec": None, "notes": []}
        res["n_rows"] += len(rows)
        spec = ts.TABLES.get(path)
        if spec is None:
            r["diff"] = "no specification for this table static (new table?)"
            res["tables"][path] = r
            continue
        src, sel = spec
        r["spec"] = "%s:%s" % (src, sel)
        if src in ("gc", "gc16", "cn", "ccc", "script", "jt", "proplist", "coreprop", "hst"):
            exp = ref.expected_mask(src, sel)
            got = ucd.mask_from_rows(rows)
            d = ucd.first_diff(got, exp)
            if d is not None:
                n = ucd.count_diff(got, exp)
                # describe the differing code points compactly
                diffs = [i for i in range(len(got)) if got[i] != exp[i]][:6] if n <= 4096 else [d]
                r["diff"] = "%d code point(s) differ; first %s: table %s, UCD %s" % (n, _fmt(d), "has it" if got[d] else "lacks it", "has it" if exp[d] else "lacks it")
                r["diff_cps"] = diffs
                r["diff_count"] = n
            r["members"] = sum(exp)
            if any(v is not None for _, _, v in rows):
                r["notes"].append("set table carries values")
        elif src == "rfc":
            if sel == "exceptions":
                got = {}
                for lo, hi, v in rows:
                    for cp in range(lo, hi + 1):
                        got[cp] = v
                if got != ts.EXCEPTIONS:
                    ds = sorted(set(got.items()) ^ set(ts.EXCEPTIONS.items()))
                    r["diff"] = "differs from RFC 5892 §2.6: %s" % ", ".join("%s=%s" % (_fmt(c), v) for c, v in ds[:6])
                r["members"] = len(ts.EXCEPTIONS)
            elif sel == "backward_compatible":
                if rows:
                    r["diff"] = "RFC 8264 §9.7 BackwardCompatible is empty; table has %d rows" % len(rows)
                r["members"] = 0
            elif sel == "ascii7":
                got = ucd.mask_from_rows(rows)
                exp = ucd.mask_from_rows([ts.ASCII7])
                d = ucd.first_diff(got, exp)
                if d is not None:
                    r["diff"] = "differs from 0021..007E at %s" % _fmt(d)
                r["members"] = sum(exp)
        elif src == "bidi":
            exp = ref.ud16.field_map(4, None)
            got = tables.value_map(rows, None)
            nd = 0
            first = None
            for cp in range(ucd.MAXCP + 1):
                e, g = exp[cp], got[cp]
                # a code point missing from UnicodeData.txt has no explicit class: the lookup's default applies
                if e is None:
                    if g is not None:
                        nd += 1
                        first = cp if first is None else first
                elif g != e:
                    nd += 1
                    first = cp if first is None else first
            if nd:
                r["diff"] = "%d code point(s) differ; first %s: table %r, UnicodeData field 4 %r" % (nd, _fmt(first), got[first], exp[first])
                r["diff_count"] = nd
            r["members"] = sum(1 for x in exp if x is not None)
            classes = sorted({v for _, _, v in rows})
            r["classes"] = classes
        elif src == "width":
            dec = ref.ud16.decompositions()
            exp = {cp: mp for cp, (tag, mp) in dec.items() if tag in ("wide", "narrow")}
            bad_multi = [cp for cp, mp in exp.items() if len(mp) != 1]
            got = {}
            for lo, hi, v in rows:
                for cp in range(lo, hi + 1):
                    got[cp] = v
            exp1 = {cp: mp[0] for cp, mp in exp.items()}
            if bad_multi:
                r["notes"].append("multi-code-point <wide>/<narrow> mapping at %s" % _fmt(bad_multi[0]))
            if got != exp1:
                ds = sorted(set(got.items()) ^ set(exp1.items()))
                r["diff"] = "%d entries differ from the <wide>/<narrow> decompositions; first %s" % (len(ds), _fmt(ds[0][0]))
                r["diff_count"] = len(ds)
            # idempotence: no value is itself a key; every value is a scalar value
            again = [cp for cp, v in got.items() if v in got]
            if again:
                r["notes"].append("not idempotent: %s maps to a mapped character" % _fmt(again[0]))
                r["idempotent"] = False
            else:
                r["idempotent"] = True
            nonscalar = [v for v in got.values() if v > ucd.MAXCP or 0xD800 <= v <= 0xDFFF]
            r["values_scalar"] = not nonscalar
            r["members"] = len(exp1)
        res["tables"][path] = r
    missing = sorted(set(ts.TABLES) - set(tabs) - set(errs))
    res["missing"] = missing
    # version stamps of the resource files vs. the UNICODE_VERSION consts of the build scripts
    res["versions"] = {
        "Scripts.txt": ref.v_scripts,
        "DerivedJoiningType.txt": ref.v_jt,
        "PropList.txt": ref.v_proplist,
        "DerivedCoreProperties.txt": ref.v_coreprop,
        "HangulSyllableType.txt": ref.v_hst,
    }
    # predicate-level facts used by C14/C10 (computed from the same independent reading)
    cn = ref.expected_mask("cn", None)
    nonchar = ref.proplist.get("Noncharacter_Code_Point", bytearray(ucd.MAXCP + 1))
    una_tab = ucd.mask_from_rows(tabs.get(ts.C + "UNASSIGNED", []))
    nonchar_tab = ucd.mask_from_rows(tabs.get(ts.C + "NONCHARACTER_CODE_POINT", []))
    pred_impl = ucd.mask_andnot(una_tab, nonchar_tab)
    pred_spec = ucd.mask_andnot(cn, nonchar)
    d = ucd.first_diff(pred_impl, pred_spec)
    res["unassigned_predicate_diff"] = None if d is None else _fmt(d)
    return res


def _engine_stamp():
    """The cached result depends on the code that computed it: a stamp over the modules and specifications it is
    made from, so that a changed engine never reads an older engine's result."""
    import hashlib

    h = hashlib.sha1()
    here = os.path.dirname(os.path.abspath(__file__))
    for f in ("tablecheck.py", "tables.py", "ucd.py", "roles.py", "mir.py", os.path.join("..", "spec", "tables_spec.py"), os.path.join("..", "spec", "precis_spec.py")):
        try:
            with open(os.path.join(here, f), "rb") as fh:
                h.update(fh.read())
        except OSError:
            h.update(f.encode())
    return h.hexdigest()[:10]


def get(prog, repo=None):
    repo = repo or facts.REPO
    os.makedirs(os.path.join(prog.dir, "cache"), exist_ok=True)
    cache = os.path.join(prog.dir, "cache", "tablecheck-%s.json" % _engine_stamp())
    if os.path.exists(cache):
        with open(cache) as fh:
            return json.load(fh)
    res = compute(prog, repo)
    tmp = cache + ".%d" % os.getpid()
    with open(tmp, "w") as fh:
        json.dump(res, fh)
    os.rename(tmp, cache)
    return res


def report_tables(rep, res, paths=None, rule="L5", unassigned_trailing_key=True):
    """Turn the cached result into obligations for the given statics (None = all)."""
    n = 0
    for path, r in sorted(res["tables"].items()):
        if paths is not None and path not in paths:
            continue
        n += 1
        short = path.split("::")[-1]
        rep.ob("L2-order", short, not r["order"], "; ".join(r["order"][:3]), path, key="L2-order|%s" % path)
        key = "%s|%s" % (rule, path)
        if r["diff"] and short == "UNASSIGNED" and r.get("diff_cps") == [0x10FFFE, 0x10FFFF]:
            key = "%s|%s|trailing-gap-after-last-entry" % (rule, path)
        rep.ob(rule, "%s = %s" % (short, r["spec"]), r["diff"] is None, r["diff"] or "", path, key=key, sample=(n % 9 == 1))
    for path, e in sorted(res["errors"].items()):
        if paths is None or path in paths:
            rep.ob("fold", path, False, e, path)
    for path in res["missing"]:
        if paths is None or path in paths:
            rep.ob("table-present", path, False, "table static named in the specification does not exist", path)
    return n
